"""Fail-closed translator from a small imperative Python subset to Gallina (state passing).

Handled (everything else raises `TranslatorAbort` with file:line):

* a module-level, undecorated `def` with plain positional parameters, ending in `return e`;
* statements: `x = e`, `x op= e` (`|= &= += -= <<= >>=`), `xs.append(e)`, `if/elif/else`,
  `for x in range(e)`, `for i, v in enumerate(xs)`, `while e`, `break`, `return e`, `pass`;
* expressions: int/bool literals, `-literal`, names, `<< >> & | + -`, one comparison
  `== != < <= > >=`, `not/and/or`, `len(xs)`, `e.bit_length()`, `xs[i]`, truthiness of ints.

Every variable has a type declared by the caller (`FunSpec.types`): `N` (int known to be
>= 0), `Z` (int), `bool`, `elem` (sequence element, compared with the section's `eqb`),
`list` (sequence of elements).  Nothing is guessed: an undeclared name aborts, `-` is only
done in `Z`, a `Z` value never flows into an `N` variable, shift counts and indexes are `N`.

Shape of the output.  Python variables keep their names; an assignment is a shadowing `let`.
The statements after an `if` become a local continuation `k'n` over the variables the
branches assign.  Each loop becomes its own `Fixpoint` returning
`flow S R = Next s | Ret r | Fail e` (`s` = the variables assigned in the body, `Ret` = a
`return` inside the loop, `Fail` = IndexError / OutOfFuel); the body calls the Fixpoint in tail
position, `break` is `Next s`.  `for` recurses on the iterated list / on a `nat` count fixed at
loop entry, `while` on explicit fuel (term supplied by the caller; `Fail OutOfFuel` when it runs
out while the condition still holds).  `xs[i]` is `nth_error`, `None` -> `IndexError`.  A variable
first assigned inside a branch or loop body is local to it (reading it afterwards aborts).
The function itself returns `res R = Ok r | Err e`.

Extension (translation units, `Unit`): used by the drivers of modules with classes.

* types are written like Coq types over the base types: `list N`, `list (list N)`,
  `option elem`, `list (list (option elem))` (`list` alone still means `list elem`);
* a class is a `Record` of its declared fields (`ClassSpec.fields`); inside a method `self.f`
  is the variable `self'f` (bound from the record at entry, and again by the pattern of every
  call `self.m(..)`); a method returns `res (state * R)`, `__init__` returns `res state`.
  A list field may only be rebound in `__init__` (elsewhere lists are updated in place, which the
  state passing mirrors because no two variables ever share a list: a list variable is only
  ever assigned a freshly built list);
* `self.m(args)` is translated only where the evaluation order is unambiguous: as the whole
  right-hand side of an assignment, as the returned value, or as the index in
  `xs[self.m(..)].append(e)`.  A method calling itself becomes a `Fixpoint` on explicit fuel
  (`FunSpec.rec_fuel`, a Coq term over the parameters; `Err OutOfFuel` at 0);
* `f(args)` for a function translated earlier in the same unit (pure: it cannot mutate);
* `xs[i]` with `i` of type `Z` follows Python (a negative index counts from the end: `zget`);
  nested reads `t[i][j]`; stores `xs[i] = e`, `t[i][j] = e`, `xs[i] op= e`, `t[i].append(e)`
  are functional updates (`nset` / `zset`), `IndexError` when out of range;
* fresh lists: `[]`, `[e] * n` (immutable `e` only), `[e for _ in range(n)]` (`e` not using the
  loop variable), `list(range(n))`, `list(xs)` (copy), `[x for x in xs if c]`;
* `b ** e` with a non-negative base: `N.pow` / `Z.pow`; an exponent of type `Z` is guarded
  (`NegativePower` when negative -- Python would produce a float, which is not modelled);
* `min(a, b)` on elements: `py_min a b = if ltb b a then b else a` (Python returns the first
  argument unless the second is smaller), `TypeError` when an argument is a `None` cell;
* `assert x is not None` on a variable of option type: `AssertionError` when violated (the
  translation is of the program run without `-O`), the variable has the underlying type afterwards;
* `None` and values of type `T` where `option T` is expected (`Some`), `range(a, b)`, `range(e)`
  with `e : Z` (empty when negative), `e.bit_length()` on `Z` (of the absolute value).

Second extension (declarations of a `Unit`, used by `translator/entry_gen.py`; a unit that declares
nothing translates exactly as before):

* `Unit.opaque(name, coq, eqb=.., ltb=.., leb=..)`: a type of immutable values taken from a Coq
  library, with the functions `== != < <= > >=` become; `Unit.constant(py, module, type, term,
  neg=..)`: a name imported by `from module import py` (checked: bound exactly once, by that
  import) is the term, `-py` the term `neg`; `Unit.external(py, module, args, ret, coq)`: an
  imported function is the Coq function; `Unit.use_product()`: `itertools.product`;
* `Unit.enum(name)`: `class name(Enum)` whose body is `<MEMBER> = auto()` lines -> an `Inductive`
  and `<name>_eqb`; `name.MEMBER` is the constructor `name_MEMBER`, `==`/`!=` on two values of the
  enum is `name_eqb` (anything else on an enum aborts);
* `Unit.dataclass(DataSpec)`: `@dataclass(frozen=True)` with exactly the declared fields -> a
  `Record`; `name(a, b)` with every field given positionally is `mk_name a b`, `x.field` the
  projection (only on a value of the declared dataclass type);
* type `set` (of elements): a duplicate-free `list A` in insertion order; `set()` = `nil`, `{e}` =
  `cons e nil`, `s.add(e)` = `set_add e s` (append unless `set_mem`, which uses the section's
  `eqb`), truthiness = non-emptiness, `for x in s` = list order (Python fixes none: the caller
  states its theorem for every list).  A set variable may only be assigned `set()` or `{e}`;
* `for x in xs` (list or set variable the loop does not modify, or the result of a reading method
  call), `for a, b in product(xs, ys)`: two nested Fixpoints `.._in` (inner, over `ys`) and the
  outer one, same state; `break` inside it aborts;
* `a if c else b`; `if x [and c]:` with `x : option elem` when the unit declares elements truthy
  (`truthy_elem`): a `match` on `x`, which is the element itself inside the branch (`c` is
  evaluated only in the `Some` case, as Python's `and` does); an `if` whose test the declared
  types decide (`p is None` for a parameter declared `none`, `isinstance(x, E)` for `x` declared
  of the enum `E`, `and` of such) is replaced by the branch taken, the other is not translated;
* methods (`extended` units): `*args` is one list parameter; a parameter `p=None` declared `none`
  is omitted (every translated call omits it); a method with `ret="unit"` returns nothing
  (`res (state * unit)`); `@overload` stubs before the definition and `<method>.__doc__ = <dotted
  name>` lines in the class body are skipped; `FunSpec.pure` (checked: assigns no attribute,
  calls no method of self) marks a method callable on any object in any expression;
* objects of a translated class as values: a type named like the class; `C(args)` (fresh object,
  only as the right-hand side of a local variable), `x.m(args)` as a statement (x a local; a
  parameter only for a `pure` m), `x.m(args)` of a `pure` m inside expressions; a parameter of
  function type `"T1 -> T2 -> T"` (a pure total function) may be called;
* `Unit.begin_outside(insts)` + `Unit.method(cls, spec)`: a method translated after the Section is
  closed, where classes and dataclasses take the element type as an argument; type names with a
  suffix (`Entry2`, `Candidate2`, `elem2`) denote the instance at the second element type, calls
  are emitted as `(@gen_m U eqb2)` (the equality only if the callee uses it: tracked).

Third extension (used by `translator/eval_gen.py`; every item is switched on by a declaration or a flag of
the `Unit`, a unit that sets none translates exactly as before):

* `Unit.bintree(name, ident)`: a type of immutable binary trees (ete3 nodes with no or exactly two children):
  an `Inductive` whose nodes carry an identifier of the Coq type `ident` (the identity of the Python object);
  `x.is_leaf()` is `<name>_is_leaf x`; `a, b = x.children` is a `match` (`ValueError` on a leaf: too few values
  to unpack); `for x in t.traverse("preorder")` is a `Fixpoint` on the tree whose local continuation `next'`
  (what follows the body for this node) runs the loop on the first, then on the second subtree (`break` aborts);
* `FunSpec.rec_on`: a method that calls itself on a child of its tree parameter is a `Fixpoint ... {struct p}`
  (the argument must be a variable bound by unpacking `.children` of the parameter or of such a variable, and
  none of them may be reassigned; Coq's guard checker re-checks the decrease); `node=None` on such a parameter is
  accepted when the unit sets `passed_defaults` (every translated call passes it);
* `Unit.mapping(name, tree, value)`: a dictionary keyed by the nodes of a tree that is only read and total on the
  nodes looked up: a function from identifiers, `d[x]` is `d (<tree>_id x)` (KeyError is not modelled: the driver
  states totality as an assumption); a local list variable bound once to `d[x]` and never updated is allowed;
  `Unit.enumdict(name, {"Enum.MEMBER": type})`: a dictionary read with literal enum keys: a `Record`;
  `Unit.nodedict(name, tree, value, eqb)`: a local dictionary `{x: e}`, `d[x] = e`, `d[x]` (`KeyError` when
  absent): the list of its stores, newest first, looked up with `dict_get`; `a = d[x] = e` is `a = e; d[x] = a`;
* `Unit.methods_of(opaque type, {method: (argument types, result type, Coq function)}, call=..)`: `x.m(..)` and
  `x(..)` on a value of an opaque type are the declared (pure, total) functions applied to the object and the
  arguments; `Unit.numbers(opaque type, add, of_Z)`: `a + b` with an operand of that type (the other one the same
  type or an int, injected) and an int where such a number is expected; `products`: `a * b`, `min(a, b)` on ints,
  an int literal beside an int in `a if c else b`; `set_ops`: `set(xs)` (`set_of_list`) and `a <= b` on sets
  (`set_subset`); `bool_asserts`: `assert c` (`AssertionError` when false); `imported` accepts `..pkg.mod`;
* `ClassSpec.frozen` / `base`: `@dataclass(frozen=True[, repr=..]) class C[(B)]` with methods: the fields are the
  annotated attributes (those of `B` first), `x.field` on a value of the class is the projection, every translated
  method is `pure` and may call the others anywhere in an expression (hoisted in evaluation order: nothing can be
  modified, only the first error matters); `FunSpec.owner = B`: the method inherited from `B`, translated again
  for the fields of `C` under its own alias -- `self.m` reaches it only if `C` does not define `m` (checked),
  `super().m(..)` (in a method defined by `C`) always does.

Fourth extension (used by `translator/lca_gen.py`; again every item is switched on by a declaration or a flag of the
`Unit`, a unit that sets none translates exactly as before):

* `Unit.ntree(name, ident, eqb)`: a type of immutable trees whose nodes have any number of children: an `Inductive`
  with an identifier and the list of children at every node; `x.is_leaf()` is `<name>_is_leaf x` (no child), `a == b` /
  `a != b` on two nodes compare the identifiers with `eqb` (identity of the objects); `for c in x.children` is a loop over
  `<name>_children x` (a dictionary declared with `Unit.nodedict` may be keyed by such nodes);
* a module-level function with `FunSpec.rec_on` (a parameter of such a tree type) that calls itself on a child of that
  parameter -- a variable bound by `for c in <parameter or child>.children` -- is a `Fixpoint ... {struct p}`; a loop over
  the children whose body makes the recursive call is emitted in place as a local `fix` over the variables the body
  assigns (nested recursion; Coq's guard checker re-checks the decrease); a recursive call anywhere else aborts.  A function
  parameter may have a non-negative int literal as default: a call that omits it passes the literal;
* type `pair T1 T2` (a 2-tuple of immutable values): `(a, b)` is the pair, `t[0]` / `t[1]` (literal index only) `fst` / `snd`,
  `for i, (a, b) in enumerate(xs)` binds the components (`_` binds nothing); `Unit.pair_ltb` emits Python's `<` on
  tuples `(int, node)`, with an unknown function for `<` between two distinct nodes (ete3 nodes define none);
* list displays `[e1, .., en]`, `xs.extend(e)` (`xs ++ e`), `xs[k:]` as the sequence a `for` iterates (`skipn`), `f(..)`
  returning a list as a freshly built list when `f` takes no list (nothing else can name the result), `max(a, b)` on
  ints (`products`), `a = b = e` on ints / booleans;
* a dictionary keyed by nodes (`nodedict`) may be an attribute created empty (`{}`) and filled (`d[k] = e`) by
  `__init__`; `k in d` / `k not in d` is `dict_mem`; the key of `d[k]` may itself be an indexing (`d[xs[0]]`);
* `raises`: `raise E("literal")` with `E` one of IndexError, AssertionError, TypeError, ValueError, KeyError (not rebound
  anywhere in the module) is that error; nothing may follow it in its block;
* `pure_self_calls`: a method declared `pure` may call methods declared `pure` (translated before it) anywhere in an
  expression, also inside the arguments of such a call; `self(..)` is `self.__call__(..)`; the calls are hoisted in
  Python's evaluation order (nothing can be modified, only the first error matters); `return a or b` / `return a and b`
  on booleans whose later operand can raise is the conditional it abbreviates (the later operand is not evaluated when
  the first one decides);
* `Unit.foreign_class(name, module, coq, lift, init, call)`: a class imported from another module that another driver
  translates (with `pyfun`) into another generated file: `name(args)` -- only as the value `__init__` assigns to an
  attribute declared of that type -- and `self.attr(args)` are the declared Coq functions, their results converted
  with `lift`; the object returned by a call is dropped (the driver has checked that the call only reads its object).

Fifth extension (used by `translator/toposort_gen.py`; everything is switched on by `Unit.use_containers`, a unit that does not
call it translates exactly as before):

* `Unit.elemdict(name, value)`: a dictionary keyed by elements: the association list `list (A * V)` of its items in insertion
  order (iteration order = list order, as Python guarantees for `dict`); `d[k]` is `adict_get eqb d k` (`KeyError` when absent),
  `d[k] op= e` reads the item, then stores with `adict_set` (the value is replaced where the key stands; a new key would go to
  the end), `len(d)`, `for v in d.values()`, `for x in d[k]`, `{k: e for k in d}` (`e` cannot raise), `deque(d)` / `set(d)` (the
  keys in order); a dictionary may only be updated through a local variable or a parameter the driver declares in
  `FunSpec.mutates` -- the function then returns the final dictionary together with its result (`res (dict * R)`), and a call
  (only as a whole right-hand side or as the sequence a `for` iterates, with a variable in that position) binds the variable
  again from the returned pair;
* type `deque` (of elements): the list of its items, left to right: `deque(d)`, truthiness, `q.append(e)`, `x = q.popleft()`
  (`IndexError` when empty), `q.remove(e)` (first occurrence, `ValueError` when absent);
* type `set`, more: `set(s)` (a copy: the same list), `s.remove(e)` (`KeyError` when absent), `s.discard(e)`; `for x in s` on a set
  *variable* iterates `(ord s)` when the unit names a set order (`use_containers(set_order="ord")`: a Section parameter
  `ord : list A -> list A`, which the theorems require to return a permutation of its argument -- Python fixes no order);
  type `seqset`: a set the translated code never updates, given as the list of its elements in the set's iteration order
  (the values of an input dictionary): iterated in list order, nothing else is translated on it;
* a module-level function with `FunSpec.rec_fuel` that calls itself is a `Fixpoint <f>_rec` on explicit fuel (`Err OutOfFuel` at
  0) and `<f>` applies it to the declared fuel; a `for` over a set / list variable whose body makes the recursive call is
  emitted in place as a local `fix` over the variables the body assigns; the other loops stay top-level Fixpoints;
* a loop variable holding a list may be updated in place (`x.append(e)`, `x.reverse()`): when the loop iterates the result of a
  call (a list nothing else names) the update is a rebinding of `x`, and `ys.append(x)` may only be the last statement of the
  body; when it iterates a local list variable `xs` (nothing else in the body touching `xs`), `x` is `xs[idx']` and every update
  is written back to `xs` at once (`list_set`).

Sixth extension (used by `translator/table_gen.py` and `translator/thl_gen.py`; everything is switched on by `Unit.use_tables`, a
unit that does not call it translates exactly as before):

* type `tuple T` (a Python tuple used as an immutable sequence): a Coq list; `()`, `(e,)`, `t + (e,)`, `t[i]` (also negative,
  `zget`), `t[k:]` (`skipn`), `t[:-1]` (`removelast`), `len(t)`, truthiness, `for x in t` / `for x in t[:-1]`; a tuple display where
  a tuple is expected (an argument, a field); `Unit.marker(C)`: `@dataclass class C(B)` without attributes -> a one-value type,
  `C()` its value, `isinstance(x, D)` on a variable declared of such a class is decided by the declared type (the branch not taken
  is not translated; what follows a taken branch that ends in `return` / `raise` is unreachable and dropped);
* `Unit.cells(..)`: the type of what a nested table of `defaultdict`s holds -- `None`, an entry (an object of a translated class),
  or `defaultdict(lambda: f(x))` (f the declared factory function, x an immutable local: kept as the value of x and the items in
  insertion order; reading a missing key calls the factory and stores its value).  A variable declared `cursor` is a REFERENCE into
  that tree-shaped structure (no two paths reach the same object): the list of the keys followed from the root, which is the
  variable the reference is first bound to (`c = <root>`; `c = c[k]` follows k, and like every read `c[k]` may give the defaultdict
  the key); `c[k]`, `c[k] is None`, `c[k] = v`, `c[k].m(args)` (the entry is read, updated, stored back), `return c` (the cell; a
  dictionary where an optional entry is declared: `AttributeError`, which is what the caller's method call raises in Python);
* `ClassSpec.views`: an attribute that refers to an object living elsewhere (a proxy's `parent`).  `self.f.g` is the variable
  `self'f'g`, the record of the viewed object is rebuilt from them; a view object is a temporary: `V(obj, ..)` (obj: `self`, an
  attribute of self that is itself such a reference, or a variable) only as the base of a chain `V(..)[k]..`, `V(..).m(..)`, of a
  store `V(..)[k] = v`, or in a `return`.  A chain `x[k1][k2].m(args)` / `x[k1][k2] = v` (x a variable holding an object whose
  `__getitem__` / `__setitem__` are translated; a step may return another view) is evaluated step by step, each step taking the
  view the previous one returned; when the chain is done the object is read back from the last view (`<V>_<f>` / `<Union>_parent`)
  into the variable / the attributes it was borrowed from.  Sound because a view is only ever built from the current state of the
  object it views, immediately before it is used or returned, and nothing else touches the object while the chain runs (an argument
  of a step may not mention the borrowed variable).  `Unit.union(name, classes)`: what a method returning objects of several
  classes returns (an `Inductive`); `Unit.union_methods` emits the dispatch -- a class without the method answers `AttributeError`
  (`TypeError` for subscripts); `return self` where a union is expected;
* `Unit.import_unit(other, alias, lift, ..)`: the enums, dataclasses, classes (with their translated methods), trees, enum-keyed
  dictionaries, marker classes, cell type and unions of another generated file become declarations of this one, emitted qualified
  and with their type arguments; a method call is `lift (@alias.gen_m <type args> <section variables the method uses> obj args)`
  (`Unit.use_tables(section_vars=..)` makes a unit track which explicit Section variables each generated function takes);
  `Unit.method` on such a class adds a method in this file; `Unit.record_class`: a frozen dataclass of another module whose
  objects this file builds and keeps as a Record of its own, its methods being functions the driver defines;
* more on objects: a parameter with an enum-member default (a call that omits it passes the member), dataclass fields with the
  default `None`, `x = obj.m(..)` for a method declared `fresh` (it returns an object it builds: checked) or when x is afterwards
  only read (tested against None, receiver of `pure` methods), `if x is None: <return>` on an optional variable (a `match`; x is the
  value afterwards), `x is None` / `is not None` as expressions, `f(*xs, y, *e.m(..))` for a `*args` parameter (`*e` of an object
  with a translated generator `__iter__`: the list of what it yields; `*map(lambda x: e, xs)`: e for each item in order, the first
  error ends it), `any(c for x in xs)` (`existsb`; c cannot raise), `raise E(f"..")` with an f-string over names and `len(..)`;
* generators (`FunSpec.generator`): `yield e` appends to a hidden accumulator `acc'`, `yield from e`, bare `return`; the function
  is the list of what it yields -- valid where, as in the translated callers, the generator is consumed at once (`*gen`,
  `product(gen, gen)`, `map(.., gen)` unpacked into a call) so that laziness cannot interleave it with anything that could observe
  or change what it reads;
* local function definitions `def f(a, b): return e` (e cannot raise; captured variables immutable and assigned once): a Coq `fun`
  bound by `let`, passed where a parameter of function type is expected; `Unit.namedtuple`: `class C(NamedTuple)` -> a Record and
  its equality; `Unit.attrs_of`: attributes of opaque values (`species_lca.tree`); `Unit.coercion(src, dst, fmt)`: a value of the
  declared type src where dst is expected (a node where its identifier is meant, a value where a table key is meant);
  `Unit.same_type`: two names of one type (the element type of an instance and the tag class); `unwrap_none`: `x.f` of an optional
  field where a value is needed is the error `NoneValue` when it is `None` (the translation does not follow what Python would do
  with the `None`; the proofs show it does not arise);
* binary trees: `for x in t.traverse()` / `traverse("postorder")` / `traverse("levelorder")` with t any expression of a declared
  tree type is a loop over the list `<T>_levelorder t` / `<T>_postorder t` (`Unit.traversal_defs`: ete3's orders; the default is
  level order: by increasing depth, left to right); `types["x@for"]`: the type of the variable x bound by a `for` when another
  variable of the same name (never live at the same time) has another type;
* module-level functions: `ret="unit"` (nothing returned), `mutates` naming parameters that hold OBJECTS the function updates
  (chains on them, calls passing them on): the generated function returns them with its result and every call -- as a statement, as
  a right-hand side, or inside an expression, where calls are hoisted in evaluation order -- binds the variables passed again;
  `rec_on` a binary-tree parameter with recursive calls on variables bound by unpacking `.children`, also inside a `for` (then
  emitted in place as a local `fix`); `product(a, b)` as a value (`list_prod`), `for a, b in xs` over a list of pairs;
  dictionary displays `{k: v, **d1, **d2}` on dictionaries keyed by nodes (the stores in order: `d2 ++ d1 ++ [(k, v)]`, newest
  first); a set read through views is iterated in the order `Unit.set_orders[<instance>]` (a Section parameter) decides.

Seventh extension (used by `translator/spfs_gen.py`; everything is switched on by `Unit.use_seventh`, a unit that does not call
it translates exactly as before; the statement forms are in `_Fun.block7`, tried first for every statement):

* dictionaries keyed by elements, more: `d = {}`, `d[k] = set()`, `d[k].add(e)`, `k in d` / `k not in d`; `for a, b in
  zip(xs[0:-1], xs[1:])`; `continue`; `x = t.children[i]`; `return lambda ..: e` and `x = f(..)` of a function type;
  `xs = tuple(C._make(o.m() for _ in range(len(C._fields))) for _ in range(k))` (`make_idiom`), `xs[i].f.m(..)` as a statement
  (`field_method_stmt`), reads `xs[<literal>].f` hoisted before their statement (`item_field_reads`); `for x in table[a][b]`
  (`__iter__` of the proxy, the keys taken at loop entry: `Unit.snapshot_iteration`; `Unit.narrowings`: the declared pattern an
  item must match, else the declared error); `yield from c.keys()` on a reference into the table; `isinstance(c, list)` false
  on such a reference; `tqdm(xs, ..)` = `xs` (`Unit.use_tqdm`, `strip_tqdm`), `sum(1 for _ in xs)` (`count_idiom`); keyword
  arguments normalised when they are exactly the next parameters in order (`Unit.kwparams`, dataclasses, record classes:
  `_KwNormalizer`); methods added in this file to a class imported from another generated file (`Unit.method(.., other=..)`,
  `Unit.local_sfx`), `cell_call`: that file's cell helpers;
* `Unit.external_res(py, module, args, ret, coq[, fresh])`: an imported function (`module=None`: a function of the module itself
  that another part of the generated file translates) that can RAISE: `coq` returns `res ret`; a call is hoisted in evaluation
  order like the call of a translated function; `fresh`: the list it returns is newly built;
* `if a and b: BODY` without `else`, b containing a subscript (it can raise): the nested `if a: if b: BODY` it abbreviates;
* a variable that is not defined before an `if` and that both branches assign on every path reaching their end (`definite7`)
  is defined after the `if` (the continuation takes it);
* `x.f.g`, `x.f` of the declared type `option <named tuple>`: AttributeError when it is `None`, what Python raises (`opt_field`);
* `node in d` / `node not in d` on a declared mapping type: the Coq function `Unit.mapping_mem[<type>]` applied to `d` and the
  node's identifier; `a == b` / `a != b` on nodes of a binary tree type: `Unit.tree_eqb[<type>]` on the identifiers (identity
  of the objects);
* `Unit.singleton_methods` {(class, m)}: `x.m()` yields the object x itself and nothing else -- `for y in x.m()`,
  `sum(1 for _ in x.m())`; `Unit.noop_methods` {(class, m)}: the statement `x.m()` has no effect the translation models and
  cannot raise (neither counts as an update of x); `Unit.stderr_print`: `print(f"..", file=sys.stderr)` (`sys` bound by `import
  sys` only) whose f-string mentions only names and `'<sep>'.join(<sequence variable>)` is no statement;
* `return f(.., lambda ..: e, ..)`, f a function of the unit: the lambdas become local functions `lambda_1`, .. defined first
  (building a function has no effect), passed by name; a local function may capture an object of a frozen dataclass; inside the
  body of a local function whose declared result is a list (`expr7`): `a if c else b`, a tuple display, `range(n)`,
  `t.traverse(..)` are the lists of their items (the declaration of the function type states that the receiver only iterates
  the result); `Unit.lookup_lists[(nodedict type, list type)]`: a TOTAL Coq term for `[d[k]]` -- a declared deviation from
  Python's KeyError that the driver documents.

Eighth extension (used by `translator/uspfs_gen.py`; everything is switched on by `Unit.use_eighth`, which needs `use_tables` and
`use_seventh`; a unit that does not call it translates exactly as before; the statement forms are in `_Fun.block8`, tried first
for every statement, the expression forms in `_Fun.expr8` / `ntype8`):

* `x: T = e` in a function body is `x = e` (the annotation of a local variable is not evaluated: PEP 526);
* `Unit.sets8[<type>] = (element type, Coq equality, order function)`: a Python set of immutable values as an immutable VALUE (a
  duplicate-free list; the type is declared `opaque`, `<=` being its declared `leb`): `set()`, `set(xs)` of a list
  (`gset_of_list`), `a | b` (`gset_union`), `set().union(*(d1[c] for c in x.children)).difference(*(d2[c] for c in x.children))`
  (the values are read first, in the order of the children: `dict_gets8`, KeyError; then `fold_left gset_union / gset_diff`); a
  set is never updated in place except through `d[k].add(e)` below, where the dictionary is the only holder of its sets (they
  are created by `set()` in a comprehension / by the defaultdict);
* `Unit.ddicts8[<type>] = (key type, set type)`: `d = defaultdict(set)` (checked: `from collections import defaultdict`), a
  dictionary kept as the list of its items in insertion order; `d[k].add(e)` is `ddict_add8` (a missing key gets the empty set,
  as a new last item, then e is added); `for k, v in d.items()`: the items in insertion order;
* dictionaries keyed by nodes (`nodedict`) whose values are such sets: `d = {}`, `d = {node: e for node in t.traverse(..)}` (one
  store per node, e unable to raise and not mentioning the node), `d[k].add(e)` (the set at k is read -- KeyError --, e added,
  the new set stored for k), `d = f(..)` for a function of the unit declared `fresh` that returns such a dictionary;
* `Unit.items8[<mapping type>] = (Coq function, item type)`: `for k, v in <mapping>.items()` iterates the list the function gives
  (the driver's Section variable: Python's iteration order of that dictionary); `Unit.varcalls8[<opaque type>] = (set type,
  result type, Coq function)`: `f(*s)`, f a variable of that opaque type and s a set variable: the function applied to f and to
  the items of s in the order the set's order function decides;
* `for x in E`, E a declared enum class: its members in definition order; `for x in f(..)`, f a parameter of function type
  returning a list;
* `Unit.kinddicts8[<type>] = (enum, named tuple)`: a dictionary with one item per member of the enum, as the association list of
  its items in definition order: `xs = tuple(dict((k, C._make(o.m() for _ in range(len(C._fields)))) for k in E) for _ in
  range(n))` (`o.m()` evaluated once: see `make_idiom`), `xs[i][k].f.m(..)` as a statement (IndexError, KeyError; the object is
  put back into the named tuple, that into the dictionary where k stands, the dictionary into the tuple), reads
  `xs[<literal>][k].f` (k a variable) hoisted before their statement in the order of their first occurrence (as
  `item_field_reads`: reading has no effect, so that this can only change WHICH error is reported);
* `Unit.proxy_alias8`: `x = table[a][b]` with x declared `proxyalias`: the chain is evaluated where it stands (its effect on the
  table and its errors happen there) and every later `x[k]..` is translated as the chain `table[a][b][k]..` evaluated in full
  (a, b: variables not assigned again; any other use of x aborts).  ASSUMPTION of the driver that sets the flag: a proxy is a
  (table, prefix) pair without state of its own, and evaluating `table[a][b]` again on the same keys has no further effect on the
  table and yields an equal proxy.

Containers are VALUES.  Lists, sets, dictionaries and objects are translated as immutable Coq values and every update as a
rebinding of the variable (state passing); two Python names for one mutable object are therefore invisible to the translation.
The subset is chosen so that no alias can arise (a container variable is only ever bound to a newly built container, a parameter is
never updated unless declared, ..), and what would update a possibly shared object in place ABORTS: in particular `x op= e`
(`|= &= += -= ..`) on a variable is translated only for ints, booleans and declared number types -- on a set, list, dictionary or
object it is `x.__ior__(e)` etc., an update of the object under all its names (`x = x | e`, which builds a new set, is
translated).  The module itself must consist of imports, defs, classes, the docstring, simple constant assignments (typing
aliases, `TypeVar`) and `if TYPE_CHECKING:` imports, and may not bind a built-in name the translation interprets (`len`, `set`,
`sorted`, `min`, `max`, `sum`, `zip`, `range`, `list`, `tuple`, `dict`, `any`, `all`, `enumerate`, `reversed`, `iter`, `next`,
`isinstance`): anything else (e.g. `mod.Class.method = f`) aborts (`Unit.check_module`, run when the unit is created).

Ninth extension (used by `translator/dsu_gen.py` for `DisjointSet.binary`; everything is switched on by `Unit.use_ninth`, which needs
an `extended` unit with `use_containers`, `use_tables` and `use_seventh`; a unit that does not call it translates exactly as before;
the statement forms are in `_Fun.block9` / `_Fun.prepare9`, tried first, the expression forms in `_Fun.expr9` / `ntype9`):

* `Unit.local_function(cls, method, spec)`: a `def` at the top level of a method body, translated before the method as a function of
  the unit (checked: defined once, never rebound, mentioned nowhere else, undecorated, and mentioning no variable of the method, so
  that it is closed); calling itself it is a `Fixpoint` on the declared fuel; the method may use it only as `return f(..)` at its top
  level, keyword arguments being exactly the remaining parameters in order;
* objects as arguments of such a function: the callee cannot update a parameter (a method call on a parameter aborts) and
  `x = deepcopy(y)` (`from copy import deepcopy`; y an object of a translated class whose attributes hold ints / lists of ints /
  booleans) is the value of y; an object handed on must be a local variable that is not the receiver of any call textually after the
  hand-over in a function without loops -- so an object the callee returns inside its result has the value it had at the call;
  `self` handed over by the method (only in the returned call) is the object as it is when the callee starts;
* `FunSpec.fresh` on a local function with a list result (checked: every returned value is a list display, a concatenation, a slice
  or such a call): its result may be bound to a list variable; `xs + ys` on two lists of one type (`++`), `xs[k:]` with a literal
  k >= 0 as a new list (`skipn`), `[x]` with x an object;
* `if x is not None: A else: B` on a variable of an option type: a `match` (x is the value inside A); `if x is None`, `x is None or
  c`, `x is not None and c` are rewritten into it (A or B is translated twice; c is evaluated only where Python evaluates it);
* `list(set(self.m(i) for i in range(e)))` as an argument of the returned call: the loop it abbreviates (the generator is consumed
  at once by `set`; `self.m` may update the object: the state is threaded) collecting the items in insertion order, then
  `Unit.use_ninth(list_set_order={<list type>: <Section variable>})` applied to that list (with its duplicates): the distinct items in
  the order Python iterates the set -- a function of the inserted sequence that the theorems quantify over.

Ninth extension, second part (used by `translator/build_gen.py` for `tree_from_triples`; same switch):

* `Unit.buildtree9(name, module, label)`: ete3's `Tree` as the type of trees the code BUILDS (an opaque type whose `Inductive`
  -- a name, `None` when none is given, and the list of children -- the unit emits): `Tree()` / `Tree(name=e)` is a new node without
  children, `x.add_child(y)` (x a local variable; y a new node or a variable that is never itself given a child in the function)
  appends y to the children of x -- a rebinding of x, sound because no tree has two names: a tree variable is only ever bound to
  a new node, `t.copy()` (the value t), None or the result of a function of the unit, and x may not have been handed on
  (appended, put in a display, passed, returned) earlier in the same life of the variable (`no_escape9`: since its last binding
  to a new node, also around a loop); `if x:` / `if not x:` on an `option <tree>` variable is `x is not None` / `x is None` (ASSUMPTION:
  `TreeNode.__bool__` is always true); `if x is None: <return>` leaves x narrowed afterwards (the sixth extension's form);
* `Unit.tuple9(name, components)`: a Python tuple with exactly these (immutable) components, the Coq product; `for a, b, _ in xs`
  over a list of them (a fresh loop variable, unpacked first); `all(v in ys for v in t)`, t such a tuple whose components have the
  item type of the list ys: the conjunction, left to right, of `existsb (fun y' => eqb y' c) ys`;
* `d = {k: i for i, k in enumerate(xs)}` into a local dictionary keyed by elements (`Unit.elemdict(.., "N")`): `enum_dict9` (one
  store per item, in order: a key that occurs again keeps its place and takes the later position);
  `ys = [xs[i] for i in g]` (g a `list N`): `list_gets9`, IndexError at the first position out of range;
* `len(x)`, x a local object whose class translates `__len__`: the call of that method (the object is bound again);
  `for g in x.m()`, m a translated method that is not `pure`: the list is bound first (`x` may not occur in the loop body);
* objects of a class imported from another generated file (`Unit.import_unit`) as locals of a module-level function recursive
  on fuel (`FunSpec.rec_fuel`), whose loop containing the recursive call is a local `fix`.
"""
from __future__ import annotations

import ast
import copy
from dataclasses import dataclass, field, replace
from pathlib import Path
from typing import Callable, Dict, List, Optional

try:
    from harness.core import TranslatorAbort
except ImportError:  # stand-alone use
    class TranslatorAbort(RuntimeError):
        pass

PRELUDE = """\
Inductive err : Set := IndexError | OutOfFuel.
Inductive res (R : Type) : Type := Ok (r : R) | Err (e : err).
Inductive flow (S R : Type) : Type := Next (s : S) | Ret (r : R) | Fail (e : err).
Arguments Ok {R} r.  Arguments Err {R} e.
Arguments Next {S R} s.  Arguments Ret {S R} r.  Arguments Fail {S R} e.
"""
EXTRA_ERRORS = ("AssertionError", "TypeError", "NegativePower", "ValueError", "KeyError", "AttributeError", "NoneValue")
HELPERS = {
    "list_set": """\
(* xs[i] = v at a position counted from the front; None = IndexError *)
Fixpoint list_set {X : Type} (l : list X) (i : nat) (v : X) {struct l} : option (list X) :=
  match l, i with
  | nil, _ => None
  | cons _ l', O => Some (cons v l')
  | cons x l', S i' => match list_set l' i' v with Some r => Some (cons x r) | None => None end
  end.""",
    "nset": """\
Definition nset {X : Type} (l : list X) (i : N) (v : X) : option (list X) := list_set l (N.to_nat i) v.""",
    "zpos": """\
(* the position Python's xs[i] designates: a negative index counts from the end *)
Definition zpos {X : Type} (l : list X) (i : Z) : option nat :=
  if Z.leb 0%Z i then Some (Z.to_nat i)
  else if Z.leb 0%Z (Z.add (Z.of_nat (length l)) i) then Some (Z.to_nat (Z.add (Z.of_nat (length l)) i))
  else None.""",
    "zget": """\
Definition zget {X : Type} (l : list X) (i : Z) : option X :=
  match zpos l i with Some p => nth_error l p | None => None end.""",
    "zset": """\
Definition zset {X : Type} (l : list X) (i : Z) (v : X) : option (list X) :=
  match zpos l i with Some p => list_set l p v | None => None end.""",
    "is_empty": """\
Definition is_empty {X : Type} (l : list X) : bool := match l with nil => true | cons _ _ => false end.""",
}
HELPERS["dict_get"] = """\
(* d[k] on a dictionary kept as the list of its stores, newest first; None = KeyError *)
Fixpoint dict_get {K V : Type} (keqb : K -> K -> bool) (d : list (K * V)) (k : K) {struct d} : option V :=
  match d with
  | nil => None
  | cons (k', v) d' => if keqb k k' then Some v else dict_get keqb d' k
  end."""
HELPERS["dict_mem"] = """\
(* k in d *)
Definition dict_mem {K V : Type} (keqb : K -> K -> bool) (d : list (K * V)) (k : K) : bool :=
  match dict_get keqb d k with Some _ => true | None => false end."""
HELPERS["adict_get"] = """\
(* d[k] on a dictionary kept as the list of its items in insertion order: the value of the (first) item whose key is k;
   None = KeyError *)
Fixpoint adict_get {K V : Type} (keqb : K -> K -> bool) (d : list (K * V)) (k : K) {struct d} : option V :=
  match d with
  | nil => None
  | cons (k', v) d' => if keqb k k' then Some v else adict_get keqb d' k
  end."""
HELPERS["adict_set"] = """\
(* d[k] = v on a dictionary kept as the list of its items in insertion order: the value of k is replaced where k stands;
   a new key goes to the end *)
Fixpoint adict_set {K V : Type} (keqb : K -> K -> bool) (d : list (K * V)) (k : K) (v : V) {struct d} : list (K * V) :=
  match d with
  | nil => cons (k, v) nil
  | cons (k', v') d' => if keqb k k' then cons (k', v) d' else cons (k', v') (adict_set keqb d' k v)
  end."""
HELPERS["zip_levels"] = """\
(* the levels of two subtrees side by side: the nodes of each depth, those of the first subtree first *)
Fixpoint zip_levels {X : Type} (a b : list (list X)) {struct a} : list (list X) :=
  match a, b with
  | nil, _ => b
  | _, nil => a
  | cons x a', cons y b' => cons (x ++ y) (zip_levels a' b')
  end."""
HELPERS["adict_mem"] = """\
(* k in d *)
Definition adict_mem {K V : Type} (keqb : K -> K -> bool) (d : list (K * V)) (k : K) : bool :=
  match adict_get keqb d k with Some _ => true | None => false end."""
HELPERS["enum_dict9"] = """\
(* {k: i for i, k in enumerate(xs)} continued from position i on the dictionary d: one store per item, in order (a key that
   occurs again keeps its place and takes the later position) *)
Fixpoint enum_dict9 {K : Type} (keqb : K -> K -> bool) (d : list (K * N)) (i : N) (xs : list K) {struct xs} : list (K * N) :=
  match xs with
  | nil => d
  | cons x xs' => enum_dict9 keqb (adict_set keqb d x i) (N.succ i) xs'
  end."""
HELPERS["list_gets9"] = """\
(* [xs[i] for i in is]: None = IndexError (at the first position out of range) *)
Fixpoint list_gets9 {X : Type} (xs : list X) (is : list N) {struct is} : option (list X) :=
  match is with
  | nil => Some nil
  | cons i is' =>
    match nth_error xs (N.to_nat i) with
    | None => None
    | Some v => match list_gets9 xs is' with None => None | Some vs => Some (cons v vs) end
    end
  end."""
HELPERS["list_gets_all9"] = """\
(* [[xs[i] for i in g] for g in gs] *)
Fixpoint list_gets_all9 {X : Type} (xs : list X) (gs : list (list N)) {struct gs} : option (list (list X)) :=
  match gs with
  | nil => Some nil
  | cons g gs' =>
    match list_gets9 xs g with
    | None => None
    | Some l => match list_gets_all9 xs gs' with None => None | Some ls => Some (cons l ls) end
    end
  end."""
HELPER_DEPS = {"list_gets_all9": ["list_gets9"], "enum_dict9": ["adict_set"], "adict_mem": ["adict_get"], "nset": ["list_set"], "zget": ["zpos"], "zset": ["zpos", "list_set"], "dict_mem": ["dict_get"]}
SET_DEFS2 = """\
(* set(xs): the elements of xs, each once, in order of first occurrence; a <= b: every element of a is in b *)
Definition set_of_list (l : list A) : list A := fold_left (fun s x => set_add x s) l nil.
Definition set_subset (a b : list A) : bool := forallb (fun x => set_mem x b) a.
"""
SEQ_DEFS = {
    "seq_remove": """\
(* q.remove(x) on a deque / s.remove(x) on a set: without the first item equal to x; None when there is none *)
Fixpoint seq_remove (x : A) (s : list A) {struct s} : option (list A) :=
  match s with
  | nil => None
  | cons y s' => if eqb x y then Some s' else match seq_remove x s' with Some r => Some (cons y r) | None => None end
  end.
""",
    "set_discard": """\
(* s.discard(x) *)
Definition set_discard (x : A) (s : list A) : list A := filter (fun y => negb (eqb x y)) s.
""",
}
PY_MIN = "Definition py_min (a b : A) : A := if ltb b a then b else a."
SET_DEFS = """\
(* a Python set of elements: a duplicate-free list in insertion order; s.add(x) appends x unless present *)
Fixpoint set_mem (x : A) (s : list A) {struct s} : bool :=
  match s with nil => false | cons y s' => orb (eqb x y) (set_mem x s') end.
Definition set_add (x : A) (s : list A) : list A := if set_mem x s then s else s ++ cons x nil.
"""

BASE_TYPES = {"N": "N", "Z": "Z", "bool": "bool", "elem": "A"}
COQ_TYPE = {"N": "N", "Z": "Z", "bool": "bool", "elem": "A", "list": "list A"}
RESERVED = set("""A N Z S O nat bool list unit tt true false nil cons app length nth_error negb andb orb eqb
    Next Ret Fail Ok Err IndexError OutOfFuel res flow err Some None fun let in match with end if then else fix cofix
    forall exists Type Prop Set struct as at return using where mod IF _
    ltb option map seq repeat filter fst snd pair prod list_set nset zpos zget zset is_empty py_min self
    AssertionError TypeError NegativePower left right inl inr conj exist existT eq_refl Lt Eq Gt I
    set_mem set_add""".split())
BINOPS = {ast.Add: "add", ast.Sub: "sub", ast.BitAnd: "land", ast.BitOr: "lor",
          ast.LShift: "shiftl", ast.RShift: "shiftr"}
CMPOPS = {ast.Eq: ("eqb", False, False), ast.NotEq: ("eqb", False, True), ast.Lt: ("ltb", False, False),
          ast.LtE: ("leb", False, False), ast.Gt: ("ltb", True, False), ast.GtE: ("leb", True, False)}  # (fn, swap, negate)
IMMUTABLE = ("N", "Z", "bool", "elem", "option N", "option Z", "option bool", "option elem")
RAISABLE = ("IndexError", "AssertionError", "TypeError", "ValueError", "KeyError")   # `raise <one of these>(..)`
FORBIDDEN_METHODS = ("__getattr__", "__getattribute__", "__setattr__", "__delattr__", "__slots__")


# -------------------------------------------------------------------- types
def norm_type(t: str, extra=()) -> str:
    """Canonical spelling of a declared type; raises ValueError when it is not one.
    `extra`: further base type names (declared by the translation unit)."""
    if "->" in t:                            # type of a parameter that is a (pure, total) function
        return " -> ".join(norm_type(p, extra) for p in t.split("->"))
    toks = t.replace("(", " ( ").replace(")", " ) ").split()

    def parse(i):
        if i >= len(toks):
            raise ValueError(t)
        if toks[i] == "(":
            r, i = parse(i + 1)
            if i >= len(toks) or toks[i] != ")":
                raise ValueError(t)
            return r, i + 1
        if (toks[i] in BASE_TYPES or toks[i] in extra) and toks[i] != "tuple":
            return toks[i], i + 1
        if toks[i] == "pair":                 # pair T1 T2: a Python 2-tuple (immutable)
            a, j = parse(i + 1)
            b, j = parse(j)
            return "pair " + " ".join(x if " " not in x else "(" + x + ")" for x in (a, b)), j
        if toks[i] in ("list", "option") or (toks[i] == "tuple" and "tuple" in extra):
            if i + 1 >= len(toks) or toks[i + 1] == ")":
                if toks[i] == "list":
                    return "list", i + 1
                raise ValueError(t)
            arg, j = parse(i + 1)
            if toks[i] == "list" and arg == "elem":
                return "list", j
            return f"{toks[i]} {arg if ' ' not in arg else '(' + arg + ')'}", j
        raise ValueError(t)

    r, i = parse(0)
    if i != len(toks):
        raise ValueError(t)
    return r


def is_list(t: str) -> bool:
    return t == "list" or t.startswith("list ")


def is_option(t: str) -> bool:
    return t.startswith("option ")


def is_tuple(t: str) -> bool:
    """`tuple T`: a Python tuple used as an immutable sequence of values of type T (sixth extension)."""
    return t.startswith("tuple ")


def arg_of(t: str) -> str:
    """Element type of a list type / underlying type of an option type."""
    if t == "list":
        return "elem"
    a = t.split(" ", 1)[1]
    return a[1:-1] if a.startswith("(") else a


def is_pair(t: str) -> bool:
    return t.startswith("pair ")


def pair_args(t: str):
    """The two component types of `pair T1 T2`."""
    out, depth, cur = [], 0, ""
    for w in t[5:].replace("(", " ( ").replace(")", " ) ").split():
        depth += (w == "(") - (w == ")")
        cur = (cur + " " + w).strip()
        if depth == 0:
            out.append(cur)
            cur = ""
    out = [norm_paren(x) for x in out]
    if len(out) != 2:
        raise ValueError(t)
    return out


def norm_paren(x: str) -> str:
    x = x.replace("( ", "(").replace(" )", ")")
    return x[1:-1] if x.startswith("(") and x.endswith(")") else x


def coq_type(t: str, base=None) -> str:
    if base and t in base:
        return base[t]
    if is_pair(t):
        a, b = (coq_type(x, base) for x in pair_args(t))
        return "(" + " * ".join(x if " " not in x or x.startswith("(") else "(" + x + ")" for x in (a, b)) + ")"
    if "->" in t:
        return " -> ".join(coq_type(p.strip(), base) for p in t.split("->"))
    if t in COQ_TYPE:
        return COQ_TYPE[t]
    a = coq_type(arg_of(t), base)
    head = "list" if is_tuple(t) else t.split(' ', 1)[0]
    return f"{head} {a if ' ' not in a or is_pair(arg_of(t)) else '(' + a + ')'}"


def inst_type(t: str, sfx: str, parametric) -> str:
    """The declared type `t` of a class member, seen from the instance `sfx` of the class
    (the names of `parametric` -- the element type and everything built on it -- get the suffix)."""
    if not sfx:
        return t
    if t == "list":
        return "list elem" + sfx
    if is_list(t) or is_option(t) or is_tuple(t):
        a = inst_type(arg_of(t), sfx, parametric)
        return f"{t.split(' ', 1)[0]} {a if ' ' not in a else '(' + a + ')'}"
    return t + sfx if t in parametric else t


@dataclass
class FunSpec:
    name: str
    types: Dict[str, str]                 # every parameter, local and loop variable -> declared type
    ret: str                              # type of the returned value ("" : nothing is returned, __init__)
    fuel: Dict[int, str] = field(default_factory=dict)  # n-th loop of the function (from 1) -> Coq `nat` term
    alias: Optional[str] = None           # name of the generated definition (default: the Python name)
    rec_fuel: Optional[str] = None        # fuel (Coq `nat` term over the parameters) of a self-recursive method
    pure: bool = False                    # method that only reads its object (checked): callable on any object, anywhere
    rec_on: Optional[str] = None          # self-recursive method: the tree parameter the recursion descends on (structural)
    owner: Optional[str] = None           # class whose body holds the definition (an inherited method; default: the class itself)
    mutates: tuple = ()                   # function parameters (dictionaries) the function updates in place: returned with the result
    fresh: bool = False                   # (sixth extension) the method returns a newly built object (checked): a local may be bound to it
    generator: bool = False               # (sixth extension) a generator (its body yields): translated as the list of what it yields


@dataclass
class DataSpec:
    name: str                             # Python frozen dataclass -> Record `<name>`, constructor `mk_<name>`
    fields: Dict[str, str]                # field -> declared type, in the order of the dataclass


@dataclass
class ClassSpec:
    name: str                             # Python class name
    short: str                            # Record `<short>_state`, constructor `mk_<short>`, projections `<short>_<field>`
    fields: Dict[str, str]                # attribute -> declared type, in the order of the Record
    methods: List[FunSpec] = field(default_factory=list)   # in translation order (callees first)
    frozen: bool = False                  # `@dataclass(frozen=True)` class with methods: fields are the annotated attributes
    base: Optional[str] = None            # frozen classes: the one base class (its fields come first, its methods are inherited)
    views: Dict[str, str] = field(default_factory=dict)    # (sixth extension) attribute -> translated class: the attribute refers to
                                          # an object that lives elsewhere (a view borrows it: see `Unit.use_tables`)


@dataclass
class _Ctx:
    ret: Callable[[str], str]             # what `return e` becomes
    fail: Callable[[str], str]            # what an error becomes
    fall: Optional[str]                   # what reaching the end of the block becomes
    brk: Optional[str] = None             # what `break` becomes
    retp: Optional[Callable[[str], str]] = None   # what an inner loop's `Ret r'` becomes (default: ret)
    cont: Optional[str] = None            # (seventh extension) what `continue` becomes
    loop_body: bool = False               # (seventh extension) the context a loop body starts in: `cont` follows `fall`

    def __setattr__(self, k, v):
        object.__setattr__(self, k, v)
        if k == "fall" and getattr(self, "loop_body", False):
            object.__setattr__(self, "cont", v)


def _ind(lines: List[str]) -> List[str]:
    return ["  " + l for l in lines]


def _names(nodes) -> set:
    return {n.id for s in nodes for n in ast.walk(s) if isinstance(n, ast.Name)}


def _is_self_call(n) -> bool:
    return isinstance(n, ast.Call) and isinstance(n.func, ast.Attribute) and isinstance(n.func.value, ast.Name) \
        and n.func.value.id == "self"


def _is_super_call(n) -> bool:
    """`super().m(..)`"""
    return isinstance(n, ast.Call) and isinstance(n.func, ast.Attribute) and isinstance(n.func.value, ast.Call) \
        and isinstance(n.func.value.func, ast.Name) and n.func.value.func.id == "super" and not n.func.value.args \
        and not n.func.value.keywords


def _mkey(m: "FunSpec") -> str:
    """Key of a translated method within its class: an inherited definition is `<name>@<owner>`."""
    return m.name if m.owner is None else f"{m.name}@{m.owner}"


def _base_name(n):
    while isinstance(n, ast.Subscript):
        n = n.value
    return n.id if isinstance(n, ast.Name) else None


class _Fun:
    def __init__(self, path: Path, fn: ast.FunctionDef, spec: FunSpec, prefix: str, unit: "Unit" = None,
                 cls: ClassSpec = None):
        self.path, self.fn, self.spec, self.prefix = path, fn, spec, prefix
        self.unit, self.cls = unit, cls
        self.fixpoints: List[str] = []
        self.nloop = self.nk = self.nt = 0
        self.fieldvars: List[str] = []
        self.callpos: set = set()
        self.in_rec = False
        self.subtrees: set = set()            # variables bound to strict subtrees of the recursion parameter
        self.viewvars: Dict[str, str] = {}    # (sixth extension) self'<attribute referring to an object> -> its class
        self.cursor_roots: Dict[str, str] = {}   # reference variable -> the variable holding the root it refers into
        self.uses_vars: set = set()           # the tracked section variables (other than eqb) the generated text depends on
        self.enum_defaults: Dict[str, str] = {}
        if cls is not None:
            self.spec = replace(spec, types=dict(spec.types))
            for f, t in cls.fields.items():
                if f in cls.views:
                    # an attribute that refers to an object living elsewhere: the attributes of that object are variables of
                    # their own (self.f.g is self'f'g), self.f itself is the record built from them
                    target = unit.classes[cls.views[f]]
                    self.viewvars["self'" + f] = target.name
                    self.spec.types["self'" + f] = target.name
                    for g, gt in target.fields.items():
                        self.spec.types[f"self'{f}'{g}"] = gt
                        self.fieldvars.append(f"self'{f}'{g}")
                    continue
                self.spec.types["self'" + f] = t
                self.fieldvars.append("self'" + f)
        self.uses_eqb = False                 # does the generated text depend on the section's `eqb`?
        self.R = self.ct(spec.ret) if spec.ret else None
        if unit is not None:
            self.rename_reserved()
            if unit.tables:
                self.split_for_targets()

    def ct(self, t: str) -> str:
        return coq_type(t, self.unit.coq_base() if self.unit is not None else None)

    def kind(self, t: str):
        """(kind, declared name, instance suffix) of a type declared by the unit, else (None, t, '')."""
        return self.unit.kind(t) if self.unit is not None else (None, t, "")

    def rename_reserved(self):
        """A Python variable whose name the generated text uses (`length`, `map`, ..) gets a `_` appended."""
        names = {n.id for n in ast.walk(self.fn) if isinstance(n, ast.Name)} | {a.arg for a in ast.walk(self.fn)
                                                                                 if isinstance(a, ast.arg)}
        ren = {n: n + "_" for n in names if n in RESERVED and n != "self" and n in self.spec.types}
        for old, new in ren.items():
            if new in names or new in self.spec.types or new in RESERVED:
                self.abort(self.fn, f"cannot rename the variable {old!r}: {new!r} is in use too")
        if not ren:
            return
        self.spec = replace(self.spec, types={ren.get(k, k): v for k, v in self.spec.types.items()})
        for n in ast.walk(self.fn):
            if isinstance(n, ast.Name) and n.id in ren:
                n.id = ren[n.id]
            elif isinstance(n, ast.arg) and n.arg in ren:
                n.arg = ren[n.arg]

    def split_for_targets(self):
        """`types["x@for"]`: the variable x bound by a `for` (a variable of its own, local to the loop: it is neither defined
        before the loop nor used after it -- checked when the loop is translated) is declared with that type, whatever the
        type of the other variable of the same name; inside those loops it is spelled `x_`."""
        ren = {k[:-4]: k[:-4] + "_" for k in self.spec.types if k.endswith("@for")}
        if not ren:
            return
        names = {n.id for n in ast.walk(self.fn) if isinstance(n, ast.Name)} | {a.arg for a in ast.walk(self.fn) if isinstance(a, ast.arg)}
        types = dict(self.spec.types)
        for old, new in ren.items():
            if new in names or new in types or new in RESERVED:
                self.abort(self.fn, f"cannot rename the loop variable {old!r}: {new!r} is in use too")
            types[new] = types.pop(old + "@for")
            for n in ast.walk(self.fn):
                if isinstance(n, ast.For) and isinstance(n.target, ast.Name) and n.target.id == old:
                    for x in ast.walk(n):
                        if isinstance(x, ast.Name) and x.id == old:
                            x.id = new
        self.spec = replace(self.spec, types=types)

    def abort(self, node, msg: str):
        raise TranslatorAbort(f"{self.path}:{getattr(node, 'lineno', 0)}: in {self.fn.name}: {msg}")

    def need(self, *names: str):
        if self.unit is None:
            self.abort(self.fn, f"construct needing {names[0]!r} outside a translation unit")
        for n in names:
            (self.unit.errors if n in EXTRA_ERRORS else self.unit.helpers).add(n)

    def tables(self) -> bool:
        return self.unit is not None and self.unit.tables

    def view_term(self, v: str) -> str:
        """The object the attribute variable `v` (self'f) refers to, as the record of its attributes (term and pattern)."""
        target = self.unit.classes[self.viewvars[v]]
        return f"({self.unit.q(target.name)}mk_{target.short} {' '.join(v + chr(39) + g for g in target.fields)})"

    def var_term(self, x: str) -> str:
        return self.view_term(x) if x in self.viewvars else x

    def ty(self, node, name: str) -> str:
        if name in self.fieldvars or name in self.viewvars:
            return self.spec.types[name]
        if name == "acc'" and self.spec.generator:
            return self.spec.ret
        if name in RESERVED or "'" in name or not name.isascii():
            self.abort(node, f"the name {name!r} collides with a name used by the generated Coq text")
        if name not in self.spec.types:
            self.abort(node, f"no declared type for variable {name!r}")
        if self.unit is not None and name in self.unit.taken:
            self.abort(node, f"the name {name!r} collides with a name declared by the translation unit")
        return self.spec.types[name]

    def vtype(self, node, name: str, env) -> str:
        t = self.ty(node, name)
        return arg_of(t) if name + "!" in env else t

    def binder(self, node, name: str) -> str:
        return f"({name} : {self.ct(self.ty(node, name))})"

    def assigned(self, stmts) -> set:
        out = set()
        for s in stmts:
            for n in ast.walk(s):
                if isinstance(n, ast.Name) and isinstance(n.ctx, ast.Store):
                    out.add(n.id)
                elif isinstance(n, ast.Subscript) and isinstance(n.ctx, ast.Store) and _base_name(n):
                    out.add(_base_name(n))
                elif isinstance(n, ast.Call) and isinstance(n.func, ast.Attribute) and n.func.attr == "append" \
                        and _base_name(n.func.value):
                    out.add(_base_name(n.func.value))
                elif self.unit is not None and isinstance(n, ast.Call) and isinstance(n.func, ast.Attribute) \
                        and isinstance(n.func.value, ast.Name) and n.func.value.id != "self" \
                        and n.func.value.id in self.spec.types \
                        and (self.spec.types[n.func.value.id] == "set" and n.func.attr == "add"
                             or self.kind(self.spec.types[n.func.value.id])[0] == "class"
                             and not any(m.name == n.func.attr and m.pure for m in self.unit.done_methods.get(
                                 self.kind(self.spec.types[n.func.value.id])[1], []))
                             and not (self.unit.tables and n.func.attr in self.unit.classes[
                                 self.kind(self.spec.types[n.func.value.id])[1]].fields)
                             and not (self.unit.seventh and (self.spec.types[n.func.value.id], n.func.attr)
                                      in self.unit.noop_methods | self.unit.singleton_methods)):
                    out.add(n.func.value.id)     # s.add(e) on a set / a method call on an object
                elif self.unit is not None and self.unit.ninth and isinstance(n, ast.Call) and isinstance(n.func, ast.Attribute) \
                        and isinstance(n.func.value, ast.Name) and n.func.attr == "add_child" \
                        and self.spec.types.get(n.func.value.id) in self.unit.buildtrees9:
                    out.add(n.func.value.id)     # (ninth extension) x.add_child(e) on a tree under construction
                elif self.unit is not None and self.unit.ninth and isinstance(n, ast.Call) and isinstance(n.func, ast.Name) \
                        and n.func.id == "len" and len(n.args) == 1 and isinstance(n.args[0], ast.Name) \
                        and self.kind(self.spec.types.get(n.args[0].id, ""))[0] == "class":
                    out.add(n.args[0].id)        # (ninth extension) len(x): the method __len__ of the object
                elif self.containers() and isinstance(n, ast.Call) and isinstance(n.func, ast.Attribute) \
                        and isinstance(n.func.value, ast.Name) and n.func.value.id in self.spec.types \
                        and n.func.attr in ("remove", "discard", "popleft", "reverse"):
                    out.add(n.func.value.id)     # an in-place update of a deque / set / list
                elif self.containers() and isinstance(n, ast.Call) and isinstance(n.func, ast.Name) \
                        and n.func.id not in self.spec.types and self.mutated_params(n.func.id):
                    # f(.., d, ..), f a function that updates its parameter in that position
                    ps = self.unit.params.get(n.func.id) or self.params
                    for a, q in zip(n.args, ps):
                        if q in self.mutated_params(n.func.id) and isinstance(a, ast.Name):
                            out.add(a.id)
                elif _is_self_call(n) and not (self.cls is not None and self.cls.frozen) and not self.pure_self_call(n):
                    out.update(self.fieldvars)
                if self.unit is not None and self.unit.seventh and isinstance(n, ast.Call) and isinstance(n.func, ast.Attribute) \
                        and isinstance(n.func.value, ast.Attribute) and isinstance(n.func.value.value, ast.Subscript) \
                        and isinstance(n.func.value.value.value, ast.Name) \
                        and is_tuple(self.spec.types.get(n.func.value.value.value.id, "")) \
                        and arg_of(self.spec.types[n.func.value.value.value.id]) in self.unit.datas:
                    out.add(n.func.value.value.value.id)       # xs[i].f.m(..): the item of xs is replaced
                if self.unit is not None and self.unit.eighth and isinstance(n, ast.Call) and isinstance(n.func, ast.Attribute):
                    v8 = n.func.value
                    if n.func.attr == "add" and isinstance(v8, ast.Subscript) and isinstance(v8.value, ast.Name):
                        dt8 = self.spec.types.get(v8.value.id, "")
                        if dt8 in self.unit.ddicts8 or (dt8 in self.unit.nodedicts and self.unit.nodedicts[dt8][1] in self.unit.sets8):
                            out.add(v8.value.id)               # d[k].add(e): the set stored for k is replaced
                    if isinstance(v8, ast.Attribute) and isinstance(v8.value, ast.Subscript) \
                            and isinstance(v8.value.value, ast.Subscript) and isinstance(v8.value.value.value, ast.Name) \
                            and is_tuple(self.spec.types.get(v8.value.value.value.id, "")) \
                            and arg_of(self.spec.types[v8.value.value.value.id]) in self.unit.kinddicts8:
                        out.add(v8.value.value.value.id)       # xs[i][k].f.m(..): the item of xs is replaced
                if self.tables():
                    if isinstance(n, (ast.Yield, ast.YieldFrom)):
                        out.add("acc'")
                    uc = self.updating_call(n)
                    if uc is not None:                         # f(.., x, ..), f updating the object its parameter holds
                        for a, q in zip(n.args, uc[1]):
                            if q in uc[2] and isinstance(a, ast.Name):
                                out.add(a.id)
                    if isinstance(n, ast.Subscript) and _base_name(n) is not None:
                        b = _base_name(n)
                        if self.spec.types.get(b) == "cursor" and b in self.cursor_roots:
                            out.add(self.cursor_roots[b])      # reading r[k] may give the defaultdict the key
                        elif b in self.spec.types and self.kind(arg_of(self.spec.types[b]) if is_option(self.spec.types[b])
                                                                 else self.spec.types[b])[0] in ("class", "union"):
                            out.add(b)                         # x[k]..: the chain may update the object x
                    if isinstance(n, ast.Call) and isinstance(n.func, ast.Name) and self.view_class(n.func.id) and n.args \
                            and isinstance(n.args[0], ast.Name):
                        a = n.args[0].id                       # V(obj, ..): what is done through the view is done to obj
                        if a == "self":
                            out.update(self.fieldvars)
                        elif a in self.viewvars:
                            out.update(v for v in self.fieldvars if v.startswith(a + "'"))
                        else:
                            out.add(a)
        return out

    def containers(self) -> bool:
        return self.unit is not None and self.unit.containers

    def mutated_params(self, fname: str) -> tuple:
        """The parameters the translated function `fname` (or the function being translated) updates in place."""
        if self.unit is None:
            return ()
        if fname in self.unit.mutates:
            return self.unit.mutates[fname]
        return tuple(self.spec.mutates) if self.cls is None and fname == self.fn.name else ()

    def used(self, nodes) -> set:
        out = _names(nodes)
        if any(_is_self_call(n) or _is_super_call(n) for s in nodes for n in ast.walk(s)):
            out.update(self.fieldvars)
        return out

    # state of the object, as a term and as a pattern (the same text)
    def state(self, node) -> str:
        if self.cls.views:
            parts = [self.view_term("self'" + f) if f in self.cls.views else "self'" + f for f in self.cls.fields]
            return f"({self.unit.q(self.cls.name)}mk_{self.cls.short} {' '.join(parts)})"
        if self.unit is not None and self.cls.name in self.unit.quals:
            return f"({self.unit.q(self.cls.name)}mk_{self.cls.short} {' '.join(self.fieldvars)})"
        return f"(mk_{self.cls.short} {' '.join(self.fieldvars)})"

    # ---------------------------------------------------------------- expressions
    def join(self, node, a: str, b: str) -> str:
        if a not in ("N", "Z", "lit") or b not in ("N", "Z", "lit"):
            self.abort(node, f"integer operator applied to operands of type {a} and {b}")
        return "Z" if "Z" in (a, b) else "N" if "N" in (a, b) else "lit"

    def comp_kind(self, e):
        """Classify a list comprehension: ('repeat', elt, count) | ('filter', var, seq, cond) | None."""
        if not isinstance(e, ast.ListComp) or len(e.generators) != 1:
            return None
        g = e.generators[0]
        if g.is_async or not isinstance(g.target, ast.Name):
            return None
        it = g.iter
        if not g.ifs and isinstance(it, ast.Call) and isinstance(it.func, ast.Name) and it.func.id == "range" \
                and len(it.args) == 1 and not it.keywords and g.target.id not in _names([e.elt]):
            return ("repeat", e.elt, it.args[0])
        if len(g.ifs) == 1 and isinstance(it, ast.Name) and isinstance(e.elt, ast.Name) and e.elt.id == g.target.id:
            return ("filter", g.target.id, it, g.ifs[0])
        return None

    def is_fresh(self, e) -> bool:
        """Does `e` build a new list object (so that assigning it creates no alias)?"""
        if isinstance(e, ast.List) and (not e.elts or self.unit is not None):
            return True
        if self.tables() and self.product_call(e):
            return True
        if self.unit is not None and self.unit.ninth and self.fresh9(e):
            return True
        if self.fresh_call(e):
            return True
        if self.unit is not None and self.unit.seventh and isinstance(e, ast.Call) and isinstance(e.func, ast.Name) \
                and e.func.id in self.unit.externals_res and e.func.id not in self.spec.types \
                and e.func.id not in self.unit.functions and self.unit.externals_res[e.func.id][3]:
            return True                            # (seventh extension) declared by the driver: see `Unit.external_res`
        if isinstance(e, ast.BinOp) and isinstance(e.op, ast.Mult) and isinstance(e.left, ast.List) and len(e.left.elts) == 1:
            return True
        if isinstance(e, ast.Call) and isinstance(e.func, ast.Name) and e.func.id == "list" and len(e.args) == 1 \
                and not e.keywords:
            return True
        return self.comp_kind(e) is not None

    def fresh_call(self, e) -> bool:
        """`f(..)`, f a function of the unit (or the function itself) that takes no list: the list it returns was built by
        the call (pyfun only ever binds a list variable to a freshly built list), so nothing else names it."""
        if self.unit is None or not (isinstance(e, ast.Call) and isinstance(e.func, ast.Name)) or e.func.id in self.spec.types:
            return False
        spec = self.unit.functions.get(e.func.id) or (self.spec if self.is_self_rec(e) or self.is_self_fuel(e) else None)
        if spec is None or not is_list(spec.ret):
            return False
        params = self.unit.params.get(e.func.id) or self.params
        return not any(is_list(spec.types[p]) for p in params)

    def is_self_rec(self, e) -> bool:
        """`f(..)` inside the module-level function `f` declared structurally recursive."""
        return self.cls is None and self.unit is not None and bool(self.spec.rec_on) and isinstance(e, ast.Call) \
            and isinstance(e.func, ast.Name) and e.func.id == self.fn.name and e.func.id not in self.spec.types

    def is_self_fuel(self, e) -> bool:
        """`f(..)` inside the module-level function `f` declared recursive on fuel."""
        return self.cls is None and self.containers() and bool(self.spec.rec_fuel) and isinstance(e, ast.Call) \
            and isinstance(e.func, ast.Name) and e.func.id == self.fn.name and e.func.id not in self.spec.types

    def edict_of(self, e, env):
        """The declared dictionary type when `e` is a variable holding a dictionary keyed by elements; else None."""
        if self.containers() and isinstance(e, ast.Name) and e.id in env and e.id in self.spec.types \
                and self.kind(self.spec.types[e.id])[0] == "elemdict":
            return self.spec.types[e.id]
        return None

    def ntype(self, e, env) -> str:
        """Natural type of an expression: a declared type, lit (int literal: adapts), none (the
        constant None: any option type) or newlist (a list display: any list type)."""
        if self.unit is not None and self.unit.ninth:
            r9 = self.ntype9(e, env)
            if r9 is not None:
                return r9
        if self.unit is not None and self.unit.eighth:
            r8 = self.ntype8(e, env)
            if r8 is not None:
                return r8
        if isinstance(e, ast.Constant):
            if isinstance(e.value, bool):
                return "bool"
            if isinstance(e.value, int):
                return "lit"
            if e.value is None:
                return "none"
        elif isinstance(e, ast.Name) and isinstance(e.ctx, ast.Load) and self.const_of(e) is not None:
            return self.const_of(e)[0]
        elif isinstance(e, ast.UnaryOp) and isinstance(e.op, ast.USub) and isinstance(e.operand, ast.Name) \
                and self.const_of(e.operand) is not None and self.const_of(e.operand)[2]:
            return self.const_of(e.operand)[0]
        elif isinstance(e, ast.IfExp) and self.unit is not None:
            a, b = self.ntype(e.body, env), self.ntype(e.orelse, env)
            if "lit" in (a, b) and (a in ("N", "Z") or b in ("N", "Z")) and self.unit.products:
                return b if a == "lit" else a        # an int literal beside an int
            if a != b or a in ("lit", "none", "newlist", "newset") or a.startswith("new "):
                self.abort(e, f"conditional expression with branches of type {a} and {b}")
            return a
        elif self.tables() and self.ntype6(e, env) is not None:
            return self.ntype6(e, env)
        elif isinstance(e, ast.Attribute) and self.unit is not None and isinstance(e.ctx, ast.Load):
            if self.enum_member(e):
                return e.value.id
            k, name, sfx = self.kind(self.ntype(e.value, env))
            if k == "data" and e.attr in self.unit.datas[name].fields:
                return inst_type(self.unit.datas[name].fields[e.attr], sfx, self.unit.parametric())
            if k == "class" and self.unit.classes[name].frozen and not sfx and e.attr in self.unit.classes[name].fields:
                return self.unit.classes[name].fields[e.attr]
            if self.opt_field(e, env) is not None:                         # seventh extension
                return self.opt_field(e, env)[1]
            self.abort(e, "attribute access other than <enum>.<member> or <dataclass value>.<declared field>")
        elif isinstance(e, ast.Set) and self.unit is not None and len(e.elts) == 1 \
                and not isinstance(e.elts[0], ast.Starred):
            return "newset"
        elif isinstance(e, ast.Dict) and self.unit is not None and self.unit.nodedicts and len(e.keys) == 1 \
                and e.keys[0] is not None:
            return "newdict"
        elif isinstance(e, ast.Dict) and self.unit is not None and self.unit.nodedicts and not e.keys and self.unit.ntrees:
            return "newdict"
        elif isinstance(e, ast.DictComp) and self.containers():
            return "newedict"
        elif isinstance(e, ast.Name) and isinstance(e.ctx, ast.Load):
            t = self.vtype(e, e.id, env)
            if e.id not in env:
                self.abort(e, f"variable {e.id!r} is not definitely assigned here (or is a loop variable read after its loop)")
            return t
        elif isinstance(e, ast.UnaryOp) and isinstance(e.op, ast.Not):
            return "bool"
        elif isinstance(e, ast.UnaryOp) and isinstance(e.op, ast.USub) and isinstance(e.operand, ast.Constant) \
                and type(e.operand.value) is int:
            return "Z"
        elif isinstance(e, ast.BinOp) and isinstance(e.op, ast.Add) and self.ext_sum(e, env) is not None:
            return self.ext_sum(e, env)
        elif isinstance(e, ast.BinOp) and type(e.op) in BINOPS:
            if isinstance(e.op, (ast.LShift, ast.RShift)):
                return self.join(e, self.ntype(e.left, env), "lit")
            t = self.join(e, self.ntype(e.left, env), self.ntype(e.right, env))
            return "Z" if isinstance(e.op, ast.Sub) else t
        elif isinstance(e, ast.BinOp) and isinstance(e.op, ast.Mult) and self.unit is not None and self.unit.products \
                and not self.is_fresh(e):
            return self.join(e, self.ntype(e.left, env), self.ntype(e.right, env))
        elif isinstance(e, ast.BinOp) and isinstance(e.op, ast.Pow):
            self.join(e, self.ntype(e.right, env), "lit")
            return "Z" if self.join(e, self.ntype(e.left, env), "lit") == "Z" else "N"
        elif isinstance(e, ast.BinOp) and isinstance(e.op, ast.Mult) and self.is_fresh(e):
            return "newlist"
        elif isinstance(e, (ast.Compare, ast.BoolOp)):
            return "bool"
        elif isinstance(e, ast.Call):
            return self.call_type(e, env)
        elif isinstance(e, ast.Tuple) and self.unit is not None and len(e.elts) == 2 and isinstance(e.ctx, ast.Load):
            parts = [self.ntype(x, env) for x in e.elts]
            if any(x in ("lit", "none", "newlist", "newset", "newdict") or x.startswith("new ") for x in parts):
                self.abort(e, "tuple display with a component whose type is not determined")
            return "pair " + " ".join(x if " " not in x else "(" + x + ")" for x in parts)
        elif isinstance(e, ast.Subscript) and self.unit is not None and is_pair(self.ntype(e.value, env)):
            return pair_args(self.ntype(e.value, env))[self.pair_index(e)]
        elif isinstance(e, ast.Subscript):
            bt = self.ntype(e.value, env)
            if self.kind(bt)[0] in ("mapping", "enumdict"):
                return self.lookup(e, bt, env)[0]
            if self.kind(bt)[0] == "nodedict":
                return self.unit.nodedicts[bt][1]
            if self.kind(bt)[0] == "elemdict" and isinstance(e.value, ast.Name) and not isinstance(e.slice, ast.Slice):
                return self.unit.elemdicts[bt]
            if not is_list(bt) and not (self.tables() and is_tuple(bt)):
                self.abort(e, f"indexing a value of type {bt}")
            return arg_of(bt)
        elif isinstance(e, ast.List) and not e.elts:
            return "list" if self.unit is None else "newlist"
        elif isinstance(e, ast.List) and self.unit is not None and not any(isinstance(x, ast.Starred) for x in e.elts):
            return "newlist"
        elif isinstance(e, ast.ListComp):
            k = self.comp_kind(e)
            if k and k[0] == "repeat":
                return "newlist"
            if k and k[0] == "filter":
                return self.ntype(k[2], env)
        self.abort(e, f"expression outside the handled subset: {ast.dump(e)[:80]}")

    def pair_index(self, e) -> int:
        """0 / 1 for the subscript `e` = `t[0]` / `t[1]` on a 2-tuple (any other index aborts)."""
        sl = e.slice
        if not (isinstance(sl, ast.Constant) and type(sl.value) is int and sl.value in (0, 1)) \
                or not isinstance(e.ctx, ast.Load):
            self.abort(e, "a 2-tuple is only read with the literal index 0 or 1")
        return sl.value

    def ext_sum(self, e, env):
        """The type of `a + b` when an operand is of an opaque number type the unit declared an addition for
        (the other operand: the same type, or an int, injected); None when neither operand is."""
        if self.unit is None or not self.unit.arith:
            return None
        lt, rt = self.ntype(e.left, env), self.ntype(e.right, env)
        for t in (lt, rt):
            if t in self.unit.arith:
                if any(o != t and o not in ("N", "Z", "lit") for o in (lt, rt)):
                    self.abort(e, f"addition of operands of type {lt} and {rt}")
                return t
        return None

    def lookup(self, e, bt: str, env):
        """(type, Coq function applied to the key's term, key expression or None) of the subscript `e` on a value
        of the declared mapping / enum-keyed dictionary type `bt`.  A mapping keyed by the nodes of a tree is a
        total function on node identifiers; a dictionary keyed by enum members is a record (the key must be a
        literal `<Enum>.<MEMBER>`).  A missing key (KeyError) is not modelled: the driver assumes totality."""
        k, name, _ = self.kind(bt)
        if isinstance(e.slice, ast.Slice) or not isinstance(e.ctx, ast.Load):
            self.abort(e, f"slice of / store into a value of type {bt}")
        if k == "mapping":
            tree, vt = self.unit.mappings[name]
            kt = self.ntype(e.slice, env)
            if kt != tree:
                self.abort(e, f"key of type {kt} in a mapping keyed by the nodes of a {tree}")
            return vt, None, e.slice
        key = e.slice
        if not (isinstance(key, ast.Attribute) and self.enum_member(key)
                and (key.value.id, key.attr) in self.unit.enumdicts[name]):
            self.abort(e, f"key of a {name} other than a declared literal <Enum>.<MEMBER>")
        return self.unit.enumdicts[name][(key.value.id, key.attr)], f"{self.unit.q(name)}{name}_{key.attr}", None

    def opaque_call(self, e, env):
        """(argument types, result type, Coq function, receiver expression) when `e` is `x.m(..)` or `x(..)` with x an
        expression of an opaque type for which the unit declared that method / the call; else None."""
        f = e.func
        if self.unit is None or not self.unit.opaque_methods:
            return None
        if self.unit.tables and isinstance(f, ast.Attribute) and isinstance(f.value, ast.Name) and f.value.id in env \
                and f.value.id in self.spec.types and f.value.id != "self" \
                and self.kind(self.spec.types[f.value.id])[0] == "class" \
                and f.attr in self.unit.classes[self.kind(self.spec.types[f.value.id])[1]].fields \
                and self.unit.classes[self.kind(self.spec.types[f.value.id])[1]].frozen:
            recv, meth = f, "__call__"           # x.f(..), f a field of the frozen object x: the call of the value of the field
        elif isinstance(f, ast.Attribute) and not _is_self_call(e) and not (isinstance(f.value, ast.Name)
                                                                           and f.value.id == "self"):
            if isinstance(f.value, ast.Name) and (f.value.id not in self.spec.types or f.value.id not in env):
                return None
            recv, meth = f.value, f.attr
        elif isinstance(f, ast.Name) and f.id in self.spec.types and f.id in env:
            recv, meth = f, "__call__"
        else:
            return None
        try:
            rt = self.ntype(recv, env)
        except TranslatorAbort:
            return None
        decl = self.unit.opaque_methods.get(rt, {}).get(meth)
        if decl is None:
            return None
        return decl[0], decl[1], decl[2], recv

    def foreign_call(self, e, env):
        """(argument types, result type, Coq function, lift, variable) when `e` is `x(..)`, x a variable (an attribute of
        self) holding an object of a class translated into another generated file; else None."""
        f = e.func
        if self.unit is None or not (isinstance(f, ast.Name) and f.id in env and f.id in self.spec.types):
            return None
        k, name, _ = self.kind(self.spec.types[f.id])
        if k != "foreign":
            return None
        decl = self.unit.foreigns[name]
        if decl["call"] is None:
            self.abort(e, f"call of an object of {name}, for which no call is declared")
        return decl["call"][0], decl["call"][1], decl["call"][2], decl["lift"], f.id

    def tree_test(self, e, env):
        """The receiver when `e` is `x.is_leaf()` on a variable of a declared tree type; else None."""
        f = e.func
        if self.unit is not None and isinstance(f, ast.Attribute) and f.attr == "is_leaf" and not e.args \
                and isinstance(f.value, ast.Name) and f.value.id in env \
                and self.kind(self.spec.types.get(f.value.id, ""))[0] in ("tree", "ntree"):
            return f.value
        return None

    def frozen_alias(self, s, x: str, env) -> bool:
        """`x = m[node]`, m of a declared (read-only) mapping type, x a local variable the function binds exactly once and
        never updates: x names a list that nothing in the translated code can modify, so the alias is harmless."""
        v = s.value
        if self.unit is None or not (isinstance(v, ast.Subscript) and self.kind(self.ntype(v.value, env))[0] == "mapping"):
            return False
        if x in self.params or x in self.fieldvars:
            return False
        stores = [n for n in ast.walk(self.fn) if isinstance(n, ast.Name) and n.id == x and not isinstance(n.ctx, ast.Load)]
        return len(stores) == 1 and not any(
            isinstance(n, ast.Subscript) and not isinstance(n.ctx, ast.Load) and _base_name(n) == x
            or isinstance(n, ast.Call) and isinstance(n.func, ast.Attribute) and _base_name(n.func.value) == x
            for n in ast.walk(self.fn))

    def const_of(self, e):
        """(type, term, negated term or None) when the name `e` is a constant declared by the unit."""
        if self.unit is None or e.id in self.spec.types or e.id not in self.unit.constants:
            return None
        return self.unit.constants[e.id]

    def enum_member(self, e) -> bool:
        return isinstance(e.value, ast.Name) and e.value.id in self.unit.enums and e.value.id not in self.spec.types \
            and e.attr in self.unit.enums[e.value.id]

    def obj_call(self, e, env):
        """(receiver name, class spec, instance suffix, method spec) when `e` is `x.m(..)`, x a variable
        holding an object of a translated class and m one of its translated methods; else None."""
        f = e.func
        if self.unit is None or not (isinstance(f, ast.Attribute) and isinstance(f.value, ast.Name)) \
                or f.value.id == "self" or f.value.id not in self.spec.types:
            return None
        k, name, sfx = self.kind(self.spec.types[f.value.id] if f.value.id + "!" not in env
                                 else arg_of(self.spec.types[f.value.id]))
        if k != "class":
            return None
        cls = self.unit.classes[name]
        done = self.unit.done_methods.get(name, [])
        m = next((m for m in done if m.name == f.attr), None)
        if m is None:
            self.abort(e, f"call of {f.attr!r}, which is not a method of {name} translated before this one")
        return f.value.id, cls, sfx, m

    def narrowing(self, test, env):
        """(x, rest of the test or None) when `test` is `x` or `x and ..`, x a variable holding an optional
        element (not narrowed yet) and the unit declares elements truthy; else None."""
        if self.unit is not None and self.unit.ninth and self.none_test9(test, env) == "isnot":
            return test.left.id, None            # (ninth extension) `if x is not None:` on an optional variable
        if self.unit is None or not self.unit.truthy_elem:
            return None
        first, cond = test, None
        if isinstance(test, ast.BoolOp) and isinstance(test.op, ast.And):
            first, others = test.values[0], test.values[1:]
            cond = others[0] if len(others) == 1 else ast.copy_location(ast.BoolOp(op=ast.And(), values=others), test)
        if isinstance(first, ast.Name) and first.id in env and first.id + "!" not in env and first.id in self.spec.types:
            t = self.spec.types[first.id]
            if is_option(t) and self.kind(arg_of(t))[0] == "elem":
                return first.id, cond
        return None

    def static_bool(self, e, env) -> Optional[bool]:
        """Value of a test that the declared types alone decide (None: they do not)."""
        if self.unit is None:
            return None
        if isinstance(e, ast.Compare) and len(e.ops) == 1 and isinstance(e.ops[0], (ast.Is, ast.IsNot)) \
                and isinstance(e.left, ast.Name) and isinstance(e.comparators[0], ast.Constant) \
                and e.comparators[0].value is None and self.spec.types.get(e.left.id) == "none":
            return isinstance(e.ops[0], ast.Is)
        if isinstance(e, ast.Call) and isinstance(e.func, ast.Name) and e.func.id == "isinstance" and len(e.args) == 2 \
                and not e.keywords and "isinstance" not in self.spec.types \
                and isinstance(e.args[0], ast.Name) and isinstance(e.args[1], ast.Name) \
                and e.args[1].id in self.unit.enums and e.args[1].id not in self.spec.types \
                and e.args[0].id in env and self.spec.types.get(e.args[0].id) == e.args[1].id:
            return True
        if self.tables() and isinstance(e, ast.Call) and isinstance(e.func, ast.Name) and e.func.id == "isinstance" \
                and len(e.args) == 2 and not e.keywords and "isinstance" not in self.spec.types and not self.unit.rebinds("isinstance") \
                and isinstance(e.args[0], ast.Name) and isinstance(e.args[1], ast.Name) and e.args[0].id in env \
                and self.spec.types.get(e.args[0].id) in self.unit.markers and e.args[1].id not in self.spec.types:
            # isinstance(x, C), x declared of a class without attributes: true when C is that class or one of its bases,
            # false when C is another class of the module
            d, c = self.spec.types[e.args[0].id], e.args[1].id
            if c == d or c in self.unit.markers[d]:
                return True
            self.unit._unique(self.unit.tree.body, c, ast.ClassDef)
            return False
        if self.unit.seventh and self.tables() and isinstance(e, ast.Call) and isinstance(e.func, ast.Name) \
                and e.func.id == "isinstance" and len(e.args) == 2 and not e.keywords and "isinstance" not in self.spec.types \
                and not self.unit.rebinds("isinstance") and self.is_cursor(e.args[0], env) and isinstance(e.args[1], ast.Name) \
                and e.args[1].id == "list" and "list" not in self.spec.types and not self.unit.rebinds("list"):
            # isinstance(c, list), c a reference into the nested table: a cell is None, an entry or a dictionary, never a list
            # (the declaration that every dimension of the table is a DictDimension)
            return False
        if isinstance(e, ast.BoolOp) and isinstance(e.op, ast.And):
            vals = [self.static_bool(v, env) for v in e.values]
            if all(v is True for v in vals):
                return True
            if all(v is not None for v in vals):
                return False
        return None

    def call_type(self, e, env) -> str:
        f = e.func
        if e.keywords:
            self.abort(e, "call with keyword arguments")
        if self.tables() and self.call_type6(e, env) is not None:
            return self.call_type6(e, env)
        if self.unit is not None and isinstance(f, ast.Name) and f.id not in self.spec.types:
            if f.id == "set" and not e.args:
                return "newset"
            if f.id in ("set", "deque") and len(e.args) == 1 and self.containers() and isinstance(e.args[0], ast.Name) \
                    and e.args[0].id in env \
                    and self.kind(self.ntype(e.args[0], env))[0] in (("elemdict", "set") if f.id == "set" else ("elemdict",)):
                return "new" + f.id       # the keys of a dictionary / a copy of a set
            if self.is_self_fuel(e):
                return self.spec.ret
            if f.id == "set" and len(e.args) == 1 and self.unit.set_ops and is_list(self.ntype(e.args[0], env)) \
                    and arg_of(self.ntype(e.args[0], env)) == "elem":
                return "newset"
            if f.id == "min" and len(e.args) == 2 and self.unit.products \
                    and all(self.ntype(a, env) in ("N", "Z", "lit") for a in e.args):
                return self.join(e, self.ntype(e.args[0], env), self.ntype(e.args[1], env))
            if f.id == "max" and len(e.args) == 2 and self.unit.products and self.unit.ntrees \
                    and all(self.ntype(a, env) in ("N", "Z", "lit") for a in e.args):
                return self.join(e, self.ntype(e.args[0], env), self.ntype(e.args[1], env))
            if f.id in self.unit.foreigns:
                return "new " + f.id
            if self.is_self_rec(e):
                return self.spec.ret
            if f.id in self.unit.externals_res and f.id not in self.unit.functions:      # seventh extension
                return self.unit.externals_res[f.id][1]
            if f.id in self.unit.externals and f.id not in self.unit.functions:
                return self.unit.externals[f.id][1]
            if f.id in self.unit.datas or f.id in self.unit.classes:
                return "new " + f.id
        if self.unit is not None and isinstance(f, ast.Name) and "->" in self.spec.types.get(f.id, ""):
            return self.spec.types[f.id].split("->")[-1].strip()
        if self.foreign_call(e, env) is not None:
            return self.foreign_call(e, env)[1]
        if self.tree_test(e, env) is not None:
            return "bool"
        if self.opaque_call(e, env) is not None:
            return self.opaque_call(e, env)[1]
        oc = self.obj_call(e, env)
        if oc is not None:
            if not oc[3].ret:
                self.abort(e, "call of a method that returns nothing, used as a value")
            return self.mret(oc[1].name, oc[3], oc[2])
        if isinstance(f, ast.Name) and f.id == "len" or isinstance(f, ast.Attribute) and f.attr == "bit_length":
            return "N"
        if isinstance(f, ast.Name) and f.id == "min" and len(e.args) == 2:
            return "elem"
        if isinstance(f, ast.Name) and f.id == "list" and len(e.args) == 1:
            a = e.args[0]
            if isinstance(a, ast.Call) and isinstance(a.func, ast.Name) and a.func.id == "range":
                return "list N"
            return self.ntype(a, env)
        if isinstance(f, ast.Name) and self.unit is not None and f.id in self.unit.functions:
            return self.unit.functions[f.id].ret
        if (_is_self_call(e) or _is_super_call(e)) and self.cls is not None:
            m = self.resolve(e)
            if m is not None and m.ret:
                return m.ret
        return "N"          # rejected by raw()

    def expr(self, e, want: str, env, hoist) -> str:
        """Coq term of type `want` for `e`; index expressions are appended to `hoist`."""
        if isinstance(e, ast.Tuple) and self.unit is not None and is_pair(want) and len(e.elts) == 2 \
                and isinstance(e.ctx, ast.Load):
            wa, wb = pair_args(want)                     # components left to right
            return f"({self.expr(e.elts[0], wa, env, hoist)}, {self.expr(e.elts[1], wb, env, hoist)})"
        if self.tables():
            want = self.canon(want)
            if self.unit.ninth:
                r = self.expr9(e, want, env, hoist)
                if r is not None:
                    return r
            if self.unit.eighth:
                r = self.expr8(e, want, env, hoist)
                if r is not None:
                    return r
            if self.unit.seventh:
                r = self.expr7(e, want, env, hoist)
                if r is not None:
                    return r
            r = self.expr6(e, want, env, hoist)
            if r is not None:
                return r
        t = self.ntype(e, env)
        if self.tables():
            t = self.canon(t)
        if want == "bool" and t in ("N", "Z", "lit"):        # truthiness of an int
            t = "Z" if t == "lit" else t
            return f"(negb ({t}.eqb {self.raw(e, t, env, hoist)} 0%{t}))"
        if want == "bool" and is_list(t):                     # truthiness of a list
            self.need("is_empty")
            return f"(negb (is_empty {self.raw(e, t, env, hoist)}))"
        if want == "bool" and self.kind(t)[0] == "deque":    # truthiness of a deque
            self.need("is_empty")
            return f"(negb (is_empty {self.raw(e, t, env, hoist)}))"
        if t == "newdeque":
            if self.kind(want)[0] != "deque":
                self.abort(e, f"deque(..) where a value of type {want} is expected")
            return self.raw(e, want, env, hoist)
        if t == "newedict":
            # {k: v for k in d}, d a dictionary keyed by elements: the keys of d in order, each with the value v (which
            # cannot raise and may use k)
            if self.kind(want)[0] != "elemdict":
                self.abort(e, f"dictionary comprehension where a value of type {want} is expected")
            g = e.generators[0] if len(e.generators) == 1 else None
            if g is None or g.is_async or g.ifs or not isinstance(g.target, ast.Name) or self.edict_of(g.iter, env) is None \
                    or not (isinstance(e.key, ast.Name) and e.key.id == g.target.id):
                self.abort(e, "dictionary comprehension other than {k: e for k in <dictionary keyed by elements>}")
            var = g.target.id
            if self.ty(e, var) != "elem" or var in env:
                self.abort(e, f"comprehension variable {var!r} must be declared elem and used nowhere else")
            sub: list = []
            val = self.expr(e.value, self.unit.elemdicts[want], env + [var], sub)
            if sub:
                self.abort(e, "comprehension value that can raise")
            return f"(map (fun {self.binder(e, var)} => ({var}, {val})) (map fst {g.iter.id}))"
        if want == "bool" and self.kind(t)[0] == "set":      # truthiness of a set
            self.need("is_empty")
            return f"(negb (is_empty {self.raw(e, t, env, hoist)}))"
        if t == "newset":
            if self.kind(want)[0] != "set":
                self.abort(e, f"set display where a value of type {want} is expected")
            return self.raw(e, want, env, hoist)
        if t == "newdict":
            if self.kind(want)[0] != "nodedict":
                self.abort(e, f"dictionary display where a value of type {want} is expected")
            tree, vt, _ = self.unit.nodedicts[want]
            if not e.keys:
                return f"(@nil ({self.unit.ident_of(tree)} * {self.ct(vt)}))"
            if self.ntype(e.keys[0], env) != tree:
                self.abort(e, f"key of a {want} that is not a node of a {tree}")
            k = self.raw(e.keys[0], tree, env, hoist)                      # key first, then the value
            return f"(cons ({self.unit.q(tree)}{tree}_id {k}, {self.expr(e.values[0], vt, env, hoist)}) nil)"
        if t.startswith("new "):
            if self.kind(want)[:2] != (("data" if t[4:] in self.unit.datas else "foreign" if t[4:] in self.unit.foreigns
                                        else "class"), t[4:]):
                self.abort(e, f"construction of a {t[4:]} where a value of type {want} is expected")
            return self.raw(e, want, env, hoist)
        if t == "none":
            if not is_option(want):
                self.abort(e, f"None where a value of type {want} is expected")
            return "None"
        if t == "newlist":
            if not is_list(want):
                self.abort(e, f"list display where a value of type {want} is expected")
            return self.raw(e, want, env, hoist)
        if self.unit is not None and want in self.unit.arith and t in ("lit", "N", "Z"):
            return f"({self.unit.arith[want][1]} {self.expr(e, 'Z', env, hoist)})"     # an int among extended numbers
        if is_option(want) and not is_option(t):
            return f"(Some {self.expr(e, arg_of(want), env, hoist)})"
        if is_list(want) and is_list(t) and t != want and is_option(arg_of(want)) and arg_of(arg_of(want)) == arg_of(t):
            return f"(map Some {self.raw(e, t, env, hoist)})"
        if t == "lit":
            if want not in ("N", "Z"):
                self.abort(e, f"integer literal where a value of type {want} is expected")
            t = want
        if t == "N" and want == "Z":
            return f"(Z.of_N {self.raw(e, 'N', env, hoist)})"
        if t != want:
            self.abort(e, f"expression of type {t} where type {want} is expected")
        return self.raw(e, t, env, hoist)

    def raw(self, e, t: str, env, hoist) -> str:
        if self.tables():
            r = self.raw6(e, t, env, hoist)
            if r is not None:
                return r
        if isinstance(e, ast.Constant):
            if t == "bool":
                return "true" if e.value else "false"
            if e.value is None or e.value < 0 or t not in ("N", "Z"):
                self.abort(e, "literal outside the handled subset")
            return f"{e.value}%{t}"
        if isinstance(e, ast.Name):
            if e.id in self.viewvars:
                return self.view_term(e.id)
            return e.id if self.const_of(e) is None else self.const_of(e)[1]
        if isinstance(e, ast.UnaryOp) and isinstance(e.op, ast.USub) and isinstance(e.operand, ast.Name):
            return self.const_of(e.operand)[2]
        if isinstance(e, ast.IfExp):
            sub: list = []
            c = self.expr(e.test, "bool", env, sub)
            a, b = self.expr(e.body, t, env, sub), self.expr(e.orelse, t, env, sub)
            if sub:
                self.abort(e, "conditional expression with a part that can raise")
            return f"(if {c} then {a} else {b})"
        if isinstance(e, ast.Attribute):
            if self.enum_member(e):
                return f"{self.unit.q(e.value.id)}{e.value.id}_{e.attr}"
            if self.unit is not None and self.unit.seventh and self.opt_field(e, env) is not None:
                # (seventh extension) x.f.g, x.f an optional named tuple: Python evaluates x.f, then looks g up on it --
                # AttributeError when it is None (None has no attribute g), else the field
                name, _ = self.opt_field(e, env)
                self.need("AttributeError")
                self.nt += 1
                tmp = f"t'{self.nt}"
                vt = self.ntype(e.value, env)
                hoist.append(("unwrap", tmp, self.raw(e.value, vt, env, hoist), "AttributeError"))
                return f"({self.unit.q(name)}{name}_{e.attr} {tmp})"
            vt = self.ntype(e.value, env)
            k, name, _ = self.kind(vt)
            return f"({self.unit.q(name)}{self.unit.classes[name].short if k == 'class' else name}_{e.attr} {self.raw(e.value, vt, env, hoist)})"
        if isinstance(e, ast.Set):
            return f"(cons {self.expr(e.elts[0], 'elem' + self.kind(t)[2], env, hoist)} nil)"
        if isinstance(e, ast.UnaryOp) and isinstance(e.op, ast.USub):
            return f"(-{e.operand.value})%Z"
        if isinstance(e, ast.UnaryOp):
            return f"(negb {self.expr(e.operand, 'bool', env, hoist)})"
        if isinstance(e, ast.BinOp) and isinstance(e.op, ast.Pow):
            base = self.expr(e.left, t, env, hoist)
            et = self.ntype(e.right, env)
            if et in ("N", "lit"):
                ex = self.expr(e.right, "N", env, hoist)
                return f"({t}.pow {base} {ex if t == 'N' else '(Z.of_N ' + ex + ')'})"
            ex = self.expr(e.right, "Z", env, hoist)
            self.need("NegativePower")
            hoist.append(("guard", f"(Z.ltb {ex} 0%Z)", "NegativePower"))
            return f"({t}.pow {base} {'(Z.to_N ' + ex + ')' if t == 'N' else ex})"
        if isinstance(e, ast.BinOp) and isinstance(e.op, ast.Add) and self.unit is not None and t in self.unit.arith:
            return f"({self.unit.arith[t][0]} {self.expr(e.left, t, env, hoist)} {self.expr(e.right, t, env, hoist)})"
        if isinstance(e, ast.BinOp) and isinstance(e.op, ast.Mult) and t in ("N", "Z"):
            return f"({t}.mul {self.expr(e.left, t, env, hoist)} {self.expr(e.right, t, env, hoist)})"
        if isinstance(e, ast.BinOp) and isinstance(e.op, ast.Mult):
            et = arg_of(t)
            if et not in IMMUTABLE:
                self.abort(e, f"[e] * n with e of the mutable type {et} (the n cells would share one object)")
            elt = self.expr(e.left.elts[0], et, env, hoist)
            return f"(repeat {elt} {self.count(e.right, env, hoist)})"
        if isinstance(e, ast.BinOp):
            op = BINOPS[type(e.op)]
            if op == "sub" and t != "Z":
                self.abort(e, "subtraction is only translated in Z (an N result could be negative in Python)")
            if op in ("shiftl", "shiftr"):
                cnt = self.expr(e.right, "N", env, hoist)
                return f"({t}.{op} {self.expr(e.left, t, env, hoist)} {cnt if t == 'N' else '(Z.of_N ' + cnt + ')'})"
            return f"({t}.{op} {self.expr(e.left, t, env, hoist)} {self.expr(e.right, t, env, hoist)})"
        if isinstance(e, ast.Compare) and len(e.ops) == 1 and isinstance(e.ops[0], (ast.In, ast.NotIn)) \
                and self.unit is not None and isinstance(e.comparators[0], ast.Name) \
                and self.kind(self.ntype(e.comparators[0], env))[0] == "nodedict":
            # node in d / node not in d, d a dictionary keyed by nodes (kept as the list of its stores)
            d = e.comparators[0].id
            tree, _, eqf = self.unit.nodedicts[self.ntype(e.comparators[0], env)]
            if self.ntype(e.left, env) != tree:
                self.abort(e, f"membership test in {d} of something that is not a node of a {tree}")
            self.need("dict_mem")
            term = f"(dict_mem {eqf} {d} ({self.unit.q(tree)}{tree}_id {self.raw(e.left, tree, env, hoist)}))"
            return f"(negb {term})" if isinstance(e.ops[0], ast.NotIn) else term
        if isinstance(e, ast.Compare) and len(e.ops) == 1 and isinstance(e.ops[0], (ast.In, ast.NotIn)) \
                and self.unit is not None and self.unit.seventh and self.edict_of(e.comparators[0], env) is not None:
            # k in d / k not in d, d a dictionary keyed by elements
            if self.ntype(e.left, env) != "elem":
                self.abort(e, f"membership test in {e.comparators[0].id} of something that is not an element")
            self.need("adict_get", "adict_mem")
            self.uses_eqb = True
            term = f"(adict_mem eqb {e.comparators[0].id} {self.expr(e.left, 'elem', env, hoist)})"
            return f"(negb {term})" if isinstance(e.ops[0], ast.NotIn) else term
        if isinstance(e, ast.Compare) and len(e.ops) == 1 and isinstance(e.ops[0], (ast.In, ast.NotIn)) \
                and self.unit is not None and self.unit.seventh and isinstance(e.comparators[0], ast.Name) \
                and e.comparators[0].id in env and self.ntype(e.comparators[0], env) in self.unit.mapping_mem:
            # (seventh extension) node in d / node not in d, d of a declared mapping type (a function from node identifiers):
            # the Coq function the driver names (`Unit.mapping_mem`) applied to d and the identifier of the node
            mt = self.ntype(e.comparators[0], env)
            tree = self.unit.mappings[mt][0]
            if self.ntype(e.left, env) != tree:
                self.abort(e, f"membership test in a {mt} of something that is not a node of a {tree}")
            term = f"({self.unit.mapping_mem[mt]} {e.comparators[0].id} ({self.unit.q(tree)}{tree}_id {self.raw(e.left, tree, env, hoist)}))"
            return f"(negb {term})" if isinstance(e.ops[0], ast.NotIn) else term
        if isinstance(e, ast.Compare):
            if len(e.ops) != 1 or type(e.ops[0]) not in CMPOPS:
                self.abort(e, "only a single comparison == != < <= > >= is handled")
            fn, swap, neg = CMPOPS[type(e.ops[0])]
            lt, rt = self.ntype(e.left, env), self.ntype(e.comparators[0], env)
            if lt == rt and self.kind(lt)[0] == "ntree" and fn == "eqb":
                # == / != on two nodes: identity of the objects (ete3 nodes define no __eq__)
                a = f"({lt}_id {self.expr(e.left, lt, env, hoist)})"
                b = f"({lt}_id {self.expr(e.comparators[0], lt, env, hoist)})"
                f = self.unit.ntrees[lt][1]
            elif self.unit is not None and self.unit.seventh and lt == rt and self.kind(lt)[0] == "tree" and fn == "eqb" \
                    and lt in self.unit.tree_eqb:
                # (seventh extension) == / != on two nodes of a binary tree: identity of the objects (ete3 nodes define no
                # __eq__), i.e. equality of the identifiers, decided by the function the driver names (`Unit.tree_eqb`)
                a = f"({self.unit.q(lt)}{lt}_id {self.expr(e.left, lt, env, hoist)})"
                b = f"({self.unit.q(lt)}{lt}_id {self.expr(e.comparators[0], lt, env, hoist)})"
                f = self.unit.tree_eqb[lt]
            elif lt == rt == "elem" and fn == "eqb":
                a, b, f = self.expr(e.left, "elem", env, hoist), self.expr(e.comparators[0], "elem", env, hoist), "eqb"
                self.uses_eqb = True
            elif lt == rt and self.kind(lt)[0] == "opaque":
                f = self.unit.opaques[lt][1].get(fn)      # the comparison functions declared for the type
                if f is None:
                    self.abort(e, f"comparison {fn} on values of type {lt}")
                a, b = self.expr(e.left, lt, env, hoist), self.expr(e.comparators[0], lt, env, hoist)
            elif self.unit is not None and self.unit.set_ops and isinstance(e.ops[0], ast.LtE) \
                    and all(x == "newset" or self.kind(x)[0] == "set" and not self.kind(x)[2] for x in (lt, rt)):
                if self.unit.outside:
                    self.abort(e, "a <= b on sets outside the section of the element equality")
                self.need("set_add", "set_of_list")
                self.uses_eqb = True
                a, b, f = self.expr(e.left, "set", env, hoist), self.expr(e.comparators[0], "set", env, hoist), "set_subset"
            elif lt == rt and self.kind(lt)[0] == "enum" and fn == "eqb":
                a, b, f = self.expr(e.left, lt, env, hoist), self.expr(e.comparators[0], lt, env, hoist), self.unit.q(lt) + lt + "_eqb"
            else:
                ct = self.join(e, lt, rt)
                ct = "Z" if ct == "lit" else ct
                a, b, f = self.expr(e.left, ct, env, hoist), self.expr(e.comparators[0], ct, env, hoist), f"{ct}.{fn}"
            a, b = (b, a) if swap else (a, b)
            return f"(negb ({f} {a} {b}))" if neg else f"({f} {a} {b})"
        if isinstance(e, ast.BoolOp):
            parts = []
            for i, v in enumerate(e.values):
                sub: list = []
                parts.append(self.expr(v, "bool", env, sub))
                if sub and i > 0:
                    self.abort(v, "indexing in a short-circuited operand of and/or")
                hoist.extend(sub)
            f = "andb" if isinstance(e.op, ast.And) else "orb"
            out = parts[-1]
            for p in reversed(parts[:-1]):
                out = f"({f} {p} {out})"
            return out
        if isinstance(e, ast.Call) and not e.keywords:
            return self.call(e, t, env, hoist)
        if isinstance(e, ast.Subscript) and self.unit is not None \
                and self.kind(self.ntype(e.value, env))[0] in ("mapping", "enumdict"):
            bt = self.ntype(e.value, env)
            _, proj, key = self.lookup(e, bt, env)
            d = self.raw(e.value, bt, env, hoist)
            if key is None:
                return f"({proj} {d})"
            kt = self.ntype(key, env)
            return f"({d} ({self.unit.q(kt)}{kt}_id {self.raw(key, kt, env, hoist)}))"
        if isinstance(e, ast.Subscript) and self.unit is not None and is_pair(self.ntype(e.value, env)):
            return f"({('fst', 'snd')[self.pair_index(e)]} {self.raw(e.value, self.ntype(e.value, env), env, hoist)})"
        if isinstance(e, ast.Subscript) and self.edict_of(e.value, env) is not None:
            # d[k] on a dictionary keyed by elements: KeyError when k is not a key
            if isinstance(e.slice, ast.Slice) or self.ntype(e.slice, env) != "elem" or not isinstance(e.ctx, ast.Load):
                self.abort(e, f"key of {e.value.id} that is not an element")
            self.need("adict_get", "KeyError")
            self.uses_eqb = True
            key = self.expr(e.slice, "elem", env, hoist)
            self.nt += 1
            hoist.append(("unwrap", f"t'{self.nt}", f"adict_get eqb {e.value.id} {key}", "KeyError"))
            return f"t'{self.nt}"
        if isinstance(e, ast.Subscript) and isinstance(e.value, ast.Name) and self.unit is not None \
                and self.kind(self.ntype(e.value, env))[0] == "nodedict" and self.unit.ntrees:
            # (as below; the key may itself be hoisted, e.g. d[xs[0]]: it is evaluated first)
            tree, _, eqf = self.unit.nodedicts[self.ntype(e.value, env)]
            if isinstance(e.slice, ast.Slice) or self.ntype(e.slice, env) != tree:
                self.abort(e, f"key of {e.value.id} that is not a node of a {tree}")
            self.need("dict_get", "KeyError")
            key = self.raw(e.slice, tree, env, hoist)
            self.nt += 1
            tmp = f"t'{self.nt}"
            hoist.append(("unwrap", tmp, f"dict_get {eqf} {e.value.id} ({self.unit.q(tree)}{tree}_id {key})", "KeyError"))
            return tmp
        if isinstance(e, ast.Subscript) and isinstance(e.value, ast.Name) and self.unit is not None \
                and self.kind(self.ntype(e.value, env))[0] == "nodedict":
            # d[node] on a local dictionary keyed by nodes: KeyError when the node was never stored
            tree, _, eqf = self.unit.nodedicts[self.ntype(e.value, env)]
            if isinstance(e.slice, ast.Slice) or self.ntype(e.slice, env) != tree:
                self.abort(e, f"key of {e.value.id} that is not a node of a {tree}")
            self.need("dict_get", "KeyError")
            self.nt += 1
            hoist.append(("unwrap", f"t'{self.nt}", f"dict_get {eqf} {e.value.id} ({self.unit.q(tree)}{tree}_id {self.raw(e.slice, tree, env, hoist)})",
                          "KeyError"))
            return f"t'{self.nt}"
        if isinstance(e, ast.Subscript):
            if isinstance(e.slice, ast.Slice):
                self.abort(e, "only xs[i] with xs a declared sequence variable is handled")
            if isinstance(e.value, ast.Name):
                if not is_list(self.ntype(e.value, env)) and not (self.tables() and is_tuple(self.ntype(e.value, env))):
                    self.abort(e, "only xs[i] with xs a declared sequence variable is handled")
                seq = e.value.id
            elif isinstance(e.value, ast.Subscript) and self.unit is not None:
                seq = self.raw(e.value, self.ntype(e.value, env), env, hoist)
            else:
                self.abort(e, "only xs[i] with xs a declared sequence variable is handled")
            return self.index(e, seq, e.slice, env, hoist)
        if isinstance(e, ast.List) and e.elts:
            out = "nil"
            for item in reversed([self.expr(x, arg_of(t), env, hoist) for x in e.elts]):     # evaluated left to right
                out = f"(cons {item} {out})"
            return out
        if isinstance(e, ast.List):
            return "(@nil A)" if t == "list" else f"(@nil ({self.ct(arg_of(t))}))"
        if isinstance(e, ast.ListComp):
            k = self.comp_kind(e)
            if k[0] == "repeat":
                sub: list = []
                elt = self.expr(k[1], arg_of(t), env, sub)
                if sub:
                    self.abort(e, "comprehension element that can raise")
                return f"(repeat {elt} {self.count(k[2], env, hoist)})"
            var, seq, cond = k[1], k[2], k[3]
            if self.ty(e, var) != arg_of(t) or var in env:
                self.abort(e, f"comprehension variable {var!r} must be declared {arg_of(t)} and used nowhere else")
            sub = []
            c = self.expr(cond, "bool", env + [var], sub)
            if sub:
                self.abort(e, "comprehension condition that can raise")
            return f"(filter (fun {self.binder(e, var)} => {c}) {seq.id})"
        self.abort(e, "expression outside the handled subset")

    def count(self, e, env, hoist) -> str:
        """`nat` term for the length `n` of `range(n)` / `[x] * n` (empty when negative)."""
        ct = self.ntype(e, env)
        if ct in ("N", "lit"):
            return f"(N.to_nat {self.expr(e, 'N', env, hoist)})"
        if ct == "Z" and self.unit is not None:
            return f"(Z.to_nat {self.expr(e, 'Z', env, hoist)})"
        self.abort(e, "range(e) is only translated for e of declared type N")

    def index(self, e, seq: str, sl, env, hoist) -> str:
        """Hoist the read `seq[sl]`; returns the temporary holding the value."""
        it = self.ntype(sl, env)
        if it == "Z" and self.unit is not None:
            idx = self.expr(sl, "Z", env, hoist)
            self.need("zget")
            self.nt += 1
            hoist.append(("zidx", f"t'{self.nt}", seq, idx))
            return f"t'{self.nt}"
        if it not in ("N", "lit"):
            self.abort(e, "index must be of declared type N (a negative index counts from the end in Python)")
        if self.unit is None:
            self.nt += 1
            hoist.append(("idx", f"t'{self.nt}", seq, self.expr(sl, "N", env, [])))
            if any(isinstance(n, ast.Subscript) for n in ast.walk(sl)):
                self.abort(e, "nested indexing")
            return f"t'{self.nt}"
        idx = self.expr(sl, "N", env, hoist)
        self.nt += 1
        hoist.append(("idx", f"t'{self.nt}", seq, idx))
        return f"t'{self.nt}"

    def call(self, e, t: str, env, hoist) -> str:
        f = e.func
        if self.tables():
            r = self.call6(e, t, env, hoist)
            if r is not None:
                return r
        if isinstance(f, ast.Name) and f.id == "len" and len(e.args) == 1 \
                and isinstance(e.args[0], ast.Name) and is_list(self.ntype(e.args[0], env)):
            return f"(N.of_nat (length {e.args[0].id}))"
        if isinstance(f, ast.Name) and f.id == "len" and len(e.args) == 1 and "len" not in self.spec.types \
                and self.edict_of(e.args[0], env) is not None:
            return f"(N.of_nat (length {e.args[0].id}))"       # len(d): the number of items
        if isinstance(f, ast.Attribute) and f.attr == "bit_length" and not e.args:
            vt = self.ntype(f.value, env)
            if vt == "Z" and self.unit is not None:
                return f"(N.size (Z.abs_N {self.raw(f.value, 'Z', env, hoist)}))"
            if vt != "N":
                self.abort(e, "bit_length() is only translated for values declared N")
            return f"(N.size {self.raw(f.value, 'N', env, hoist)})"
        if self.unit is None:
            self.abort(e, "call outside the handled subset (len(xs), e.bit_length())")
        if self.tree_test(e, env) is not None:
            x = self.tree_test(e, env)
            return f"({self.unit.q(self.spec.types[x.id])}{self.spec.types[x.id]}_is_leaf {x.id})"
        if self.opaque_call(e, env) is not None:
            argts, _, coq, recv = self.opaque_call(e, env)
            if len(argts) != len(e.args) or any(isinstance(a, ast.Starred) for a in e.args):
                self.abort(e, f"call of {coq} with {len(e.args)} arguments")
            r = self.raw(recv, self.ntype(recv, env), env, hoist)          # receiver first, then the arguments in order
            return "(" + " ".join([coq, r] + [self.expr(a, at, env, hoist) for a, at in zip(e.args, argts)]) + ")"
        if isinstance(f, ast.Name) and f.id not in self.spec.types:
            if f.id == "set" and not e.args:
                return f"(@nil ({self.ct('elem' + self.kind(t)[2])}))"
            if f.id in ("set", "deque") and len(e.args) == 1 and self.containers() and self.call_type(e, env) == "new" + f.id:
                a = e.args[0]
                # the keys of a dictionary, in order (distinct, as keys are) / a copy of a set: the same immutable list
                return f"(map fst {a.id})" if self.edict_of(a, env) is not None else a.id
            if f.id == "set" and len(e.args) == 1 and self.unit.set_ops:
                if self.kind(t)[2] or self.unit.outside:
                    self.abort(e, "set(xs) outside the section of the element equality")
                self.need("set_add", "set_of_list")
                self.uses_eqb = True
                return f"(set_of_list {self.expr(e.args[0], 'list', env, hoist)})"
            if f.id in ("min", "max") and len(e.args) == 2 and t in ("N", "Z") and self.unit.products \
                    and (f.id == "min" or self.unit.ntrees):
                return f"({t}.{f.id} {self.expr(e.args[0], t, env, hoist)} {self.expr(e.args[1], t, env, hoist)})"
            if f.id in self.unit.foreigns:
                # C(args), C a class translated into another generated file: a fresh object (it keeps no alias of a list
                # argument: pyfun never lets a translated method do that)
                decl = self.unit.foreigns[f.id]
                if decl["init"] is None or len(decl["init"][0]) != len(e.args) or any(isinstance(a, ast.Starred) for a in e.args):
                    self.abort(e, f"construction of a {f.id} with {len(e.args)} arguments")
                args = [self.expr(a, at, env, hoist) for a, at in zip(e.args, decl["init"][0])]
                self.nt += 1
                hoist.append(("call", f"t'{self.nt}", f"{decl['lift']} ({' '.join([decl['init'][1]] + args)})"))
                return f"t'{self.nt}"
            if self.is_self_rec(e):
                # f(..) inside f, structurally recursive on its tree parameter: the argument in that position must be a
                # variable bound to a child of the parameter (Coq's guard checker re-checks the decrease)
                if len(e.args) != len(self.params) or any(isinstance(a, ast.Starred) for a in e.args):
                    self.abort(e, f"recursive call with {len(e.args)} arguments")
                a = e.args[self.params.index(self.spec.rec_on)]
                if not (isinstance(a, ast.Name) and a.id in self.subtrees):
                    self.abort(e, f"recursive call whose argument for {self.spec.rec_on!r} is not a child of it")
                args = [self.expr(x, self.spec.types[p], env, hoist) for x, p in zip(e.args, self.params)]
                self.in_rec = True
                self.nt += 1
                hoist.append(("call", f"t'{self.nt}", " ".join([self.prefix + (self.spec.alias or self.fn.name)] + args)))
                return f"t'{self.nt}"
            if f.id in self.unit.externals_res and f.id not in self.unit.functions:
                # (seventh extension) an imported function that can raise: its arguments are evaluated, then the call is
                # hoisted like the call of a translated function (it only reads its arguments)
                argts, _, coq, _ = self.unit.externals_res[f.id]
                if len(argts) != len(e.args) or e.keywords or any(isinstance(a, ast.Starred) for a in e.args):
                    self.abort(e, f"{f.id}() called with {len(e.args)} arguments / keyword arguments")
                args = [self.expr(a, at, env, hoist) for a, at in zip(e.args, argts)]
                self.nt += 1
                hoist.append(("call", f"t'{self.nt}", " ".join([coq] + args)))
                return f"t'{self.nt}"
            if f.id in self.unit.externals and f.id not in self.unit.functions:
                argts, _, coq = self.unit.externals[f.id]
                if len(argts) != len(e.args):
                    self.abort(e, f"{f.id}() called with {len(e.args)} arguments")
                return "(" + " ".join([coq] + [self.expr(a, at, env, hoist) for a, at in zip(e.args, argts)]) + ")"
            if f.id in self.unit.datas:
                d, sfx = self.unit.datas[f.id], self.kind(t)[2]
                dflt = self.unit.data_defaults.get(f.id, {}) if self.tables() else {}
                if len(e.args) < len(d.fields) and all(x in dflt for x in list(d.fields)[len(e.args):]) \
                        and not any(isinstance(a, ast.Starred) for a in e.args):
                    # the fields left out have a default value (None)
                    args = [self.expr(a, inst_type(ft, sfx, self.unit.parametric()), env, hoist)
                            for a, ft in zip(e.args, d.fields.values())]
                    args += [dflt[x] for x in list(d.fields)[len(e.args):]]
                    return f"({self.unit.q(f.id)}mk_{f.id} {' '.join(args)})"
                if len(e.args) != len(d.fields) or any(isinstance(a, ast.Starred) for a in e.args):
                    self.abort(e, f"{f.id}(..) is only translated with every field given as a positional argument")
                args = [self.expr(a, inst_type(ft, sfx, self.unit.parametric()), env, hoist)
                        for a, ft in zip(e.args, d.fields.values())]
                return f"({self.unit.q(f.id)}mk_{f.id} {' '.join(args)})"
            if f.id in self.unit.classes:
                cls, sfx = self.unit.classes[f.id], self.kind(t)[2]
                init = next((m for m in self.unit.done_methods.get(f.id, []) if m.name == "__init__"), None)
                if init is None:
                    self.abort(e, f"construction of a {f.id}, whose __init__ is not translated before this function")
                args = self.method_args(e, cls, init, sfx, env, hoist)
                self.nt += 1
                hoist.append(("call", f"t'{self.nt}", self.mcall(e, cls, init, sfx, None, args)))
                return f"t'{self.nt}"
        if self.foreign_call(e, env) is not None:
            argts, _, coq, lift, x = self.foreign_call(e, env)
            if len(argts) != len(e.args) or any(isinstance(a, ast.Starred) for a in e.args):
                self.abort(e, f"call of {x} with {len(e.args)} arguments")
            args = [self.expr(a, at, env, hoist) for a, at in zip(e.args, argts)]
            self.nt += 1
            hoist.append(("call", f"(_, t'{self.nt})", f"{lift} ({' '.join([coq, x] + args)})"))
            return f"t'{self.nt}"
        if isinstance(f, ast.Name) and "->" in self.spec.types.get(f.id, ""):
            parts = [p.strip() for p in self.spec.types[f.id].split("->")]
            if f.id not in env or f.id not in self.params or len(parts) - 1 != len(e.args):
                self.abort(e, f"call of the function parameter {f.id!r} with {len(e.args)} arguments")
            return "(" + " ".join([f.id] + [self.expr(a, at, env, hoist) for a, at in zip(e.args, parts)]) + ")"
        oc = self.obj_call(e, env)
        if oc is not None:
            x, cls, sfx, m = oc
            if not m.pure:
                self.abort(e, f"{x}.{m.name}(..) may modify {x}: only translated as a statement of its own")
            if x not in env:
                self.abort(e, f"variable {x!r} is not definitely assigned here")
            args = self.method_args(e, cls, m, sfx, env, hoist)
            self.nt += 1
            hoist.append(("call", f"(_, t'{self.nt})", self.mcall(e, cls, m, sfx, self.var_term(x), args)))
            return f"t'{self.nt}"
        if isinstance(f, ast.Name) and f.id == "min" and len(e.args) == 2:
            if not self.unit.elem_lt:
                self.abort(e, "min() needs the unit's element order")
            terms, pending = [], []
            for a in e.args:
                at = self.ntype(a, env)
                if at == "elem":
                    terms.append(self.expr(a, "elem", env, hoist))
                elif at == "option elem":
                    inner = self.raw(a, at, env, hoist)
                    self.nt += 1
                    pending.append(("unwrap", f"t'{self.nt}", inner, "TypeError"))
                    terms.append(f"t'{self.nt}")
                else:
                    self.abort(a, f"min() of a value of type {at}")
            if pending:
                self.need("TypeError")
            hoist.extend(pending)               # the comparison happens after both arguments are evaluated
            self.need("py_min")
            return f"(py_min {terms[0]} {terms[1]})"
        if isinstance(f, ast.Name) and f.id == "list" and len(e.args) == 1:
            a = e.args[0]
            if isinstance(a, ast.Call) and isinstance(a.func, ast.Name) and a.func.id == "range":
                if len(a.args) != 1 or a.keywords:
                    self.abort(e, "list(range(..)) with more than one argument")
                return f"(map N.of_nat (seq 0 {self.count(a.args[0], env, hoist)}))"
            if not isinstance(a, ast.Name) or not is_list(self.ntype(a, env)):
                self.abort(e, "list(xs) is only translated for xs a sequence variable")
            return a.id                          # a copy of an immutable value is the value
        if isinstance(f, ast.Name) and f.id not in self.spec.types and self.containers() \
                and (self.is_self_fuel(e) or f.id in self.unit.functions and self.mutated_params(f.id)):
            # f(..) with f recursive on fuel (the function being translated) and / or f updating a dictionary parameter in
            # place: the call returns the final dictionaries with the result, the variables passed are bound again
            rec = self.is_self_fuel(e)
            callee = self.spec if rec else self.unit.functions[f.id]
            params = self.params if rec else self.unit.params[f.id]
            mut = self.mutated_params(f.id)
            if len(params) != len(e.args) or any(isinstance(a, ast.Starred) for a in e.args):
                self.abort(e, f"{f.id}() called with {len(e.args)} arguments")
            if mut and id(e) not in self.callpos:
                self.abort(e, f"{f.id}(..) updates a parameter: only translated as a whole right-hand side or as the sequence "
                              "a for iterates (elsewhere the evaluation order would matter)")
            bound = {}
            for a, q in zip(e.args, params):
                k = self.kind(callee.types[q])[0]
                if (is_list(callee.types[q]) or k in ("set", "deque", "elemdict", "seqset")) and not isinstance(a, ast.Name):
                    self.abort(e, "container argument that is not a variable")
                if q in mut:
                    if a.id not in env or a.id in bound.values() or self.spec.types.get(a.id) != callee.types[q] \
                            or (a.id in self.params and a.id not in self.spec.mutates):
                        self.abort(e, f"{a.id!r} is updated by {f.id}(..): it must be a local variable (or a parameter declared "
                                      "as updated) of the same dictionary type, passed once")
                    bound[q] = a.id
            args = [self.expr(a, callee.types[q], env, hoist) for a, q in zip(e.args, params)]
            name = self.prefix + (callee.alias or callee.name)
            if rec:
                self.in_rec = True
                name += "_rec fuel''"
            self.nt += 1
            pat = f"t'{self.nt}" if not mut else "(" + ", ".join([bound[q] for q in mut] + [f"t'{self.nt}"]) + ")"
            hoist.append(("call", pat, " ".join([name] + args)))
            return f"t'{self.nt}"
        if isinstance(f, ast.Name) and f.id in self.unit.functions:
            callee = self.unit.functions[f.id]
            params = self.unit.params[f.id]
            dflt = self.unit.fun_defaults.get(f.id, {})
            if len(params) != len(e.args) and not (len(e.args) < len(params) and all(p in dflt for p in params[len(e.args):])):
                self.abort(e, f"{f.id}() called with {len(e.args)} arguments")
            if any(isinstance(a, ast.Starred) for a in e.args):
                self.abort(e, f"{f.id}() called with a starred argument")
            args = [self.expr(a, callee.types[p], env, hoist) for a, p in zip(e.args, params)]
            args += [f"{dflt[p]}%{callee.types[p]}" for p in params[len(e.args):]]        # omitted: the declared default
            for a, p in zip(e.args, params):
                if is_list(callee.types[p]) and not isinstance(a, ast.Name):
                    self.abort(e, "list argument that is not a variable")
            self.nt += 1
            hoist.append(("call", f"t'{self.nt}", " ".join([self.prefix + (callee.alias or callee.name)] + args)))
            return f"t'{self.nt}"
        if self.pure_self_call(e) and self.spec.pure and not self.cls.frozen:
            # a method that only reads its object calls another one: nothing can be modified, so the call may stand anywhere
            # in an expression; calls are hoisted in evaluation order (arguments first) and only the first error matters
            callee = self.resolve(e)
            if callee is None or not callee.ret or callee.ret == "unit" or callee.name == "__init__" or not callee.pure:
                self.abort(e, f"call of {f.attr!r}, which is not a translated reading method returning a value")
            if any(v not in env for v in self.fieldvars) or self.unit.outside:
                self.abort(e, "method call before every attribute is assigned / outside the section of the class")
            args = self.method_args(e, self.cls, callee, "", env, hoist, nested=True)
            self.nt += 1
            hoist.append(("call", f"(_, t'{self.nt})", " ".join([self.callee(e, self.cls, callee, ""), self.state(e)] + args)))
            return f"t'{self.nt}"
        if (_is_self_call(e) or _is_super_call(e)) and self.cls is not None:
            if id(e) not in self.callpos and not self.cls.frozen:
                # (the methods of a frozen class change nothing: their calls are hoisted in evaluation order)
                self.abort(e, "self.m(..) is only translated as a whole right-hand side, a returned value, or the "
                              "index of xs[self.m(..)].append(e) (elsewhere the evaluation order would matter)")
            callee = self.resolve(e)
            if callee is None or not callee.ret or callee.name == "__init__":
                self.abort(e, f"call of {f.attr!r}, which is not a translated method returning a value")
            done = [_mkey(m) for m in self.unit.done_methods.get(self.cls.name, [])]
            rec = _mkey(callee) == _mkey(self.spec)
            if not rec and _mkey(callee) not in done:
                self.abort(e, f"method {f.attr!r} is not translated before its caller")
            if rec and not self.spec.rec_fuel and not self.spec.rec_on:
                self.abort(e, "recursive method without a declared fuel measure")
            if any(v not in env for v in self.fieldvars):
                self.abort(e, "method call before every attribute is assigned")
            params = self.unit.params[(self.cls.name, _mkey(callee))]
            if len(params) != len(e.args):
                self.abort(e, f"{f.attr}() called with {len(e.args)} arguments")
            args = []
            for a, p in zip(e.args, params):
                if is_list(callee.types[p]):
                    self.abort(e, "list argument to a method")
                if any(_is_self_call(n) or _is_super_call(n) for n in ast.walk(a)):
                    self.abort(e, "method call inside the arguments of a method call")
                args.append(self.expr(a, callee.types[p], env, hoist))
            name = self.callee(e, self.cls, callee, "")
            if rec and self.spec.rec_on:
                # structural recursion: the argument in the position of the recursion parameter must be a variable
                # bound by unpacking the children of that parameter (or of such a variable)
                pos = params.index(self.spec.rec_on)
                a = e.args[pos]
                if self.unit.outside or not (isinstance(a, ast.Name) and a.id in self.subtrees):
                    self.abort(e, f"recursive call whose argument for {self.spec.rec_on!r} is not a child of it")
                self.in_rec = True
            elif rec:
                if self.unit.outside:
                    self.abort(e, "recursive method translated outside the section of its class")
                self.in_rec = True
                name += "_rec fuel''"
            self.nt += 1
            hoist.append(("call", f"({self.state(e)}, t'{self.nt})", " ".join([name, self.state(e)] + args)))
            return f"t'{self.nt}"
        self.abort(e, "call outside the handled subset")

    def pure_calls(self) -> bool:
        """May this method call methods of self anywhere in an expression?  Yes when nothing can be modified: a frozen
        class, or (units with `pure_self_calls`) a method declared `pure` calling methods declared `pure`."""
        return self.cls is not None and (self.cls.frozen or (self.unit.pure_self_calls and self.spec.pure))

    def pure_self_call(self, n) -> bool:
        """`self.m(..)` with m a method declared `pure` translated before, in a unit with `pure_self_calls`."""
        if not (_is_self_call(n) and self.cls is not None and self.unit is not None and self.unit.pure_self_calls):
            return False
        return any(m.name == n.func.attr and m.pure for m in self.unit.done_methods.get(self.cls.name, []))

    def later_operand_raises(self, v, env) -> bool:
        """Does an operand of the and/or `v` other than the first one need hoisted code (a call, an index)?  (Probed by
        translating them; the counters and the helper sets are restored.)"""
        saved = (self.nt, set(self.unit.helpers), set(self.unit.errors), self.uses_eqb, self.in_rec, set(self.callpos))
        try:
            for x in v.values[1:]:
                self.callpos = {id(n) for n in ast.walk(x)}
                sub: list = []
                self.expr(x, "bool", env, sub)
                if sub:
                    return True
            return False
        except TranslatorAbort:
            return False
        finally:
            self.nt, self.unit.helpers, self.unit.errors, self.uses_eqb, self.in_rec, self.callpos = saved

    def tail_slice(self, a, env):
        """(list variable, start term as a `nat`) when `a` is `xs[k:]`, xs a list variable, k a literal or an N; else None."""
        if self.unit is None or not self.unit.ntrees or not (isinstance(a, ast.Subscript) and isinstance(a.slice, ast.Slice)
                                                              and isinstance(a.value, ast.Name)):
            return None
        sl = a.slice
        if sl.upper is not None or sl.step is not None or sl.lower is None or a.value.id not in env \
                or not is_list(self.ntype(a.value, env)) or self.ntype(sl.lower, env) not in ("N", "lit"):
            return None
        sub: list = []
        k = self.expr(sl.lower, "N", env, sub)
        if sub:
            return None
        return a.value.id, f"(N.to_nat {k})"

    def resolve(self, e) -> Optional[FunSpec]:
        """The translated method a call `self.m(..)` / `super().m(..)` reaches: `self.m` is the definition of the class
        itself when it has one, else the inherited one; `super().m`, written in a method defined by the class itself, is
        the one inherited from the base class."""
        name = e.func.attr
        cands = [m for m in self.cls.methods if m.name == name]
        if _is_super_call(e):
            if not self.cls.frozen or self.cls.base is None or self.spec.owner is not None:
                self.abort(e, "super() outside a method defined by a frozen class with a declared base")
            return next((m for m in cands if m.owner == self.cls.base), None)
        own = next((m for m in cands if m.owner is None), None)
        if own is None and cands:
            body = self.unit._unique(self.unit.tree.body, self.cls.name, ast.ClassDef).body
            if any(getattr(b, "name", None) == name or isinstance(b, ast.AnnAssign) and isinstance(b.target, ast.Name)
                   and b.target.id == name for b in body):
                self.abort(e, f"{self.cls.name} defines {name!r} itself: self.{name} is not the inherited method")
        return own if own is not None else next(iter(cands), None)

    def callee(self, node, cls: ClassSpec, m: FunSpec, sfx: str) -> str:
        """Head of a call of the generated method `m` of `cls`, for the instance `sfx` of the class."""
        name = self.prefix + (m.alias or m.name)
        dep = self.unit.method_uses_eqb.get((cls.name, _mkey(m)), False)
        if self.tables():
            self.uses_vars |= self.unit.method_uses_vars.get((cls.name, _mkey(m)), set())
        if not self.unit.outside:
            if sfx and self.unit.seventh and self.unit.local_sfx.get((cls.name, _mkey(m))) == sfx:
                sfx = ""                           # a method added in this file for exactly this instance of the class
            if sfx:
                self.abort(node, "a second instance of the class inside the section of the class")
            self.uses_eqb = self.uses_eqb or dep
            return name
        if not self.unit.cls_parametric(cls):
            self.abort(node, f"instance of {cls.name}, which does not depend on the element type")
        a, eq = self.unit.insts[sfx]
        if dep and eq is None:
            self.abort(node, f"{cls.name}.{m.name} compares elements, and no equality is declared for this instance")
        return f"(@{name} {a}{' ' + eq if dep else ''})"

    def method_args(self, e, cls: ClassSpec, m: FunSpec, sfx: str, env, hoist, nested: bool = False) -> List[str]:
        """Argument terms of the call `e` of method `m` (`*args` of the callee: one list)."""
        params = self.unit.params[(cls.name, _mkey(m))]
        var = self.unit.varargs.get((cls.name, _mkey(m)))
        par = self.unit.parametric()
        star = self.tables() and var is not None and not e.keywords \
            and not any(isinstance(a, ast.Starred) for a in e.args[:len(params)])
        if (any(isinstance(a, ast.Starred) for a in e.args) and not star) or e.keywords:
            self.abort(e, "call with starred or keyword arguments")
        dflt = self.unit.method_defaults.get((cls.name, _mkey(m)), {}) if self.tables() else {}
        if len(e.args) < len(params) and var is None and all(q in dflt for q in params[len(e.args):]):
            pass                               # the parameters left out have an (enum member) default
        elif len(e.args) < len(params) or (var is None and len(e.args) != len(params)):
            self.abort(e, f"{m.name}() called with {len(e.args)} arguments")
        args = []
        for a, p in zip(e.args, params):
            pt = inst_type(m.types[p], sfx, par)
            if is_list(pt) or self.kind(pt)[0] in ("set", "class"):
                if not (self.tables() and self.kind(pt)[0] == "class" and isinstance(a, ast.Name) and a.id in env
                        and self.read_only_param(cls, m, p)):
                    self.abort(e, "mutable argument (list, set, object) to a method")
            if any(_is_self_call(n) for n in ast.walk(a)) and not nested:
                self.abort(e, "method call inside the arguments of a method call")
            args.append(self.expr(a, pt, env, hoist))
        args += [dflt[q] for q in params[len(e.args):]] if var is None else []
        if var is not None and star and any(isinstance(a, ast.Starred) for a in e.args):
            # f(.., *xs, y, *zs): the items of xs, then y, then the items of zs -- one list
            et = inst_type(arg_of(m.types[var]), sfx, par)
            parts = []
            for a in e.args[len(params):]:
                if isinstance(a, ast.Starred):
                    parts.append(self.starred(a, et, env, hoist))
                else:
                    parts.append(f"(cons {self.expr(a, et, env, hoist)} nil)")
            args.append(parts[0] if len(parts) == 1 else "(" + " ++ ".join(parts) + ")")
            return args
        if var is not None:
            et = inst_type(arg_of(m.types[var]), sfx, par)
            items = [self.expr(a, et, env, hoist) for a in e.args[len(params):]]     # evaluated left to right
            out = "nil" if items else f"(@nil ({self.ct(et)}))"
            for item in reversed(items):
                out = f"(cons {item} {out})"
            args.append(out)
        return args

    def hoisted(self, hoist, lines: List[str], ctx: _Ctx) -> List[str]:
        for h in reversed(hoist):
            if h[0] == "idx":
                lines = [f"match nth_error {h[2]} (N.to_nat {h[3]}) with", f"| None => {ctx.fail('IndexError')}",
                         f"| Some {h[1]} =>"] + _ind(lines) + ["end"]
            elif h[0] == "zidx":
                lines = [f"match zget {h[2]} {h[3]} with", f"| None => {ctx.fail('IndexError')}",
                         f"| Some {h[1]} =>"] + _ind(lines) + ["end"]
            elif h[0] == "unwrap":
                lines = [f"match {h[2]} with", f"| None => {ctx.fail(h[3])}", f"| Some {h[1]} =>"] + _ind(lines) + ["end"]
            elif h[0] == "guard":
                lines = [f"if {h[1]} then {ctx.fail(h[2])} else ("] + _ind(lines) + [")"]
            elif h[0] == "call":
                lines = [f"match {h[2]} with", f"| Err e' => " + ctx.fail("e'"), f"| Ok {h[1]} =>"] \
                    + _ind(lines) + ["end"]
            elif h[0] == "let":
                lines = [f"let {h[1]} := {h[2]} in"] + lines
        return lines

    # ---------------------------------------------------------------- sixth extension: expressions
    def mcall(self, node, cls: ClassSpec, m: FunSpec, sfx: str, recv: Optional[str], args: List[str]) -> str:
        """The call of the generated method `m` of `cls` (instance `sfx`) on the object term `recv` (None: `__init__`).  A
        class taken from another generated file: the declared head of the call, the result converted with that file's lift."""
        if self.tables() and (cls.name, _mkey(m)) in getattr(self.unit, "local_heads", {}):
            return " ".join([self.unit.local_heads[(cls.name, _mkey(m))]] + ([recv] if recv is not None else []) + args)
        if cls.name not in self.unit.quals or (cls.name, _mkey(m)) in self.unit.local_methods:
            if self.tables():
                self.uses_vars |= self.unit.method_uses_vars.get((cls.name, _mkey(m)), set())
            return " ".join([self.callee(node, cls, m, sfx)] + ([recv] if recv is not None else []) + args)
        a, eq = self.unit.insts[sfx]
        head = self.unit.heads[(cls.name, _mkey(m))]
        if "{eqb}" in head:
            if eq is None:
                self.abort(node, f"{cls.name}.{m.name} compares elements, and no equality is declared for this instance")
            if eq == "eqb":
                self.uses_eqb = True
        for v in self.unit.section_vars:
            if v in head.split() or v + ")" in head:
                self.uses_vars.add(v)
        head = head.replace("{A2}", self.unit.insts.get("2", ("", None))[0]).replace("{eqb2}", self.unit.insts.get("2", ("", ""))[1] or "")
        head = head.replace("{A}", a).replace("{eqb}", eq or "")
        lift = self.unit.head_lift[(cls.name, _mkey(m))]
        return f"{lift} (" + " ".join([head] + ([recv] if recv is not None else []) + args) + ")"

    def mret(self, cname: str, m: FunSpec, sfx: str) -> str:
        """Result type of the method `m` of the class `cname` called on an object of the instance `sfx`."""
        if self.tables() and (cname, _mkey(m)) in self.unit.ret_override:
            return self.unit.ret_override[(cname, _mkey(m))]
        return inst_type(m.ret, sfx, self.unit.parametric())

    def seq(self, t: str) -> bool:
        return is_list(t) or is_tuple(t)

    def ctp(self, t: str) -> str:
        c = self.ct(t)
        return c if " " not in c else "(" + c + ")"

    def canon(self, t: str) -> str:
        """The declared type `t` with the names the unit declares as other names of a type (`Unit.same_type`) replaced."""
        if not self.unit.type_alias or not t:
            return t
        return " ".join(self.unit.type_alias.get(w, w) for w in t.replace("(", " ( ").replace(")", " ) ").split()) \
            .replace("( ", "(").replace(" )", ")")

    def traverse_of(self, a, env):
        """(tree type, strategy, receiver expression) when `a` is `<tree>.traverse()` / `.traverse("<strategy>")`."""
        if not (self.tables() and isinstance(a, ast.Call) and isinstance(a.func, ast.Attribute) and a.func.attr == "traverse"
                and not a.keywords and len(a.args) <= 1):
            return None
        if a.args and not (isinstance(a.args[0], ast.Constant) and a.args[0].value in ("levelorder", "postorder", "preorder")):
            return None
        try:
            tt = self.ntype(a.func.value, env)
        except TranslatorAbort:
            return None
        if self.kind(tt)[0] != "tree":
            return None
        return tt, (a.args[0].value if a.args else "levelorder"), a.func.value   # ete3: the default strategy is levelorder

    def celltype(self) -> Optional[str]:
        return self.unit.cellspec["name"] if self.tables() and self.unit.cellspec else None

    def cell_fn(self, fn: str) -> str:
        """A helper of the cell type (they use the key equality of the Section)."""
        c = self.unit.cellspec
        self.uses_vars.add(c["keqb"])
        return f"{self.unit.q(c['name'])}{c['name']}_{fn}"

    def cell_call(self, fn: str, args: str) -> str:
        """The call of a helper of the cell type that returns a result.  A cell type imported from another generated file
        (seventh extension): the qualified helper with the key equality of that file's Section, converted with its lift."""
        c = self.unit.cellspec
        if c["name"] in self.unit.quals and self.unit.seventh:
            keqb = "" if fn == "entry" else self.unit.imported_var_terms.get(c["keqb"], c["keqb"]) + " "
            return f"{self.unit.cell_lift} ({self.unit.q(c['name'])}{c['name']}_{fn} {keqb}{args})"
        return f"{self.cell_fn(fn)} {args}"

    def is_cursor(self, n, env) -> bool:
        return self.tables() and isinstance(n, ast.Name) and n.id in env and self.spec.types.get(n.id) == "cursor"

    def cursor_root(self, node, c: str) -> str:
        if c not in self.cursor_roots:
            self.abort(node, f"the reference {c!r} is not bound exactly once, to a variable holding the root of a nested table")
        return self.cursor_roots[c]

    def scan_cursors(self):
        """A variable declared `cursor` is bound to a root exactly once, by `c = <variable of the cell type>`; every other
        assignment to it is `c = c[k]`."""
        if not self.tables() or not self.unit.cellspec:
            return
        ct = self.unit.cellspec["name"]
        for c in [v for v, t in self.spec.types.items() if t == "cursor"]:
            roots = []
            for n in ast.walk(self.fn):
                if isinstance(n, (ast.Assign, ast.AnnAssign, ast.AugAssign, ast.For, ast.With, ast.NamedExpr)):
                    tg = n.targets if isinstance(n, ast.Assign) else [getattr(n, "target", None)]
                    for tnode in tg:
                        if tnode is None or not any(isinstance(x, ast.Name) and x.id == c and isinstance(x.ctx, ast.Store)
                                                    for x in ast.walk(tnode)):
                            continue
                        if not (isinstance(n, ast.Assign) and len(n.targets) == 1 and isinstance(tnode, ast.Name)):
                            self.abort(n, f"the reference {c!r} is assigned otherwise than by 'c = <root>' / 'c = c[k]'")
                        v = n.value
                        if isinstance(v, ast.Name) and self.spec.types.get(v.id) == ct and v.id not in self.params:
                            roots.append(v.id)
                        elif not (isinstance(v, ast.Subscript) and isinstance(v.value, ast.Name) and v.value.id == c
                                  and not isinstance(v.slice, ast.Slice)):
                            self.abort(n, f"the reference {c!r} is assigned otherwise than by 'c = <root>' / 'c = c[k]'")
            if c in self.params or len(roots) != 1:
                self.abort(self.fn, f"the reference {c!r} must be a local variable bound exactly once to a variable holding a root")
            self.cursor_roots[c] = roots[0]

    def view_class(self, name: str) -> bool:
        return self.tables() and name in self.unit.classes and bool(self.unit.classes[name].views)

    def viewish(self, t: str) -> bool:
        """A type whose values borrow another object: a view class or a union of view classes."""
        k, name, _ = self.kind(t)
        return (k == "class" and self.view_class(name)) or (k == "union" and all(self.view_class(m) for m in self.unit.unions[name]))

    def parent_of(self, t: str, term: str) -> str:
        """The object a value of the view type `t` refers to."""
        k, name, _ = self.kind(t)
        if k == "union":
            return f"({self.unit.q(name)}{name}_parent {term})"
        cls = self.unit.classes[name]
        return f"({self.unit.q(name)}{cls.short}_{list(cls.views)[0]} {term})"

    def chain_parse(self, e, env):
        """(base, steps) when `e` is a chain `B[k]..`, `B.m(..)..` of subscripts and method calls whose base B is the
        construction `V(obj, ..)` of a view, or a variable holding an object of a class / union that is subscripted or a view;
        else None.  base = ('view', call) | ('var', name); a step = ('sub', node) | ('call', node)."""
        if not self.tables():
            return None
        steps, n = [], e
        while True:
            if isinstance(n, ast.Subscript) and not isinstance(n.slice, ast.Slice):
                steps.append(("sub", n))
                n = n.value
            elif isinstance(n, ast.Call) and isinstance(n.func, ast.Attribute) and not n.keywords:
                steps.append(("call", n))
                n = n.func.value
            else:
                break
        steps.reverse()
        if not steps:
            return None
        if isinstance(n, ast.Call) and isinstance(n.func, ast.Name) and n.func.id not in self.spec.types \
                and self.view_class(n.func.id) and not n.keywords:
            return ("view", n), steps
        if isinstance(n, ast.Name) and n.id in env and n.id in self.spec.types and n.id != "self":
            t = self.vtype(n, n.id, env)
            k = self.kind(t)[0]
            if k == "union" or (k == "class" and (steps[0][0] == "sub" or self.view_class(self.kind(t)[1]))):
                return ("var", n.id), steps
        return None

    def step_method(self, node, t: str, step):
        """(class spec, instance suffix, method spec, argument nodes) of a step on a receiver of type `t`."""
        k, name, sfx = self.kind(t)
        if k not in ("class", "union"):
            self.abort(node, f"subscript / method call on a value of type {t} in a chain")
        mname = "__getitem__" if step[0] == "sub" else step[1].func.attr
        m = next((x for x in self.unit.done_methods.get(name, []) if x.name == mname), None)
        if m is None:
            self.abort(node, f"{mname!r} is not a method of {name} translated before this function")
        args = [step[1].slice] if step[0] == "sub" else list(step[1].args)
        cls = self.unit.classes[name] if k == "class" else ClassSpec(name, name, {})
        return cls, sfx, m, args

    def chain_type(self, e, env) -> Optional[str]:
        cp = self.chain_parse(e, env)
        if cp is None:
            return None
        base, steps = cp
        t = base[1].func.id if base[0] == "view" else self.vtype(e, base[1], env)
        for st in steps:
            _, sfx, m, _ = self.step_method(e, t, st)
            if not m.ret or m.ret == "unit":
                return "unit"
            t = self.mret(self.kind(t)[1], m, sfx)
        return t

    def borrow(self, node, a, env):
        """(what a view is taken of, the term of that object): `self` in a method of the viewed class, an attribute of self
        that refers to the object (self'f), or a variable."""
        if isinstance(a, ast.Name) and a.id == "self" and self.cls is not None and not self.cls.views:
            return ("self",), self.state(node)
        if isinstance(a, ast.Name) and a.id in self.viewvars:
            return ("viewvar", a.id), self.view_term(a.id)
        if isinstance(a, ast.Name) and a.id in env and a.id in self.spec.types and self.kind(self.vtype(a, a.id, env))[0] == "class":
            return ("var", a.id), a.id
        self.abort(node, "a view is only taken of self, of an attribute of self that refers to an object, or of a variable")

    def view_new(self, call, env, hoist):
        """`V(obj, args)`, V a view class: (temporary holding the new view, what it borrows)."""
        V = call.func.id
        cls = self.unit.classes[V]
        init = next((m for m in self.unit.done_methods.get(V, []) if m.name == "__init__"), None)
        if init is None:
            self.abort(call, f"construction of a {V}, whose __init__ is not translated before this function")
        params = self.unit.params[(V, "__init__")]
        if len(call.args) != len(params) or any(isinstance(a, ast.Starred) for a in call.args) or call.keywords \
                or init.types[params[0]] != list(cls.views.values())[0]:
            self.abort(call, f"{V}(..): the object viewed first, then every other parameter positionally")
        src, term = self.borrow(call, call.args[0], env)
        args = [term] + [self.expr(a, init.types[q], env, hoist) for a, q in zip(call.args[1:], params[1:])]
        self.nt += 1
        tmp = f"t'{self.nt}"
        hoist.append(("call", tmp, self.mcall(call, cls, init, "", None, args)))
        return tmp, src

    def chain(self, e, env, hoist, last_args: Optional[List[str]] = None, setitem=None):
        """Translate the chain `e`; returns (term of its value or None, its type).  The views it goes through are
        temporaries; once the chain is evaluated, the object they borrow is read back from the last one (a view is only
        ever built by a `return` -- see `fresh view` in `block` --, so the last view holds the object as it is now).
        `setitem = (key node, value term)`: a final `[key] = value` on the value of `e`."""
        base, steps = self.chain_parse(e, env)
        if base[0] == "view":
            cur, src = self.view_new(base[1], env, hoist)
            t = base[1].func.id
        else:
            cur, src, t = base[1], ("var", base[1]), self.vtype(e, base[1], env)
        if src[0] == "var" and (src[1] in self.params and src[1] not in self.spec.mutates and self.cls is None):
            self.abort(e, f"the chain updates the parameter {src[1]!r}, which is not declared as updated by this function")
        last_view, last_t = (cur if self.viewish(t) else None), t
        steps = list(steps) + ([("set", setitem)] if setitem is not None else [])
        val = None
        for i, st in enumerate(steps):
            if st[0] == "set":
                k, name, sfx = self.kind(t)
                m = next((x for x in self.unit.done_methods.get(name, []) if x.name == "__setitem__"), None)
                if m is None:
                    self.abort(e, f"'__setitem__' is not a method of {name} translated before this function")
                cls = self.unit.classes[name] if k == "class" else ClassSpec(name, name, {})
                ps = self.unit.params[(name, _mkey(m))]
                args = [self.expr(st[1][0], m.types[ps[0]], env, hoist), st[1][1]]
            else:
                cls, sfx, m, argnodes = self.step_method(e, t, st)
                fake = ast.copy_location(ast.Call(func=ast.Name(id="f'", ctx=ast.Load()), args=argnodes, keywords=[]), e)
                for a in argnodes:
                    if src[0] == "var" and src[1] in _names([a]):
                        self.abort(e, f"argument of a chain step that mentions {src[1]!r}, which the chain borrows")
                args = self.method_args(fake, cls, m, sfx, env, hoist)
            if src[0] == "var" and cur == src[1]:
                recv = cur                     # the variable itself is the receiver: bound again by the call
            else:
                self.nt += 1
                recv = f"t'{self.nt}"
            has_val = bool(m.ret) and m.ret != "unit"
            self.nt += 1
            res = f"t'{self.nt}" if has_val else "_"
            hoist.append(("call", f"({recv}, {res})", self.mcall(e, cls, m, sfx, cur, args)))
            if self.viewish(t):
                last_view, last_t = recv, t
            rt = self.mret(cls.name, m, sfx) if has_val else "unit"
            if has_val and self.viewish(rt):
                cur, t, last_view, last_t = res, rt, res, rt
                val = res
            else:
                if i != len(steps) - 1:
                    self.abort(e, "a step of the chain other than the last one returns something that is not a view")
                val, t = (res if has_val else None), rt
        if last_view is not None and last_view != (src[1] if src[0] == "var" else None):
            pat = src[1] if src[0] == "var" else "'" + (self.state(e) if src[0] == "self" else self.view_term(src[1]))
            hoist.append(("let", pat, self.parent_of(last_t, last_view)))
        return val, t

    def ntype6(self, e, env) -> Optional[str]:
        """Natural type of the expression forms of the sixth extension (None: not one of them)."""
        if self.unit.seventh and self.singleton_call(e, env) is not None:
            return "tuple " + self.singleton_call(e, env)[1]
        if isinstance(e, ast.Tuple) and isinstance(e.ctx, ast.Load) and len(e.elts) in (0, 1):
            return "newtuple"
        if isinstance(e, ast.BinOp) and isinstance(e.op, ast.Add) and isinstance(e.right, ast.Tuple) \
                and is_tuple(self.ntype(e.left, env)):
            return self.ntype(e.left, env)
        if isinstance(e, ast.Subscript) and isinstance(e.ctx, ast.Load):
            if self.is_cursor(e.value, env) and not isinstance(e.slice, ast.Slice):
                return self.celltype()
            if self.chain_parse(e, env) is not None:
                return self.chain_type(e, env)
            try_t = self.ntype(e.value, env) if isinstance(e.value, ast.Name) and e.value.id in env else None
            if try_t is not None and is_tuple(try_t) and isinstance(e.slice, ast.Slice):
                return try_t
        if isinstance(e, ast.Compare) and len(e.ops) == 1 and isinstance(e.ops[0], (ast.Is, ast.IsNot)):
            return "bool"
        if isinstance(e, ast.Dict) and self.unit.nodedicts and (len(e.keys) != 1 or None in e.keys):
            return "newdict"
        if isinstance(e, ast.Attribute) and isinstance(e.ctx, ast.Load) and self.unit.opaque_attrs and not (
                isinstance(e.value, ast.Name) and (e.value.id not in env or e.value.id == "self")):
            try:
                vt = self.ntype(e.value, env)
            except TranslatorAbort:
                return None
            if e.attr in self.unit.opaque_attrs.get(vt, {}):
                return self.unit.opaque_attrs[vt][e.attr][0]
        return None

    def call_type6(self, e, env) -> Optional[str]:
        f = e.func
        if self.product_call(e):
            parts = [self.seq_items(e, a, env, [])[1] for a in e.args]
            return "list (pair " + " ".join(x if " " not in x else "(" + x + ")" for x in parts) + ")"
        uc = self.updating_call(e)
        if uc is not None:
            return uc[0].ret
        if isinstance(f, ast.Name) and f.id not in self.spec.types:
            if f.id in getattr(self.unit, "records", ()):
                return f.id
            if f.id in self.unit.markers and not e.args:
                return f.id
            if f.id == "any" and len(e.args) == 1 and isinstance(e.args[0], ast.GeneratorExp):
                return "bool"
            if self.count_idiom(e) is not None:
                return "N"
            if f.id == "defaultdict" and self.unit.cellspec and len(e.args) == 1 and isinstance(e.args[0], ast.Lambda):
                return self.celltype()
            if f.id == "len" and len(e.args) == 1 and isinstance(e.args[0], ast.Name) and e.args[0].id in env \
                    and is_tuple(self.ntype(e.args[0], env)):
                return "N"
        return self.chain_type(e, env)

    def expr6(self, e, want: str, env, hoist) -> Optional[str]:
        """Conversions of the sixth extension at a place where a value of type `want` is expected (None: none applies)."""
        if is_tuple(want) and isinstance(e, ast.Tuple) and isinstance(e.ctx, ast.Load) \
                and not any(isinstance(x, ast.Starred) for x in e.elts):
            out = f"(@nil ({self.ct(arg_of(want))}))" if not e.elts else "nil"
            for item in reversed([self.expr(x, arg_of(want), env, hoist) for x in e.elts]):     # evaluated left to right
                out = f"(cons {item} {out})"
            return out
        if isinstance(e, ast.Dict) and self.kind(want)[0] == "nodedict" and (len(e.keys) != 1 or None in e.keys):
            # {k: v, .., **d, ..}: the stores in order (k: v, then the items of d, ..) -- the list of the stores, newest first;
            # d (the same kind of dictionary) is itself such a list: looking a key up sees d's stores before the earlier ones
            tree, vt, _ = self.unit.nodedicts[want]
            parts = []
            for k, v in zip(e.keys, e.values):
                if k is None:
                    if self.ntype(v, env) != want:
                        self.abort(e, f"**<value of type {self.ntype(v, env)}> in a dictionary of type {want}")
                    parts.append(self.expr(v, want, env, hoist))
                else:
                    if self.ntype(k, env) != tree:
                        self.abort(e, f"key of a {want} that is not a node of a {tree}")
                    kt = self.raw(k, tree, env, hoist)
                    parts.append(f"(cons ({self.unit.q(tree)}{tree}_id {kt}, {self.expr(v, vt, env, hoist)}) nil)")
            if not parts:
                return f"(@nil ({self.unit.ident_of(tree)} * {self.ct(vt)}))"
            return "(" + " ++ ".join(reversed(parts)) + ")"
        ct = self.celltype()
        if ct is not None and want == ct:
            t = self.ntype(e, env)
            if t == "none":
                return f"{self.unit.q(ct)}{ct}_None"
            ent = self.unit.cellspec["entry"]
            if t in (ent, "new " + ent):
                return f"({self.unit.q(ct)}{ct}_Entry {self.expr(e, ent, env, hoist)})"
        if self.kind(want)[0] == "union" and isinstance(e, ast.Name) and e.id == "self" and self.cls is not None \
                and self.cls.name in self.unit.unions[want]:
            return f"({self.unit.q(want)}{want}_{self.cls.name} {self.state(e)})"
        if self.kind(want)[0] == "union":
            t = self.ntype(e, env)
            name = t[4:] if t.startswith("new ") else t
            if name in self.unit.unions[want]:
                return f"({self.unit.q(want)}{want}_{name} {self.expr(e, name, env, hoist)})"
        if want == "bool" and not isinstance(e, (ast.Constant, ast.Compare, ast.BoolOp, ast.UnaryOp)):
            t = self.ntype(e, env)
            if is_tuple(t):                                   # truthiness of a tuple
                self.need("is_empty")
                return f"(negb (is_empty {self.raw(e, t, env, hoist)}))"
        if is_option(want) and isinstance(e, ast.Call) and isinstance(e.func, ast.Name) and e.func.id in self.unit.datas \
                and e.func.id not in self.spec.types:
            return f"(Some {self.expr(e, arg_of(want), env, hoist)})"      # a newly built (immutable) value where an optional one is expected
        if self.unit.unwrap_none and isinstance(e, ast.Attribute) and not is_option(want) and want != "bool":
            try:
                t = self.canon(self.ntype(e, env))
            except TranslatorAbort:
                t = ""
            if is_option(t) and (arg_of(t) == want or (arg_of(t), want) in self.unit.coercions):
                # x.f, a field that may hold None, where a value is needed: the error NoneValue when it is None (the
                # translation does not follow what Python would do with the None: outside the tie)
                self.need("NoneValue")
                self.nt += 1
                tmp = f"t'{self.nt}"
                hoist.append(("unwrap", tmp, self.raw(e, t, env, hoist), "NoneValue"))
                if arg_of(t) == want:
                    return tmp
                return "(" + self.unit.coercions[(arg_of(t), want)].format(tmp) + ")"
        if (self.ntype_quiet(e, env), want) in self.unit.coercions:
            t = self.ntype(e, env)
            return "(" + self.unit.coercions[(t, want)].format(self.raw(e, t, env, hoist)) + ")"
        if is_option(want) and (self.ntype_quiet(e, env), arg_of(want)) in self.unit.coercions:
            return f"(Some {self.expr(e, arg_of(want), env, hoist)})"
        return None

    def ntype_quiet(self, e, env) -> Optional[str]:
        if not self.unit.coercions:
            return None
        try:
            return self.ntype(e, env)
        except TranslatorAbort:
            return None

    def raw6(self, e, t: str, env, hoist) -> Optional[str]:
        if self.unit.seventh and self.singleton_call(e, env) is not None:
            # (seventh extension) x.m(), declared by the driver (`Unit.singleton_methods`) to yield the object x itself and
            # nothing else: the one-item sequence [x]
            return f"(cons {self.singleton_call(e, env)[0]} nil)"
        if isinstance(e, ast.BinOp) and isinstance(e.op, ast.Add) and is_tuple(t) and isinstance(e.right, ast.Tuple):
            return f"({self.expr(e.left, t, env, hoist)} ++ {self.expr(e.right, t, env, hoist)})"
        if isinstance(e, ast.Subscript) and isinstance(e.ctx, ast.Load):
            if self.is_cursor(e.value, env) and not isinstance(e.slice, ast.Slice):
                # c[k], c a reference to a dictionary of the nested table: reading may give the defaultdict the key
                c, root = e.value.id, self.cursor_root(e, e.value.id)
                key = self.expr(e.slice, self.unit.cellspec["key_type"], env, hoist)
                hoist.append(("call", root, self.cell_call('touch', f"{c} {key} {root}")))
                self.nt += 1
                hoist.append(("call", f"t'{self.nt}", self.cell_call('get', f"{c} {key} {root}")))
                return f"t'{self.nt}"
            if self.chain_parse(e, env) is not None:
                return self.chain(e, env, hoist)[0]
            if isinstance(e.slice, ast.Slice) and is_tuple(t) and isinstance(e.value, ast.Name):
                sl = e.slice
                if sl.step is None and sl.upper is None and sl.lower is not None and self.ntype(sl.lower, env) in ("N", "lit"):
                    return f"(skipn (N.to_nat {self.expr(sl.lower, 'N', env, hoist)}) {e.value.id})"
                if sl.step is None and sl.lower is None and isinstance(sl.upper, ast.UnaryOp) and isinstance(sl.upper.op, ast.USub) \
                        and isinstance(sl.upper.operand, ast.Constant) and sl.upper.operand.value == 1:
                    return f"(removelast {e.value.id})"       # xs[:-1]: without the last item (empty stays empty)
                self.abort(e, "slice of a tuple other than xs[k:] / xs[:-1]")
        if isinstance(e, ast.Attribute) and isinstance(e.ctx, ast.Load) and self.unit.opaque_attrs \
                and self.ntype6(e, env) is not None and not self.enum_member(e):
            vt = self.ntype(e.value, env)
            if e.attr in self.unit.opaque_attrs.get(vt, {}):
                return f"({self.unit.opaque_attrs[vt][e.attr][1]} {self.raw(e.value, vt, env, hoist)})"
        if isinstance(e, ast.Compare) and len(e.ops) == 1 and isinstance(e.ops[0], (ast.Is, ast.IsNot)):
            c = e.comparators[0]
            if not (isinstance(c, ast.Constant) and c.value is None):
                self.abort(e, "'is' other than 'is None' / 'is not None'")
            lt = self.ntype(e.left, env)
            if lt == self.celltype():
                term = f"({self.cell_fn('is_None')} {self.expr(e.left, lt, env, hoist)})"
            elif is_option(lt):
                term = f"(match {self.raw(e.left, lt, env, hoist)} with None => true | Some _ => false end)"
            else:
                self.abort(e, f"'is None' on a value of type {lt}")
            return f"(negb {term})" if isinstance(e.ops[0], ast.IsNot) else term
        return None

    def call6(self, e, t: str, env, hoist) -> Optional[str]:
        f = e.func
        if self.product_call(e):
            # product(xs, ys) as a value: the list of the pairs, in the order of itertools.product
            a, b = [self.seq_items(e, x, env, hoist)[0] for x in e.args]
            return f"(list_prod {a} {b})"
        uc = self.updating_call(e)
        if uc is not None:
            # f(..), f updating parameters that hold objects: the variables passed are bound again from what it returns.  Inside
            # an expression the calls are hoisted in evaluation order; a variable the call updates may only occur in the
            # statement as such an argument (or as the base of a chain): each occurrence then sees what the previous ones did
            callee, params, mut, rec = uc
            if len(params) != len(e.args) or any(isinstance(a, ast.Starred) for a in e.args):
                self.abort(e, f"{f.id}() called with {len(e.args)} arguments")
            bound = {}
            for a, q in zip(e.args, params):
                if q in mut:
                    if not isinstance(a, ast.Name) or a.id not in env or a.id in bound.values() \
                            or self.spec.types.get(a.id) != callee.types[q] or a.id in self.fieldvars \
                            or (a.id in self.params and a.id not in self.spec.mutates):
                        self.abort(e, f"the argument for {q!r} is updated by {f.id}(..): a local variable (or a parameter declared "
                                      "as updated) of the same type, passed once")
                    bound[q] = a.id
            if rec:
                a = e.args[self.params.index(self.spec.rec_on)]
                if not (isinstance(a, ast.Name) and a.id in self.subtrees):
                    self.abort(e, f"recursive call whose argument for {self.spec.rec_on!r} is not a child of it")
                self.in_rec = True
            args = [self.expr(a, callee.types[q], env, hoist) for a, q in zip(e.args, params)]
            self.uses_vars |= self.unit.method_uses_vars.get(f.id, set())
            if not callee.ret or callee.ret == "unit":
                self.abort(e, f"{f.id}(..) returns nothing and is used as a value")
            self.nt += 1
            hoist.append(("call", "(" + ", ".join([bound[q] for q in mut] + [f"t'{self.nt}"]) + ")",
                          " ".join([self.prefix + (callee.alias or callee.name)] + args)))
            return f"t'{self.nt}"
        if isinstance(f, ast.Name) and f.id not in self.spec.types:
            if f.id in getattr(self.unit, "records", ()):
                # C(a, b), C a frozen dataclass kept as a Record of this file: every field positionally
                cls = self.unit.classes[f.id]
                if len(e.args) != len(cls.fields) or any(isinstance(a, ast.Starred) for a in e.args) or e.keywords:
                    self.abort(e, f"{f.id}(..) is only translated with every field given as a positional argument")
                args = [self.expr(a, ft, env, hoist) for a, ft in zip(e.args, cls.fields.values())]
                return f"(mk_{cls.short} {' '.join(args)})"
            if f.id in self.unit.markers and not e.args:
                return f"{self.unit.q(f.id)}mk_{f.id}"
            if self.count_idiom(e) is not None:
                # sum(1 for _ in xs): the number of items xs yields
                v = self.count_idiom(e)
                tr = self.traverse_of(v, env)
                if tr is not None:
                    self.unit.traversals.add((tr[0], tr[1]))
                    items = f"({tr[0]}_{tr[1]} {self.expr(tr[2], tr[0], env, hoist)})"
                else:
                    items, _ = self.seq_items(e, v, env, hoist)
                return f"(N.of_nat (length {items}))"
            if f.id == "any" and len(e.args) == 1 and isinstance(e.args[0], ast.GeneratorExp):
                # any(c for x in xs): some item of the list xs satisfies c (c cannot raise)
                g = e.args[0].generators[0] if len(e.args[0].generators) == 1 else None
                if g is None or g.is_async or g.ifs or not isinstance(g.target, ast.Name) or not isinstance(g.iter, ast.Name) \
                        or g.iter.id not in env or not self.seq(self.ntype(g.iter, env)) or self.unit.rebinds("any"):
                    self.abort(e, "any(..) other than any(<condition> for x in <sequence variable>)")
                var, et = g.target.id, arg_of(self.ntype(g.iter, env))
                if self.ty(e, var) != et or var in env:
                    self.abort(e, f"comprehension variable {var!r} must be declared {et} and used nowhere else")
                sub: list = []
                c = self.expr(e.args[0].elt, "bool", env + [var], sub)
                if sub:
                    self.abort(e, "condition of any(..) that can raise")
                return f"(existsb (fun {self.binder(e, var)} => {c}) {g.iter.id})"
            if f.id == "defaultdict" and self.unit.cellspec and len(e.args) == 1 and isinstance(e.args[0], ast.Lambda):
                # defaultdict(lambda: f(x)), f the declared factory, x a local variable holding an immutable value: an empty
                # dictionary that remembers x (the factory is called when a missing key is read)
                lam, c = e.args[0], self.unit.cellspec
                a = lam.args
                b = lam.body
                if a.args or a.vararg or a.kwarg or a.kwonlyargs or a.posonlyargs or not (
                        isinstance(b, ast.Call) and isinstance(b.func, ast.Name) and b.func.id == c["factory"]
                        and b.func.id not in self.spec.types and len(b.args) == 1 and not b.keywords
                        and isinstance(b.args[0], ast.Name) and b.args[0].id in env) \
                        or self.ntype(b.args[0], env) != c["env"] or self.seq(c["env"]) and is_list(c["env"]):
                    self.abort(e, f"defaultdict(..) other than defaultdict(lambda: {c['factory']}(<variable of type {c['env']}>))")
                x = b.args[0].id
                stores = [n for n in ast.walk(self.fn) if isinstance(n, ast.Name) and n.id == x and not isinstance(n.ctx, ast.Load)]
                if len(stores) + (x in self.params) != 1:
                    self.abort(e, f"the variable {x!r} captured by the factory is assigned more than once")
                return f"({self.unit.q(c['name'])}{c['name']}_dict {x} nil)"
            if f.id == "len" and len(e.args) == 1 and isinstance(e.args[0], ast.Name) and e.args[0].id in env \
                    and is_tuple(self.ntype(e.args[0], env)):
                return f"(N.of_nat (length {e.args[0].id}))"
        if self.chain_parse(e, env) is not None:
            val, _ = self.chain(e, env, hoist)
            if val is None:
                self.abort(e, "call of a method that returns nothing, used as a value")
            return val
        return None

    # ---------------------------------------------------------------- sixth extension: statements
    def plain_fstring(self, a) -> bool:
        """An f-string whose interpolated expressions are names, attributes, len(..) and sums of them: building the message
        of an exception with it cannot raise (the message itself is not modelled)."""
        if not (self.tables() and isinstance(a, ast.JoinedStr)):
            return False
        for v in a.values:
            if isinstance(v, ast.Constant):
                continue
            if not isinstance(v, ast.FormattedValue) or v.format_spec is not None:
                return False
            for n in ast.walk(v.value):
                if isinstance(n, ast.Call) and not (isinstance(n.func, ast.Name) and n.func.id == "len" and len(n.args) == 1
                                                    and not n.keywords):
                    return False
                if not isinstance(n, (ast.Call, ast.Name, ast.Attribute, ast.BinOp, ast.Add, ast.Constant, ast.Load)):
                    return False
        return True

    # ------------------------------------------------------------ seventh extension (translator/spfs_gen.py)
    def opt_field(self, e, env):
        """(named tuple, type of the field) when `e` is `<v>.g` with `<v>` an attribute access of the declared type
        `option <named tuple>` and g a field of that named tuple (seventh extension); else None."""
        if not (self.unit is not None and self.unit.seventh and self.tables() and isinstance(e, ast.Attribute)
                and isinstance(e.ctx, ast.Load) and isinstance(e.value, ast.Attribute)):
            return None
        try:
            vt = self.canon(self.ntype(e.value, env))
        except TranslatorAbort:
            return None
        if not is_option(vt):
            return None
        k, name, sfx = self.kind(arg_of(vt))
        if k != "data" or sfx or e.attr not in self.unit.datas[name].fields:
            return None
        return name, self.unit.datas[name].fields[e.attr]

    def definite7(self, stmts) -> set:
        """The variables every path through `stmts` that reaches their end has assigned with a plain `x = e` (a branch that
        cannot reach its end -- it ends in return / raise / continue / break -- imposes nothing; loops count for nothing)."""
        out = set()
        for b in stmts:
            if isinstance(b, ast.Assign) and len(b.targets) == 1 and isinstance(b.targets[0], ast.Name):
                out.add(b.targets[0].id)
            elif isinstance(b, ast.If):
                ends = lambda blk: bool(blk) and isinstance(blk[-1], (ast.Return, ast.Raise, ast.Continue, ast.Break))
                x, y = self.definite7(b.body), self.definite7(b.orelse)
                out |= y if ends(b.body) and not ends(b.orelse) else x if ends(b.orelse) and not ends(b.body) else x & y
        return out

    def expr7(self, e, want: str, env, hoist) -> Optional[str]:
        """Expression forms of the seventh extension inside the body of a local function / lambda whose declared result is
        a LIST of type `want`: the driver's declaration of that function type states that the receiver only ever iterates
        the result (`allowed_species` / `allowed_syntenies`: `product(..)` of the two), so that any Python iterable yielding
        the same items in the same order (a tuple, a range, a generator) is that list.  None: none applies."""
        if not is_list(want) or not getattr(self, "lam7", False):
            return None                            # only inside the body of a local function / lambda (`closure`)
        et = arg_of(want)
        if isinstance(e, ast.IfExp):
            # a if c else b: c first, then only the branch taken -- as a Coq `if`, valid because nothing here can raise
            sub: list = []
            c = self.expr(e.test, "bool", env, sub)
            a, b = self.expr(e.body, want, env, sub), self.expr(e.orelse, want, env, sub)
            if sub:
                self.abort(e, "conditional expression with a part that can raise")
            return f"(if {c} then {a} else {b})"
        if isinstance(e, ast.Tuple) and isinstance(e.ctx, ast.Load) and not any(isinstance(x, ast.Starred) for x in e.elts):
            # (e1, .., en) where a list is expected: the items, left to right
            out = f"(@nil ({self.ct(et)}))" if not e.elts else "nil"
            for item in reversed([self.expr(x, et, env, hoist) for x in e.elts]):
                out = f"(cons {item} {out})"
            return out
        if isinstance(e, ast.Call) and isinstance(e.func, ast.Name) and e.func.id == "range" and "range" not in self.spec.types \
                and not self.unit.rebinds("range") and len(e.args) == 1 and not e.keywords and et == "N" \
                and self.ntype(e.args[0], env) in ("N", "lit"):
            # range(n), n >= 0: the numbers 0 .. n-1 in order
            return f"(map N.of_nat (seq 0 (N.to_nat {self.expr(e.args[0], 'N', env, hoist)})))"
        if isinstance(e, ast.List) and len(e.elts) == 1 and isinstance(e.elts[0], ast.Subscript) \
                and not isinstance(e.elts[0].slice, ast.Slice) and self.unit.lookup_lists:
            # [d[k]], d a dictionary keyed by nodes, where the driver declares (`Unit.lookup_lists`) a TOTAL Coq function for
            # this display: a DEVIATION from Python, where d[k] raises KeyError when k is not a key -- the driver documents
            # what its function answers then, and the proofs have to show that case unreachable
            try:
                dt = self.ntype(e.elts[0].value, env)
            except TranslatorAbort:
                dt = None
            if dt is not None and self.kind(dt)[0] == "nodedict" and (dt, want) in self.unit.lookup_lists:
                tree = self.unit.nodedicts[dt][0]
                if self.ntype(e.elts[0].slice, env) != tree:
                    self.abort(e, f"key of a {dt} that is not a node of a {tree}")
                d = self.expr(e.elts[0].value, dt, env, hoist)
                k = self.raw(e.elts[0].slice, tree, env, hoist)
                return "(" + self.unit.lookup_lists[(dt, want)].format(d=d, k=k) + ")"
        tr = self.traverse_of(e, env)
        if tr is not None and tr[0] == et:
            # t.traverse(<strategy>): the nodes of t in that order
            self.unit.traversals.add((tr[0], tr[1]))
            return f"({tr[0]}_{tr[1]} {self.expr(tr[2], tr[0], env, hoist)})"
        return None

    def lambda_args(self, s, env):
        """`return f(a, .., lambda ..: e, ..)`, f a function of the unit whose parameters in those positions are declared
        of a function type: (call, [(position, parameter of f)]); else None."""
        if not (isinstance(s, ast.Return) and isinstance(s.value, ast.Call) and isinstance(s.value.func, ast.Name)
                and s.value.func.id in self.unit.functions and s.value.func.id not in self.spec.types
                and not s.value.keywords and any(isinstance(a, ast.Lambda) for a in s.value.args)):
            return None
        f = s.value.func.id
        callee, params = self.unit.functions[f], self.unit.params[f]
        if len(params) != len(s.value.args):
            self.abort(s, f"{f}() called with {len(s.value.args)} arguments")
        out = []
        for i, (a, q) in enumerate(zip(s.value.args, params)):
            if isinstance(a, ast.Lambda):
                if "->" not in callee.types[q]:
                    self.abort(a, f"lambda passed for {q!r}, which is not declared of a function type")
                out.append((i, q))
        return s.value, out

    def singleton_call(self, e, env):
        """(x, class) when `e` is `x.m()` with x a variable of a class type and (class, m) in `Unit.singleton_methods`."""
        if not (self.unit is not None and self.unit.seventh and isinstance(e, ast.Call) and isinstance(e.func, ast.Attribute)
                and isinstance(e.func.value, ast.Name) and not e.args and not e.keywords and e.func.value.id in env
                and e.func.value.id != "self"):
            return None
        t = self.spec.types.get(e.func.value.id, "")
        if (t, e.func.attr) in self.unit.singleton_methods and self.kind(t)[0] == "class":
            return e.func.value.id, t
        return None

    def edict_item(self, e, env):
        """(d, declared value type) when `e` is `d[k]` with d a LOCAL dictionary keyed by elements; else None."""
        if isinstance(e, ast.Subscript) and not isinstance(e.slice, ast.Slice) and self.edict_of(e.value, env) is not None:
            d = e.value.id
            if d in self.fieldvars or (d in self.params and d not in self.spec.mutates):
                self.abort(e, f"update of the parameter / attribute {d!r}, which is not declared as updated by this function")
            return d, self.unit.elemdicts[self.spec.types[d]]
        return None

    def zip_slices(self, a, env):
        """`zip(xs[0:-1], xs[1:])` / `zip(xs[:-1], xs[1:])`, xs a list variable: (xs, its type); else None."""
        if not (isinstance(a, ast.Call) and isinstance(a.func, ast.Name) and a.func.id == "zip" and "zip" not in self.spec.types
                and not self.unit.rebinds("zip") and len(a.args) == 2 and not a.keywords):
            return None
        l, r = a.args
        lit = lambda n, v: (n is None and v is None) or (isinstance(n, ast.Constant) and type(n.value) is int and n.value == v) \
            or (v is not None and v < 0 and isinstance(n, ast.UnaryOp) and isinstance(n.op, ast.USub)
                and isinstance(n.operand, ast.Constant) and type(n.operand.value) is int and n.operand.value == -v)
        ok = all(isinstance(x, ast.Subscript) and isinstance(x.slice, ast.Slice) and x.slice.step is None
                 and isinstance(x.value, ast.Name) and x.value.id in env for x in (l, r)) and l.value.id == r.value.id \
            and (lit(l.slice.lower, 0) or l.slice.lower is None) and lit(l.slice.upper, -1) \
            and lit(r.slice.lower, 1) and r.slice.upper is None
        if not ok:
            return None
        t = self.ntype(l.value, env)
        return (l.value.id, t) if is_list(t) else None

    def field_method_stmt(self, s, env):
        """`xs[i].f.m(args)` as a statement (see `block7`): (xs, named tuple, f, class of the field, instance, method, call)."""
        if not (isinstance(s, ast.Expr) and isinstance(s.value, ast.Call) and isinstance(s.value.func, ast.Attribute)
                and isinstance(s.value.func.value, ast.Attribute) and isinstance(s.value.func.value.value, ast.Subscript)
                and isinstance(s.value.func.value.value.value, ast.Name) and not isinstance(s.value.func.value.value.slice, ast.Slice)):
            return None
        x = s.value.func.value.value.value.id
        xt = self.spec.types.get(x, "")
        if x not in env or not is_tuple(xt) or arg_of(xt) not in self.unit.datas:
            return None
        cname, f, mname = arg_of(xt), s.value.func.value.attr, s.value.func.attr
        if x in self.params or x in self.fieldvars:
            self.abort(s, f"update of an object held by the parameter / attribute {x!r}")
        if f not in self.unit.datas[cname].fields:
            self.abort(s, f"{cname} has no field {f!r}")
        k, name, sfx = self.kind(self.unit.datas[cname].fields[f])
        if k != "class":
            self.abort(s, f"method call on the field {f!r} of a {cname}, which does not hold an object of a translated class")
        m = next((q for q in self.unit.done_methods.get(name, []) if q.name == mname), None)
        if m is None or (m.ret and m.ret != "unit"):
            self.abort(s, f"{mname!r} is not a translated method of {name} that returns nothing")
        if self.ntype(s.value.func.value.value.slice, env) not in ("N", "lit"):
            self.abort(s, "index that is not of type N")
        if x in _names(s.value.args):
            self.abort(s, f"argument that mentions {x!r}, an item of which is being updated")
        return x, cname, f, self.unit.classes[name], sfx, m, s.value

    def item_field_reads(self, s, env):
        """The distinct `xs[<int literal>].f` of the statement `s`, xs a local tuple of named tuples and f a field that holds an
        object of a translated class, in the order of their first occurrence: [(xs, i, f, named tuple)]."""
        out = []

        def walk(n):
            if isinstance(n, ast.Attribute) and isinstance(n.value, ast.Subscript) and isinstance(n.value.value, ast.Name) \
                    and isinstance(n.value.slice, ast.Constant) and type(n.value.slice.value) is int and n.value.slice.value >= 0 \
                    and isinstance(n.ctx, ast.Load):
                x = n.value.value.id
                xt = self.spec.types.get(x, "")
                if x in env and x not in self.params and x not in self.fieldvars and is_tuple(xt) and arg_of(xt) in self.unit.datas \
                        and n.attr in self.unit.datas[arg_of(xt)].fields \
                        and self.kind(self.unit.datas[arg_of(xt)].fields[n.attr])[0] == "class":
                    key = (x, n.value.slice.value, n.attr, arg_of(xt))
                    if key not in out:
                        out.append(key)
                    return
            for c in ast.iter_child_nodes(n):
                walk(c)
        walk(s)
        return out

    def count_idiom(self, e):
        """The iterated expression when `e` is `sum(1 for _ in <expression>)` (seventh extension); else None."""
        if not (self.unit is not None and self.unit.seventh and isinstance(e, ast.Call) and isinstance(e.func, ast.Name)
                and e.func.id == "sum" and "sum" not in self.spec.types and not self.unit.rebinds("sum") and len(e.args) == 1
                and not e.keywords and isinstance(e.args[0], ast.GeneratorExp)):
            return None
        g = e.args[0]
        if len(g.generators) == 1 and not g.generators[0].ifs and not g.generators[0].is_async \
                and isinstance(g.generators[0].target, ast.Name) and g.generators[0].target.id == "_" \
                and isinstance(g.elt, ast.Constant) and type(g.elt.value) is int and g.elt.value == 1:
            return g.generators[0].iter
        return None

    def strip_tqdm(self, s, env):
        """`for .. in tqdm(xs, desc=.., total=.., ascii=.., leave=..)`: tqdm yields the items of xs in order (a progress bar:
        its output is not modelled); the keyword values are literals, variables, or expressions the translator proves
        unable to raise (they are evaluated and dropped).  Rewrites `s.iter` to `xs`."""
        it = s.iter
        if not (isinstance(it, ast.Call) and isinstance(it.func, ast.Name) and it.func.id == "tqdm" and "tqdm" not in self.spec.types
                and self.unit.tqdm_ok and len(it.args) == 1 and not isinstance(it.args[0], ast.Starred)):
            return
        for kw in it.keywords:
            if kw.arg not in ("desc", "total", "ascii", "leave"):
                self.abort(s, f"tqdm(.., {kw.arg}=..) outside the handled subset")
            if isinstance(kw.value, ast.Constant):
                continue
            sub: list = []
            self.expr(kw.value, "N", env, sub)
            if sub:
                self.abort(s, f"tqdm(.., {kw.arg}=<expression that can raise>)")
        s.iter = it.args[0]

    def make_idiom(self, s, env):
        if not (isinstance(s, ast.Assign) and len(s.targets) == 1 and isinstance(s.targets[0], ast.Name)
                and is_tuple(self.spec.types.get(s.targets[0].id, "")) and isinstance(s.value, ast.Call)
                and isinstance(s.value.func, ast.Name) and s.value.func.id == "tuple" and "tuple" not in self.spec.types
                and len(s.value.args) == 1 and not s.value.keywords and isinstance(s.value.args[0], ast.GeneratorExp)):
            return None
        x, cname = s.targets[0].id, arg_of(self.spec.types[s.targets[0].id])
        if cname not in self.unit.datas or self.unit.rebinds("tuple") or x in self.params or x in self.fieldvars:
            return None

        def over_range(g, count_ok):
            return len(g.generators) == 1 and not g.generators[0].ifs and not g.generators[0].is_async \
                and isinstance(g.generators[0].target, ast.Name) and g.generators[0].target.id == "_" \
                and isinstance(g.generators[0].iter, ast.Call) and isinstance(g.generators[0].iter.func, ast.Name) \
                and g.generators[0].iter.func.id == "range" and "range" not in self.spec.types \
                and len(g.generators[0].iter.args) == 1 and not g.generators[0].iter.keywords and count_ok(g.generators[0].iter.args[0])
        outer = s.value.args[0]
        if not over_range(outer, lambda c: isinstance(c, ast.Constant) and type(c.value) is int and 0 <= c.value < 100):
            return None
        k = outer.generators[0].iter.args[0].value
        mk = outer.elt
        fields_len = lambda c: isinstance(c, ast.Call) and isinstance(c.func, ast.Name) and c.func.id == "len" \
            and "len" not in self.spec.types and len(c.args) == 1 and isinstance(c.args[0], ast.Attribute) \
            and c.args[0].attr == "_fields" and isinstance(c.args[0].value, ast.Name) and c.args[0].value.id == cname
        if not (isinstance(mk, ast.Call) and isinstance(mk.func, ast.Attribute) and mk.func.attr == "_make"
                and isinstance(mk.func.value, ast.Name) and mk.func.value.id == cname and cname not in self.spec.types
                and len(mk.args) == 1 and not mk.keywords and isinstance(mk.args[0], ast.GeneratorExp)
                and over_range(mk.args[0], fields_len)):
            return None
        call = mk.args[0].elt
        oc = self.obj_call(call, env) if isinstance(call, ast.Call) and not call.args and not call.keywords else None
        ftypes = set(self.unit.datas[cname].fields.values())
        if oc is None or not (oc[3].pure and oc[3].fresh) or len(ftypes) != 1 or oc[0] not in env:
            self.abort(s, f"{cname}._make(..) of something other than <object>.<pure method returning a new object>() for "
                          "fields of one type")
        return x, cname, call, k

    def block7(self, s, rest, env, ctx, h) -> Optional[List[str]]:
        """Statements of the seventh extension; None when `s` is none of them."""
        if isinstance(s, ast.Return) and isinstance(s.value, ast.Lambda) and "->" in (self.spec.ret or "") and self.tables():
            # return lambda a, b: e  ==  def lam'(a, b): return e; return lam'
            name = "lambda_"
            if name in self.spec.types:
                self.abort(s, "two returned lambdas in one function")
            self.spec.types[name] = self.spec.ret
            fd = ast.copy_location(ast.FunctionDef(name=name, args=s.value.args, decorator_list=[], returns=None,
                                                   body=[ast.copy_location(ast.Return(value=s.value.body), s)]), s)
            self.fn.body.append(fd)                # (the checks of `closure` walk the enclosing function)
            ret = ast.copy_location(ast.Return(value=ast.copy_location(ast.Name(id=name, ctx=ast.Load()), s)), s)
            return self.closure(fd, [ret] + rest, env, ctx)
        la = self.lambda_args(s, env) if self.tables() else None
        if la is not None:
            # return f(.., lambda a, b: e, ..)  ==  def lambda_i(a, b): return e  (one per lambda, in argument order: a lambda
            # expression only builds a function, so defining them first changes nothing); return f(.., lambda_i, ..)
            call, lams = la
            callee = self.unit.functions[call.func.id]
            defs, args = [], list(call.args)
            for n_, (i, q) in enumerate(lams):
                name = f"lambda_{n_ + 1}"
                if name in self.spec.types or name in env:
                    self.abort(s, f"the name {name!r} is in use")
                self.spec.types[name] = callee.types[q]
                lam = call.args[i]
                fd = ast.copy_location(ast.FunctionDef(name=name, args=lam.args, decorator_list=[], returns=None,
                                                       body=[ast.copy_location(ast.Return(value=lam.body), lam)]), lam)
                self.fn.body.append(fd)            # (the checks of `closure` walk the enclosing function)
                defs.append(fd)
                args[i] = ast.copy_location(ast.Name(id=name, ctx=ast.Load()), lam)
            ret = ast.copy_location(ast.Return(value=ast.copy_location(
                ast.Call(func=call.func, args=args, keywords=[]), call)), s)
            return self.block(defs + [ret] + rest, env, ctx)
        if isinstance(s, ast.Assign) and len(s.targets) == 1 and isinstance(s.targets[0], ast.Name) \
                and "->" in self.spec.types.get(s.targets[0].id, "") and isinstance(s.value, ast.Call) \
                and isinstance(s.value.func, ast.Name) and s.value.func.id in self.unit.functions \
                and s.value.func.id not in self.spec.types \
                and self.unit.functions[s.value.func.id].ret == self.spec.types[s.targets[0].id]:
            # x = f(args), f a function of the unit returning a function: x is that (immutable) function; assigned once
            x = s.targets[0].id
            stores = [n for n in ast.walk(self.fn) if isinstance(n, ast.Name) and n.id == x and not isinstance(n.ctx, ast.Load)]
            if len(stores) != 1 or x in self.params or x in env:
                self.abort(s, f"{x!r}, declared of a function type, is assigned more than once")
            term = self.expr(s.value, self.spec.types[x], env, h)
            return self.hoisted(h, [f"let {x} := {term} in"] + self.block(rest, env + [x], ctx), ctx)
        made = self.make_idiom(s, env)
        if made is not None:
            # xs = tuple(C._make(x.m() for _ in range(len(C._fields))) for _ in range(k)): k named tuples whose fields are
            # all the result of x.m() -- m a method that only reads x, takes no argument and returns a new object: every
            # evaluation gives the same value (or the same error), so that it is evaluated once here
            x, cname, call, k = made
            nf = len(self.unit.datas[cname].fields)
            term = self.expr(call, list(self.unit.datas[cname].fields.values())[0], env, h)
            rec = "(" + " ".join([f"mk_{cname}"] + [term] * nf) + ")"
            env2 = [v for v in env if v != x + "!"]
            return self.hoisted(h, [f"let {x} := (repeat {rec} {k}) in"] + self.block(rest, env2 + [x] * (x not in env2), ctx), ctx)
        if isinstance(s, ast.Assign) and len(s.targets) == 1 and isinstance(s.targets[0], ast.Name) \
                and isinstance(s.value, ast.Subscript) and not isinstance(s.value.slice, ast.Slice) \
                and isinstance(s.value.value, ast.Attribute) and s.value.value.attr == "children" \
                and isinstance(s.value.value.value, ast.Name) and s.value.value.value.id in env \
                and self.kind(self.spec.types.get(s.value.value.value.id, ""))[0] == "tree":
            # x = t.children[i], t a node of a binary tree (no or exactly two children), i a non-negative int: IndexError on a
            # leaf and for i >= 2
            t, x = s.value.value.value.id, s.targets[0].id
            tt = self.ty(s, t)
            if self.ty(s, x) != tt or x in self.params or x in self.fieldvars or x == t or self.spec.rec_on:
                self.abort(s, f"{x!r} must be a local declared {tt} (in a function that is not structurally recursive)")
            if self.ntype(s.value.slice, env) not in ("N", "lit"):
                self.abort(s, "index of .children that is not of type N")
            i = self.expr(s.value.slice, "N", env, h)
            qt = self.unit.q(tt) + tt
            sel = f"match {t} with {qt}_leaf _ => None | {qt}_node _ a' b' => " \
                  f"if N.eqb {i} 0%N then Some a' else if N.eqb {i} 1%N then Some b' else None end"
            env2 = [v for v in env if v != x + "!"]
            return self.hoisted(h, [f"match {sel} with", f"| None => {ctx.fail('IndexError')}", f"| Some {x} =>"]
                                + _ind(self.block(rest, env2 + [x] * (x not in env2), ctx)) + ["end"], ctx)
        if isinstance(s, ast.Expr) and isinstance(s.value, ast.YieldFrom) and self.spec.generator and self.tables() \
                and isinstance(s.value.value, ast.Call) and isinstance(s.value.value.func, ast.Attribute) \
                and s.value.value.func.attr == "keys" and not s.value.value.args and not s.value.value.keywords \
                and self.is_cursor(s.value.value.func.value, env):
            # yield from c.keys(), c a reference into the nested table: the keys of the dictionary it designates, in insertion
            # order (AttributeError: the cell is None or an entry, which have no keys())
            c = s.value.value.func.value.id
            root = self.cursor_root(s, c)
            spec = self.unit.cellspec
            if self.spec.ret != "list " + spec["key"]:
                self.abort(s, f"keys of the nested table yielded by a generator that is not declared list {spec['key']}")
            self.need("AttributeError")
            q, n = self.unit.q(spec["name"]), spec["name"]
            at = self.cell_call('at', f"{c} {root}")
            return [f"match {at} with", f"| Err e' => {ctx.fail(chr(101) + chr(39))}", f"| Ok ({q}{n}_dict _ items') =>"] \
                + _ind([f"let acc' := (acc' ++ map fst items') in"] + self.block(rest, env, ctx)) \
                + [f"| Ok _ => {ctx.fail('AttributeError')}", "end"]
        fm = self.field_method_stmt(s, env)
        reads = [] if fm is not None or not isinstance(s, (ast.Expr, ast.Assign)) else self.item_field_reads(s, env)
        if reads:
            # xs[<literal>].f (xs a tuple of named tuples, f a field holding an object) inside a statement: the objects are
            # read first, in the order of their first occurrence (IndexError), and named; they are only read afterwards
            # (receivers of methods that only read their object, arguments the callee only reads).  Reading has no effect, so
            # that doing it early can only change WHICH error is reported when a later step of the statement fails too
            lines_open, names = [], {}
            for (x, i, f, cname) in reads:
                nm = f"{x}_{i}_{f}"
                if nm in self.spec.types or nm in env:
                    self.abort(s, f"the name {nm!r} is in use")
                self.spec.types[nm] = self.unit.datas[cname].fields[f]
                self.borrowed7 = getattr(self, "borrowed7", set()) | {nm}
                names[(x, i, f)] = nm
                self.nt += 1
                lines_open += [f"match nth_error {x} {i} with", f"| None => {ctx.fail('IndexError')}", f"| Some t'{self.nt} =>",
                               f"let {nm} := ({cname}_{f} t'{self.nt}) in"]

            class _R(ast.NodeTransformer):
                def visit_Attribute(self_, node):
                    v = node.value
                    if isinstance(v, ast.Subscript) and isinstance(v.value, ast.Name) and isinstance(v.slice, ast.Constant) \
                            and (v.value.id, v.slice.value, node.attr) in names:
                        return ast.copy_location(ast.Name(id=names[(v.value.id, v.slice.value, node.attr)], ctx=ast.Load()), node)
                    return self_.generic_visit(node)
            s2 = _R().visit(copy.deepcopy(s))
            return lines_open + self.block([s2] + rest, env + list(names.values()), ctx) + ["end"] * len(reads)
        if fm is not None:
            # xs[i].f.m(args), xs a tuple of named tuples whose field f holds an object: the item is read (IndexError), the
            # method called on the object of its field f, the updated object put back into the item and the item into xs
            x, cname, f, cls, sfx, m, call = fm
            self.need("nset")
            idx = self.expr(s.value.func.value.value.slice, "N", env, h)
            self.nt += 3
            item, obj = f"t'{self.nt - 2}", f"t'{self.nt - 1}"
            ha: list = []
            args = self.method_args(call, cls, m, sfx, env, ha)
            fields = list(self.unit.datas[cname].fields)
            rebuilt = "(" + " ".join([f"mk_{cname}"] + [obj if g == f else f"({cname}_{g} {item})" for g in fields]) + ")"
            inner = [f"match {self.mcall(s, cls, m, sfx, f'({cname}_{f} {item})', args)} with", "| Err e' => " + ctx.fail("e'"),
                     f"| Ok ({obj}, _) =>",
                     f"  match nset {x} {idx} {rebuilt} with", f"  | None => {ctx.fail('IndexError')}", f"  | Some {x} =>"] \
                + _ind(_ind(self.block(rest, env, ctx))) + ["  end", "end"]
            return self.hoisted(h, [f"match nth_error {x} (N.to_nat {idx}) with", f"| None => {ctx.fail('IndexError')}",
                                    f"| Some {item} =>"] + _ind(self.hoisted(ha, inner, ctx)) + ["end"], ctx)
        if isinstance(s, ast.If) and not s.orelse and isinstance(s.test, ast.BoolOp) and isinstance(s.test.op, ast.And) \
                and len(s.test.values) == 2 and any(isinstance(n, ast.Subscript) for n in ast.walk(s.test.values[1])):
            # if a and b: BODY (no else), b reading a list / the table (it can raise):  if a: (if b: BODY)  -- b is evaluated
            # only when a is true, BODY runs when both are, and what follows the `if` runs in every case that does not
            # leave BODY by return (a false, b false, or BODY falling through), exactly as for the `and`
            inner = ast.copy_location(ast.If(test=s.test.values[1], body=s.body, orelse=[]), s)
            outer = ast.copy_location(ast.If(test=s.test.values[0], body=[inner], orelse=[]), s)
            return self.block([outer] + rest, env, ctx)
        if isinstance(s, ast.Expr) and isinstance(s.value, ast.Call) and isinstance(s.value.func, ast.Attribute) \
                and isinstance(s.value.func.value, ast.Name) and s.value.func.value.id in env and s.value.func.value.id != "self" \
                and (self.spec.types.get(s.value.func.value.id, ""), s.value.func.attr) in self.unit.noop_methods \
                and not s.value.args and not s.value.keywords:
            # x.m() as a statement, declared by the driver (`Unit.noop_methods`) to have no effect on anything the translation
            # models and to be unable to raise: nothing
            return self.block(rest, env, ctx)
        if self.unit.stderr_print and isinstance(s, ast.Expr) and isinstance(s.value, ast.Call) \
                and isinstance(s.value.func, ast.Name) and s.value.func.id == "print" and "print" not in self.spec.types:
            # print(f"..", file=sys.stderr): writes a diagnostic; no effect on anything the translation models.  The message
            # must be unable to raise: an f-string over names and ', '.join(<variable of a sequence type>) (the driver's
            # assumption: the items are strings, so that join cannot raise TypeError)
            c = s.value
            kw = c.keywords
            ok = len(c.args) == 1 and isinstance(c.args[0], ast.JoinedStr) and len(kw) == 1 and kw[0].arg == "file" \
                and isinstance(kw[0].value, ast.Attribute) and kw[0].value.attr == "stderr" \
                and isinstance(kw[0].value.value, ast.Name) and kw[0].value.value.id == "sys" and "sys" not in self.spec.types \
                and not self.unit.rebinds("print")
            if ok:
                self.unit.plain_import("sys")
                for v in c.args[0].values:
                    if isinstance(v, ast.Constant):
                        continue
                    w = v.value if isinstance(v, ast.FormattedValue) and v.format_spec is None and v.conversion == -1 else None
                    name_ok = isinstance(w, ast.Name) and w.id in env
                    join_ok = isinstance(w, ast.Call) and isinstance(w.func, ast.Attribute) and w.func.attr == "join" \
                        and isinstance(w.func.value, ast.Constant) and isinstance(w.func.value.value, str) \
                        and len(w.args) == 1 and not w.keywords and isinstance(w.args[0], ast.Name) and w.args[0].id in env \
                        and self.seq(self.spec.types.get(w.args[0].id, ""))
                    ok = ok and (name_ok or join_ok)
            if not ok:
                self.abort(s, "print(..) other than print(<f-string over names and ', '.join(<sequence variable>)>, file=sys.stderr)")
            return self.block(rest, env, ctx)
        if isinstance(s, ast.Continue):
            # continue: what reaching the end of the loop body becomes
            if ctx.cont is None:
                self.abort(s, "continue outside a loop (or in a loop whose body is not translated with a continuation)")
            if rest:
                self.abort(rest[0], "statement after continue")
            return [ctx.cont]
        if isinstance(s, (ast.Assign, ast.AnnAssign)) and s.value is not None and isinstance(s.value, ast.Dict) and not s.value.keys:
            target = s.target if isinstance(s, ast.AnnAssign) else (s.targets[0] if len(s.targets) == 1 else None)
            if isinstance(target, ast.Name) and self.kind(self.spec.types.get(target.id, ""))[0] == "elemdict":
                # d = {} (the annotation, if any, is not looked at): a new dictionary keyed by elements, no item
                x = target.id
                if x in self.params or x in self.fieldvars:
                    self.abort(s, f"assignment to the dictionary parameter / attribute {x!r}")
                vt = self.ct(self.unit.elemdicts[self.spec.types[x]])
                env2 = [v for v in env if v != x + "!"]
                return [f"let {x} := (@nil ({self.ct('elem')} * {vt if ' ' not in vt else '(' + vt + ')'})) in"] \
                    + self.block(rest, env2 + [x] * (x not in env2), ctx)
        if isinstance(s, ast.Assign) and len(s.targets) == 1 and self.edict_item(s.targets[0], env) is not None:
            # d[k] = set(): the value is stored where k stands, a new key goes to the end (insertion order)
            d, vt = self.edict_item(s.targets[0], env)
            v = s.value
            if not (self.kind(vt)[0] == "set" and isinstance(v, ast.Call) and isinstance(v.func, ast.Name) and v.func.id == "set"
                    and not v.args and not v.keywords and "set" not in self.spec.types and not self.unit.rebinds("set")):
                self.abort(s, "store into a dictionary keyed by elements other than d[k] = set() / d[k] op= e")
            if d in _names([s.targets[0].slice]):
                self.abort(s, "key that mentions the dictionary it is stored into")
            key = self.expr(s.targets[0].slice, "elem", env, h)
            self.need("adict_set")
            self.uses_eqb = True
            return self.hoisted(h, [f"let {d} := (adict_set eqb {d} {key} nil) in"] + self.block(rest, env, ctx), ctx)
        if isinstance(s, ast.Expr) and isinstance(s.value, ast.Call) and isinstance(s.value.func, ast.Attribute) \
                and s.value.func.attr == "add" and len(s.value.args) == 1 and not s.value.keywords \
                and self.edict_item(s.value.func.value, env) is not None:
            # d[k].add(e): the set at k is read (KeyError when k is not a key), e added (appended unless present), the set
            # stored back where it stands
            d, vt = self.edict_item(s.value.func.value, env)
            if self.kind(vt)[0] != "set" or self.kind(vt)[2]:
                self.abort(s, f"add on an item of {d}, whose values are not declared set")
            if d in _names([s.value.func.value.slice, s.value.args[0]]):
                self.abort(s, "key / element that mentions the dictionary")
            key = self.expr(s.value.func.value.slice, "elem", env, h)
            self.need("adict_get", "adict_set", "KeyError", "set_add")
            self.uses_eqb = True
            self.nt += 1
            old = f"t'{self.nt}"
            h.append(("unwrap", old, f"adict_get eqb {d} {key}", "KeyError"))
            val = self.expr(s.value.args[0], "elem", env, h)
            return self.hoisted(h, [f"let {d} := (adict_set eqb {d} {key} (set_add {val} {old})) in"] + self.block(rest, env, ctx), ctx)
        return None

    # ------------------------------------------------------------ eighth extension (translator/uspfs_gen.py)
    def set8(self, t: str):
        """(element type, equality, order parameter) when `t` is a set type of the eighth extension (`Unit.sets8`)."""
        return self.unit.sets8.get(t) if self.unit is not None and self.unit.eighth else None

    def enum_iter8(self, a):
        """The enum when `a` is the bare name of a declared enum class (iterating it yields its members in definition order)."""
        if isinstance(a, ast.Name) and self.unit is not None and self.unit.eighth and a.id in self.unit.enums \
                and a.id not in self.spec.types:
            return a.id
        return None

    def items8(self, a, env):
        """(term, element type) when `a` is `<e>.items()`: e a variable of a `ddict8` type (the items in insertion order) or an
        expression of a mapping type for which the driver names the function giving its items (`Unit.items8`)."""
        if not (self.unit is not None and self.unit.eighth and isinstance(a, ast.Call) and isinstance(a.func, ast.Attribute)
                and a.func.attr == "items" and not a.args and not a.keywords):
            return None
        v = a.func.value
        try:
            t = self.ntype(v, env)
        except TranslatorAbort:
            return None
        if t in self.unit.ddicts8 and isinstance(v, ast.Name):
            kt, st = self.unit.ddicts8[t]
            return v.id, f"pair {kt} {st}"
        if t in self.unit.items8:
            fn, et = self.unit.items8[t]
            sub: list = []
            term = f"({fn} {self.expr(v, t, env, sub)})"
            if sub:
                self.abort(a, "items() of an expression that can raise")
            return term, et
        return None

    def children_gets8(self, g, env):
        """(dictionary variable, its type, tree variable) when `g` is the generator `(d[c] for c in x.children)`, d a
        dictionary keyed by the nodes of the binary tree type of x."""
        if not (isinstance(g, ast.GeneratorExp) and len(g.generators) == 1 and not g.generators[0].ifs
                and not g.generators[0].is_async and isinstance(g.generators[0].target, ast.Name)):
            return None
        c = g.generators[0].target.id
        it = g.generators[0].iter
        if not (isinstance(it, ast.Attribute) and it.attr == "children" and isinstance(it.value, ast.Name) and it.value.id in env
                and self.kind(self.spec.types.get(it.value.id, ""))[0] == "tree"):
            return None
        if not (isinstance(g.elt, ast.Subscript) and isinstance(g.elt.value, ast.Name) and g.elt.value.id in env
                and isinstance(g.elt.slice, ast.Name) and g.elt.slice.id == c and c not in env):
            return None
        d = g.elt.value.id
        dt = self.spec.types.get(d, "")
        tt = self.spec.types[it.value.id]
        if self.kind(dt)[0] != "nodedict" or self.unit.nodedicts[dt][0] != tt or self.spec.types.get(c) != tt:
            return None
        return d, dt, it.value.id

    def ntype8(self, e, env) -> Optional[str]:
        if isinstance(e, ast.BinOp) and isinstance(e.op, ast.BitOr):
            try:
                lt, rt = self.ntype(e.left, env), self.ntype(e.right, env)
            except TranslatorAbort:
                return None
            if lt == rt and self.set8(lt) is not None:
                return lt
        if isinstance(e, ast.Call) and isinstance(e.func, ast.Name) and e.func.id == "set" and "set" not in self.spec.types \
                and not e.keywords and len(e.args) <= 1:
            return "newset8"
        if isinstance(e, ast.Call) and isinstance(e.func, ast.Attribute) and e.func.attr == "difference" \
                and isinstance(e.func.value, ast.Call) and isinstance(e.func.value.func, ast.Attribute) \
                and e.func.value.func.attr == "union":
            return "newset8"
        if isinstance(e, ast.Call) and isinstance(e.func, ast.Name) and e.func.id == "defaultdict" \
                and "defaultdict" not in self.spec.types:
            return "newddict8"
        if isinstance(e, ast.DictComp):
            return "newdict8"
        if isinstance(e, ast.Dict) and not e.keys:
            return "newdict8"
        if isinstance(e, ast.Call) and isinstance(e.func, ast.Name) and e.func.id in env and not e.keywords \
                and self.spec.types.get(e.func.id) in self.unit.varcalls8:
            return self.unit.varcalls8[self.spec.types[e.func.id]][1]
        return None

    def expr8(self, e, want: str, env, hoist) -> Optional[str]:
        """Expression forms of the eighth extension (None: none applies)."""
        s8 = self.set8(want)
        if s8 is not None:
            et, eqf, _ = s8
            if isinstance(e, ast.Call) and isinstance(e.func, ast.Name) and e.func.id == "set" and "set" not in self.spec.types \
                    and not e.keywords and not self.unit.rebinds("set"):
                if not e.args:
                    return f"(@nil ({self.ct(et) if et not in self.unit.trees else self.unit.ident_of(et)}))"      # set()
                if len(e.args) == 1 and self.ntype(e.args[0], env) == "list " + et:
                    # set(xs), xs a list (or any iterable given as the list of its items): each item once
                    return f"(gset_of_list {eqf} {self.expr(e.args[0], 'list ' + et, env, hoist)})"
                self.abort(e, f"set(..) of something that is not a list of {et}")
            if isinstance(e, ast.BinOp) and isinstance(e.op, ast.BitOr):
                # a | b on two sets: a new set
                a, b = self.expr(e.left, want, env, hoist), self.expr(e.right, want, env, hoist)
                return f"(gset_union {eqf} {a} {b})"
            if isinstance(e, ast.Call) and isinstance(e.func, ast.Attribute) and e.func.attr == "difference" \
                    and isinstance(e.func.value, ast.Call) and isinstance(e.func.value.func, ast.Attribute) \
                    and e.func.value.func.attr == "union":
                # set().union(*(d1[c] for c in x.children)).difference(*(d2[c] for c in x.children)): the values d1[c] are
                # read first, in the order of the children (KeyError), then united; then the values d2[c], removed
                u = e.func.value
                base = u.func.value
                ok = isinstance(base, ast.Call) and isinstance(base.func, ast.Name) and base.func.id == "set" and not base.args \
                    and not base.keywords and "set" not in self.spec.types and not self.unit.rebinds("set") \
                    and not e.keywords and not u.keywords and len(e.args) == 1 and len(u.args) == 1 \
                    and isinstance(e.args[0], ast.Starred) and isinstance(u.args[0], ast.Starred)
                g1 = self.children_gets8(u.args[0].value, env) if ok else None
                g2 = self.children_gets8(e.args[0].value, env) if ok else None
                if g1 is None or g2 is None or self.unit.nodedicts[g1[1]][1] != want or self.unit.nodedicts[g2[1]][1] != want:
                    self.abort(e, "set().union(..).difference(..) other than over (d[c] for c in x.children)")
                self.need("KeyError")
                terms = []
                for d, dt, x in (g1, g2):
                    tt = self.unit.nodedicts[dt][0]
                    q = self.unit.q(tt)
                    self.nt += 1
                    hoist.append(("unwrap", f"t'{self.nt}",
                                  f"dict_gets8 {self.unit.nodedicts[dt][2]} {d} (map (@{q}{tt}_id _) ({tt}_children8 {x}))", "KeyError"))
                    terms.append(f"t'{self.nt}")
                return f"(fold_left (gset_diff {eqf}) {terms[1]} (fold_left (gset_union {eqf}) {terms[0]} nil))"
        if want in self.unit.ddicts8 and isinstance(e, ast.Call) and isinstance(e.func, ast.Name) and e.func.id == "defaultdict" \
                and "defaultdict" not in self.spec.types:
            # defaultdict(set): a new dictionary without items
            if not (len(e.args) == 1 and not e.keywords and isinstance(e.args[0], ast.Name) and e.args[0].id == "set"
                    and "set" not in self.spec.types and not self.unit.rebinds("set")):
                self.abort(e, "defaultdict(..) other than defaultdict(set)")
            self.unit.imported("defaultdict", "collections")
            kt, st = self.unit.ddicts8[want]
            return f"(@nil ({self.ct(kt)} * {self.ct(st)}))"
        if self.kind(want)[0] == "nodedict" and isinstance(e, ast.Dict) and not e.keys:
            tree, vt, _ = self.unit.nodedicts[want]
            return f"(@nil ({self.unit.ident_of(tree)} * {self.ct(vt)}))"
        if self.kind(want)[0] == "nodedict" and isinstance(e, ast.DictComp):
            # {node: set() for node in t.traverse(..)}: one store per node, in that order (kept newest first)
            tree, vt, _ = self.unit.nodedicts[want]
            g = e.generators[0] if len(e.generators) == 1 else None
            tr = self.traverse_of(g.iter, env) if g is not None and not g.ifs and not g.is_async else None
            if tr is None or tr[0] != tree or not isinstance(g.target, ast.Name) or not isinstance(e.key, ast.Name) \
                    or e.key.id != g.target.id or g.target.id in env or self.spec.types.get(g.target.id) != tree:
                self.abort(e, "dictionary comprehension other than {node: e for node in <tree>.traverse(..)}")
            self.unit.traversals.add((tr[0], tr[1]))
            sub: list = []
            val = self.expr(e.value, vt, env, sub)
            tv = self.expr(tr[2], tree, env, sub)
            if sub or g.target.id in _names([e.value]):
                self.abort(e, "comprehension whose value can raise / mentions the node")
            q = self.unit.q(tree)
            return f"(rev (map (fun node' => ({q}{tree}_id node', {val})) ({tree}_{tr[1]} {tv})))"
        if isinstance(e, ast.Call) and isinstance(e.func, ast.Name) and e.func.id in env and not e.keywords \
                and self.spec.types.get(e.func.id) in self.unit.varcalls8:
            # f(*s), f a variable of an opaque type whose call the driver declares, s a set: the items of s in the order the
            # set's order parameter decides
            argt, rt, fn = self.unit.varcalls8[self.spec.types[e.func.id]]
            if rt != want or len(e.args) != 1 or not isinstance(e.args[0], ast.Starred) \
                    or not isinstance(e.args[0].value, ast.Name) or e.args[0].value.id not in env \
                    or self.spec.types.get(e.args[0].value.id) != argt or self.set8(argt) is None:
                self.abort(e, f"call of {e.func.id} other than {e.func.id}(*<variable of type {argt}>) where a {rt} is expected")
            return f"({fn} {e.func.id} ({self.set8(argt)[2]} {e.args[0].value.id}))"
        return None

    def subst8(self, stmts, x: str, repl):
        """`stmts` with every `x[..]` (x a proxy alias) replaced by `<repl>[..]`; any other mention of x aborts."""
        fun = self

        class _R(ast.NodeTransformer):
            def visit_Subscript(self_, node):
                if isinstance(node.value, ast.Name) and node.value.id == x and isinstance(node.ctx, ast.Load):
                    new = ast.copy_location(ast.Subscript(value=copy.deepcopy(repl), slice=self_.visit(node.slice), ctx=ast.Load()), node)
                    return ast.fix_missing_locations(new)
                return self_.generic_visit(node)

            def visit_Name(self_, node):
                if node.id == x:
                    fun.abort(node, f"use of the proxy alias {x!r} other than {x}[..]")
                return node
        return [_R().visit(copy.deepcopy(b)) for b in stmts]

    def kind_choice8(self, n, env):
        """(xs, index node, key node, field, named tuple, dictionary type) when `n` is `xs[i][k].f`: xs a local tuple of
        dictionaries keyed by the members of an enum (`Unit.kinddicts8`) whose values are named tuples with the field f."""
        if not (isinstance(n, ast.Attribute) and isinstance(n.value, ast.Subscript) and isinstance(n.value.value, ast.Subscript)
                and isinstance(n.value.value.value, ast.Name) and not isinstance(n.value.slice, ast.Slice)
                and not isinstance(n.value.value.slice, ast.Slice)):
            return None
        x = n.value.value.value.id
        xt = self.spec.types.get(x, "")
        if x not in env or not is_tuple(xt) or arg_of(xt) not in self.unit.kinddicts8:
            return None
        enum, cname = self.unit.kinddicts8[arg_of(xt)]
        if n.attr not in self.unit.datas[cname].fields:
            self.abort(n, f"{cname} has no field {n.attr!r}")
        return x, n.value.value.slice, n.value.slice, n.attr, cname, arg_of(xt)

    def block8(self, s, rest, env, ctx, h) -> Optional[List[str]]:
        """Statements of the eighth extension; None when `s` is none of them."""
        u = self.unit
        if isinstance(s, ast.AnnAssign) and s.value is not None and isinstance(s.target, ast.Name) and s.simple:
            # x: T = e in a function body: the annotation of a local variable is not evaluated (PEP 526): x = e
            s2 = ast.copy_location(ast.Assign(targets=[s.target], value=s.value), s)
            return self.block([s2] + rest, env, ctx)
        if isinstance(s, ast.Assign) and len(s.targets) == 1 and isinstance(s.targets[0], ast.Name):
            x, v = s.targets[0].id, s.value
            xt = self.spec.types.get(x, "")
            new8 = (xt in u.ddicts8 and isinstance(v, ast.Call) and isinstance(v.func, ast.Name) and v.func.id == "defaultdict") \
                or (self.kind(xt)[0] == "nodedict" and (isinstance(v, ast.DictComp) or (isinstance(v, ast.Dict) and not v.keys)))
            if new8:
                if x in self.params or x in self.fieldvars:
                    self.abort(s, f"assignment to the parameter / attribute {x!r}")
                term = self.expr8(v, xt, env, h)
                env2 = [w for w in env if w != x + "!"]
                return self.hoisted(h, [f"let {x} := {term} in"] + self.block(rest, env2 + [x] * (x not in env2), ctx), ctx)
            if self.kind(xt)[0] == "nodedict" and isinstance(v, ast.Call) and isinstance(v.func, ast.Name) \
                    and v.func.id in u.functions and v.func.id not in self.spec.types and u.functions[v.func.id].fresh \
                    and u.functions[v.func.id].ret == xt and not u.mutates.get(v.func.id) and not v.keywords:
                # d = f(..), f a function of the unit that builds and returns a new dictionary keyed by nodes
                if x in self.params or x in self.fieldvars:
                    self.abort(s, f"assignment to the parameter / attribute {x!r}")
                term = self.expr(v, xt, env, h)
                env2 = [w for w in env if w != x + "!"]
                return self.hoisted(h, [f"let {x} := {term} in"] + self.block(rest, env2 + [x] * (x not in env2), ctx), ctx)
            if xt == "proxyalias":
                # x = table[a][b]: a proxy -- a (table, prefix) pair without state of its own -- is given a name.  The chain is
                # evaluated here (reading may give the table's dictionaries the keys; errors are raised here), and every later
                # x[k].. is the chain table[a][b][k].. evaluated in full: the driver's assumption (`proxy_alias8`) is that
                # evaluating table[a][b] again on the same keys has no further effect and yields an equal proxy
                if not u.proxy_alias8 or self.chain_parse(v, env) is None or not isinstance(v, ast.Subscript) or x in self.params:
                    self.abort(s, f"{x!r}, declared a proxy alias, is bound to something other than a chain of subscripts")
                names = _names([v])
                later = self.assigned(rest)
                if x in later or any(n_ in later for n_ in names if n_ != self.chain_parse(v, env)[0][1]):
                    self.abort(s, f"{x!r} or a key of the chain it names is assigned again afterwards")
                if any(isinstance(n_, (ast.Call, ast.Attribute)) for k_ in ast.walk(v) if isinstance(k_, ast.Subscript)
                       for n_ in ast.walk(k_.slice)):
                    self.abort(s, "key of an aliased chain that is not a plain variable")
                self.chain(v, env, h)
                return self.hoisted(h, self.block(self.subst8(rest, x, v), env, ctx), ctx)
            if is_tuple(xt) and arg_of(xt) in u.kinddicts8 and isinstance(v, ast.Call) and isinstance(v.func, ast.Name) \
                    and v.func.id == "tuple":
                # xs = tuple(dict((kind, C._make(o.m() for _ in range(len(C._fields)))) for kind in E) for _ in range(k)):
                # k dictionaries with one item per member of the enum E, in definition order, whose values are named tuples
                # with every field the result of o.m() (evaluated once: see `make_idiom`)
                enum, cname = u.kinddicts8[arg_of(xt)]
                ok = len(v.args) == 1 and not v.keywords and isinstance(v.args[0], ast.GeneratorExp) and "tuple" not in self.spec.types \
                    and "dict" not in self.spec.types and not u.rebinds("tuple") and not u.rebinds("dict") \
                    and x not in self.params and x not in self.fieldvars
                outer = v.args[0] if ok else None
                dc = outer.elt if ok else None
                ok = ok and isinstance(dc, ast.Call) and isinstance(dc.func, ast.Name) and dc.func.id == "dict" and len(dc.args) == 1 \
                    and not dc.keywords and isinstance(dc.args[0], ast.GeneratorExp) and len(dc.args[0].generators) == 1
                g = dc.args[0].generators[0] if ok else None
                ok = ok and not g.ifs and not g.is_async and isinstance(g.target, ast.Name) and self.enum_iter8(g.iter) == enum \
                    and isinstance(dc.args[0].elt, ast.Tuple) and len(dc.args[0].elt.elts) == 2 \
                    and isinstance(dc.args[0].elt.elts[0], ast.Name) and dc.args[0].elt.elts[0].id == g.target.id
                if not ok:
                    self.abort(s, "tuple(dict(..)) outside the handled idiom")
                # reuse `make_idiom` on  xs' = tuple(C._make(..) for _ in range(k))
                fake_t = "tuple " + cname
                tmpname = x + "'mk"
                self.spec.types[tmpname] = fake_t
                fake = ast.copy_location(ast.Assign(targets=[ast.Name(id=tmpname, ctx=ast.Store())], value=ast.copy_location(
                    ast.Call(func=v.func, args=[ast.copy_location(ast.GeneratorExp(elt=dc.args[0].elt.elts[1], generators=outer.generators), outer)],
                             keywords=[]), v)), s)
                ast.fix_missing_locations(fake)
                made = self.make_idiom(fake, env)
                del self.spec.types[tmpname]
                if made is None:
                    self.abort(s, "tuple(dict(..)) outside the handled idiom")
                _, _, call, k = made
                nf = len(u.datas[cname].fields)
                term = self.expr(call, list(u.datas[cname].fields.values())[0], env, h)
                rec = "(" + " ".join([f"mk_{cname}"] + [term] * nf) + ")"
                items = "nil"
                for m_ in reversed(u.enums[enum]):
                    items = f"(cons ({enum}_{m_}, {rec}) {items})"
                env2 = [w for w in env if w != x + "!"]
                return self.hoisted(h, [f"let {x} := (repeat {items} {k}) in"] + self.block(rest, env2 + [x] * (x not in env2), ctx), ctx)
        if isinstance(s, ast.Expr) and isinstance(s.value, ast.Call) and isinstance(s.value.func, ast.Attribute) \
                and s.value.func.attr == "add" and len(s.value.args) == 1 and not s.value.keywords \
                and isinstance(s.value.func.value, ast.Subscript) and isinstance(s.value.func.value.value, ast.Name) \
                and s.value.func.value.value.id in env and not isinstance(s.value.func.value.slice, ast.Slice):
            d = s.value.func.value.value.id
            dt = self.spec.types.get(d, "")
            keyn, argn = s.value.func.value.slice, s.value.args[0]
            if d in self.params or d in self.fieldvars or d in _names([keyn, argn]):
                self.abort(s, f"update of the parameter / attribute {d!r} (or a key / element that mentions it)")
            if dt in u.ddicts8:
                # d[k].add(e), d a defaultdict(set): a missing key is given the empty set (a new last item), then e is added
                kt, st = u.ddicts8[dt]
                et, eqf, _ = self.set8(st)
                key = self.expr(keyn, kt, env, h)
                val = self.expr(argn, et, env, h)
                keqb = u.opaques[kt][1].get("eqb")
                return self.hoisted(h, [f"let {d} := (ddict_add8 {keqb} {eqf} {d} {key} {val}) in"] + self.block(rest, env, ctx), ctx)
            if self.kind(dt)[0] == "nodedict" and self.set8(u.nodedicts[dt][1]) is not None:
                # d[k].add(e), d a dictionary keyed by nodes whose values are sets (no two keys sharing one): the set at k is
                # read (KeyError), e added, the new set stored for k
                tree, st, keqf = u.nodedicts[dt]
                et, eqf, _ = self.set8(st)
                kt = self.ntype(keyn, env)
                if kt == tree:
                    key = f"({u.q(tree)}{tree}_id {self.raw(keyn, tree, env, h)})"
                elif kt == "NodeId8":
                    key = self.expr(keyn, kt, env, h)
                else:
                    self.abort(s, f"key of a {dt} that is not a node of a {tree}")
                self.need("dict_get", "KeyError")
                self.nt += 2
                kv, old = f"t'{self.nt - 1}", f"t'{self.nt}"
                h.append(("let", kv, key))
                h.append(("unwrap", old, f"dict_get {keqf} {d} {kv}", "KeyError"))
                val = self.expr(argn, et, env, h)
                return self.hoisted(h, [f"let {d} := (cons ({kv}, gset_add {eqf} {val} {old}) {d}) in"] + self.block(rest, env, ctx), ctx)
        if isinstance(s, ast.Expr) and isinstance(s.value, ast.Call) and isinstance(s.value.func, ast.Attribute) \
                and self.kind_choice8(s.value.func.value, env) is not None:
            # xs[i][k].f.m(args): the item i of the tuple is read (IndexError), the value of its key k (KeyError), the method
            # run on the object of its field f; the object is put back into the named tuple, that into the dictionary (where k
            # stands) and the dictionary into the tuple
            x, idxn, keyn, f, cname, dtn = self.kind_choice8(s.value.func.value, env)
            enum = u.kinddicts8[dtn][0]
            if x in self.params or x in self.fieldvars or x in _names(s.value.args + [idxn, keyn]) or s.value.keywords:
                self.abort(s, f"update of an object held by {x!r} outside the handled form")
            k_, name, sfx = self.kind(u.datas[cname].fields[f])
            m = next((q for q in u.done_methods.get(name, []) if q.name == s.value.func.attr), None) if k_ == "class" else None
            if m is None or (m.ret and m.ret != "unit"):
                self.abort(s, f"{s.value.func.attr!r} is not a translated method returning nothing of the field {f!r}")
            if self.ntype(idxn, env) not in ("N", "lit") or self.ntype(keyn, env) != enum:
                self.abort(s, f"index that is not of type N / key that is not of type {enum}")
            self.need("nset", "KeyError", "adict_get", "adict_set")
            idx = self.expr(idxn, "N", env, h)
            key = self.expr(keyn, enum, env, h)
            self.nt += 3
            dct, item, obj = f"t'{self.nt - 2}", f"t'{self.nt - 1}", f"t'{self.nt}"
            ha: list = []
            cls = u.classes[name]
            args = self.method_args(s.value, cls, m, sfx, env, ha)
            fields = list(u.datas[cname].fields)
            rebuilt = "(" + " ".join([f"mk_{cname}"] + [obj if g == f else f"({cname}_{g} {item})" for g in fields]) + ")"
            inner = [f"match {self.mcall(s, cls, m, sfx, f'({cname}_{f} {item})', args)} with", "| Err e' => " + ctx.fail("e'"),
                     f"| Ok ({obj}, _) =>",
                     f"  match nset {x} {idx} (adict_set {enum}_eqb {dct} {key} {rebuilt}) with", f"  | None => {ctx.fail('IndexError')}",
                     f"  | Some {x} =>"] + _ind(_ind(self.block(rest, env, ctx))) + ["  end", "end"]
            return self.hoisted(h, [f"match nth_error {x} (N.to_nat {idx}) with", f"| None => {ctx.fail('IndexError')}",
                                    f"| Some {dct} =>",
                                    f"  match adict_get {enum}_eqb {dct} {key} with", f"  | None => {ctx.fail('KeyError')}",
                                    f"  | Some {item} =>"] + _ind(_ind(self.hoisted(ha, inner, ctx))) + ["  end", "end"], ctx)
        if isinstance(s, (ast.Expr, ast.Assign)) and u.kinddicts8:
            # xs[<literal>][k].f inside a statement (k a variable): the objects are read first, in the order of their first
            # occurrence (IndexError, KeyError), and named -- see `item_field_reads` in `block7`
            reads = []

            def walk(n):
                kc = self.kind_choice8(n, env) if isinstance(n, ast.Attribute) and isinstance(n.ctx, ast.Load) else None
                if kc is not None and isinstance(kc[1], ast.Constant) and type(kc[1].value) is int and kc[1].value >= 0 \
                        and isinstance(kc[2], ast.Name) and kc[2].id in env \
                        and self.kind(u.datas[kc[4]].fields[kc[3]])[0] == "class":
                    key = (kc[0], kc[1].value, kc[2].id, kc[3], kc[4], kc[5])
                    if key not in reads:
                        reads.append(key)
                    return
                for c in ast.iter_child_nodes(n):
                    walk(c)
            walk(s)
            if reads:
                self.need("KeyError", "adict_get")
                lines_open, names = [], {}
                for (x, i, kv, f, cname, dtn) in reads:
                    enum = u.kinddicts8[dtn][0]
                    if x in self.params or x in self.fieldvars or self.spec.types.get(kv) != enum:
                        self.abort(s, f"read of {x}[{i}][{kv}].{f} outside the handled form")
                    nm = f"{x}_{i}_{kv}_{f}"
                    if (nm in self.spec.types and nm not in getattr(self, "borrowed7", set())) or nm in env:
                        self.abort(s, f"the name {nm!r} is in use")
                    self.spec.types[nm] = u.datas[cname].fields[f]
                    self.borrowed7 = getattr(self, "borrowed7", set()) | {nm}
                    names[(x, i, kv, f)] = nm
                    self.nt += 2
                    lines_open += [f"match nth_error {x} {i} with", f"| None => {ctx.fail('IndexError')}", f"| Some t'{self.nt - 1} =>",
                                   f"match adict_get {enum}_eqb t'{self.nt - 1} {kv} with", f"| None => {ctx.fail('KeyError')}",
                                   f"| Some t'{self.nt} =>", f"let {nm} := ({cname}_{f} t'{self.nt}) in"]
                fun = self

                class _R(ast.NodeTransformer):
                    def visit_Attribute(self_, node):
                        kc = fun.kind_choice8(node, env) if isinstance(node.ctx, ast.Load) else None
                        if kc is not None and isinstance(kc[1], ast.Constant) and isinstance(kc[2], ast.Name) \
                                and (kc[0], kc[1].value, kc[2].id, kc[3]) in names:
                            return ast.copy_location(ast.Name(id=names[(kc[0], kc[1].value, kc[2].id, kc[3])], ctx=ast.Load()), node)
                        return self_.generic_visit(node)
                s2 = _R().visit(copy.deepcopy(s))
                return lines_open + self.block([s2] + rest, env + list(names.values()), ctx) + ["end"] * (2 * len(reads))
        return None

    # ---------------------------------------------------------------- ninth extension
    def fresh_name9(self, stem: str, t: str) -> str:
        self.n9 = getattr(self, "n9", 0) + 1
        v = f"{stem}9_{self.n9}"
        if v in self.spec.types or v in _names([self.fn]) or (self.unit is not None and v in self.unit.taken):
            self.abort(self.fn, f"the name {v!r} is in use")
        self.spec.types[v] = t
        return v

    def rewrite9(self):
        """Rewritings done once, before the body is translated (each replaces a statement by the statements it abbreviates):
        `for a, b, _ in xs` (xs a list of declared fixed-length tuples) binds a fresh variable and unpacks it first;
        `for g in x.m()` (x a local object, m a translated method that is not declared `pure`) first binds the list the call
        returns to a fresh variable (nothing in the loop may call a method of x: the list could be one x keeps);
        `if x:` / `if not x:` on an optional tree under construction (ete3: `TreeNode.__bool__` is always true) is
        `if x is not None:` / `if x is None:`."""
        types = self.spec.types
        loc = ast.copy_location

        def rewrite(stmts):
            out = []
            for s in stmts:
                for fld in ("body", "orelse"):
                    if isinstance(s, (ast.If, ast.For, ast.While)) and getattr(s, fld, None):
                        setattr(s, fld, rewrite(getattr(s, fld)))
                if isinstance(s, ast.If):
                    t, neg = s.test, False
                    if isinstance(t, ast.UnaryOp) and isinstance(t.op, ast.Not):
                        t, neg = t.operand, True
                    if isinstance(t, ast.Name) and is_option(types.get(t.id, "")) and arg_of(types[t.id]) in self.unit.buildtrees9:
                        s.test = loc(ast.Compare(left=t, ops=[ast.Is() if neg else ast.IsNot()],
                                                 comparators=[loc(ast.Constant(value=None), t)]), s.test)
                if isinstance(s, ast.For) and isinstance(s.target, ast.Tuple) and isinstance(s.iter, ast.Name) \
                        and is_list(types.get(s.iter.id, "")) and arg_of(types[s.iter.id]) in self.unit.tuples9:
                    v = self.fresh_name9("item", arg_of(types[s.iter.id]))
                    unpack = loc(ast.Assign(targets=[s.target], value=loc(ast.Name(id=v, ctx=ast.Load()), s)), s)
                    unpack.unpack9 = True
                    s.target = loc(ast.Name(id=v, ctx=ast.Store()), s)
                    s.body = [unpack] + s.body
                if isinstance(s, ast.For) and isinstance(s.iter, ast.Call) and isinstance(s.iter.func, ast.Name) \
                        and s.iter.func.id == "product" and len(s.iter.args) == 2 and not s.iter.keywords \
                        and all(self.local_call9(a) == self.fn.name and self.cls is None for a in s.iter.args):
                    # for a, b in product(f(..), f(..)), f the local function itself: the two lists are computed first, in order
                    for j, a in enumerate(s.iter.args):
                        v = self.fresh_name9("prod", self.spec.ret)
                        out.append(loc(ast.Assign(targets=[loc(ast.Name(id=v, ctx=ast.Store()), s)], value=a), s))
                        s.iter.args[j] = loc(ast.Name(id=v, ctx=ast.Load()), s)
                if isinstance(s, ast.For) and isinstance(s.iter, ast.Call) and isinstance(s.iter.func, ast.Attribute) \
                        and isinstance(s.iter.func.value, ast.Name) and s.iter.func.value.id != "self" \
                        and self.kind(types.get(s.iter.func.value.id, ""))[0] == "class":
                    x = s.iter.func.value.id
                    m = next((m for m in self.unit.done_methods.get(self.kind(types[x])[1], []) if m.name == s.iter.func.attr), None)
                    if m is not None and not m.pure and is_list(m.ret):
                        for n in ast.walk(ast.Module(body=s.body, type_ignores=[])):
                            if isinstance(n, ast.Name) and n.id == x:
                                self.abort(n, f"{x!r} is used inside a loop over the list one of its methods returned")
                        v = self.fresh_name9("seq", m.ret)
                        bind = loc(ast.Assign(targets=[loc(ast.Name(id=v, ctx=ast.Store()), s)], value=s.iter), s)
                        bind.mcall9 = True
                        s.iter = loc(ast.Name(id=v, ctx=ast.Load()), s)
                        out.append(bind)
                        if isinstance(s.target, ast.Name) and self.kind(types.get(s.target.id, ""))[0] == "class" \
                                and s.target.id in self.assigned(s.body):
                            # the items are objects the body updates: nothing else names the list (it is the fresh variable), so
                            # the updates are seen by nobody but the body -- the loop variable is a local of the body
                            it9 = self.fresh_name9("obj", types[s.target.id])
                            own = loc(ast.Assign(targets=[loc(ast.Name(id=s.target.id, ctx=ast.Store()), s)],
                                                 value=loc(ast.Name(id=it9, ctx=ast.Load()), s)), s)
                            own.objitem9 = True
                            s.target = loc(ast.Name(id=it9, ctx=ast.Store()), s)
                            s.body = [own] + s.body
                out.append(s)
            return out
        self.fn.body = rewrite(self.fn.body)

    def none_test9(self, test, env) -> Optional[str]:
        """"is" / "isnot" when `test` is `x is None` / `x is not None`, x a variable of an option type that is not narrowed."""
        if isinstance(test, ast.Compare) and len(test.ops) == 1 and isinstance(test.ops[0], (ast.Is, ast.IsNot)) \
                and isinstance(test.left, ast.Name) and isinstance(test.comparators[0], ast.Constant) \
                and test.comparators[0].value is None and test.left.id in env and test.left.id + "!" not in env \
                and is_option(self.spec.types.get(test.left.id, "")):
            return "is" if isinstance(test.ops[0], ast.Is) else "isnot"
        return None

    def value_type9(self, t: str) -> bool:
        """A type all of whose values are immutable or lists (of lists ..) of immutable values: a deep copy is an equal value."""
        return all(tok in ("list", "option", "N", "Z", "bool") for tok in t.replace("(", " ").replace(")", " ").split())

    def local_call9(self, e) -> Optional[str]:
        """The name f when `e` is `f(..)`, f a local function of the unit (translated before) or the local function itself."""
        if isinstance(e, ast.Call) and isinstance(e.func, ast.Name) and e.func.id not in self.spec.types \
                and e.func.id in self.unit.local_owner9:
            return e.func.id
        return None

    def fresh9(self, e) -> bool:
        """`a + b` on lists, `xs[k:]`, `list(set(xs))` and the call of a local function declared `fresh` (checked: every value it
        returns is a list display, a concatenation or such a call) build a new list."""
        if isinstance(e, ast.BinOp) and isinstance(e.op, ast.Add):
            return True
        if isinstance(e, ast.Subscript) and isinstance(e.slice, ast.Slice):
            return True
        f = self.local_call9(e)
        if f is not None:
            spec = self.spec if f == self.fn.name and self.cls is None else self.unit.functions.get(f)
            return spec is not None and spec.fresh and is_list(spec.ret)
        return False

    def ntype9(self, e, env) -> Optional[str]:
        if isinstance(e, ast.Call) and isinstance(e.func, ast.Name) and e.func.id in self.unit.buildtrees9 \
                and e.func.id not in self.spec.types:
            return e.func.id
        if self.len_call9(e, env) is not None:
            return self.len_call9(e, env)[2].ret
        if self.all_in9(e, env) is not None:
            return "bool"
        if isinstance(e, ast.Name) and e.id == "self" and getattr(e, "as_object9", False) and self.cls is not None:
            return self.cls.name
        if isinstance(e, ast.BinOp) and isinstance(e.op, ast.Add):
            try:
                lt, rt = self.ntype(e.left, env), self.ntype(e.right, env)
            except TranslatorAbort:
                return None
            if lt == rt and is_list(lt):
                return lt
        if isinstance(e, ast.Subscript) and isinstance(e.slice, ast.Slice) and isinstance(e.value, ast.Name) \
                and e.value.id in env and is_list(self.spec.types.get(e.value.id, "")):
            return self.spec.types[e.value.id]
        if isinstance(e, ast.Call) and getattr(e, "list_set9", False):
            return self.spec.types[e.args[0].id]
        if isinstance(e, ast.List) and len(e.elts) == 1 and isinstance(e.elts[0], ast.Name) and e.elts[0].id in env \
                and self.kind(self.spec.types.get(e.elts[0].id, ""))[0] == "class":
            return "list " + self.spec.types[e.elts[0].id]
        if isinstance(e, ast.List) and len(e.elts) == 1 and isinstance(e.elts[0], ast.Name) and e.elts[0].id in env \
                and self.spec.types.get(e.elts[0].id) in self.unit.buildtrees9:
            return "list " + self.spec.types[e.elts[0].id]
        if isinstance(e, ast.List) and len(e.elts) == 1 and isinstance(e.elts[0], ast.Call) and isinstance(e.elts[0].func, ast.Name) \
                and e.elts[0].func.id in self.unit.buildtrees9 and e.elts[0].func.id not in self.spec.types:
            return "list " + e.elts[0].func.id
        if isinstance(e, ast.Call) and isinstance(e.func, ast.Attribute) and e.func.attr == "copy" and not e.args and not e.keywords \
                and isinstance(e.func.value, ast.Name) and e.func.value.id in env \
                and self.vtype(e, e.func.value.id, env) in self.unit.buildtrees9:
            return self.vtype(e, e.func.value.id, env)
        f = self.local_call9(e)
        if f is not None and not e.keywords:
            return self.spec.ret if (f == self.fn.name and self.cls is None) else self.unit.functions[f].ret
        return None

    def len_call9(self, e, env):
        """(x, class, method) when `e` is `len(x)`, x a local variable holding an object whose class translates `__len__`."""
        if isinstance(e, ast.Call) and isinstance(e.func, ast.Name) and e.func.id == "len" and "len" not in self.spec.types \
                and len(e.args) == 1 and not e.keywords and isinstance(e.args[0], ast.Name) and e.args[0].id in env \
                and self.kind(self.spec.types.get(e.args[0].id, ""))[0] == "class":
            x = e.args[0].id
            k, name, sfx = self.kind(self.spec.types[x])
            m = next((m for m in self.unit.done_methods.get(name, []) if m.name == "__len__"), None)
            if m is None or sfx or x in self.params or x in self.fieldvars or self.unit.rebinds("len"):
                self.abort(e, f"len({x}): __len__ of {name} is not translated / {x} is not a local variable")
            return x, self.unit.classes[name], m
        return None

    def all_in9(self, e, env):
        """(t, ys, component types) when `e` is `all(v in ys for v in t)`, t a variable of a declared fixed-length tuple type all
        of whose components have the item type of the list variable ys."""
        if not (isinstance(e, ast.Call) and isinstance(e.func, ast.Name) and e.func.id == "all" and "all" not in self.spec.types
                and len(e.args) == 1 and not e.keywords and isinstance(e.args[0], ast.GeneratorExp)):
            return None
        g = e.args[0]
        c = g.generators[0]
        if len(g.generators) != 1 or c.is_async or c.ifs or not isinstance(c.target, ast.Name) or not isinstance(c.iter, ast.Name) \
                or self.spec.types.get(c.iter.id) not in self.unit.tuples9:
            return None
        t, v, el = c.iter.id, c.target.id, g.elt
        if not (isinstance(el, ast.Compare) and len(el.ops) == 1 and isinstance(el.ops[0], ast.In) and isinstance(el.left, ast.Name)
                and el.left.id == v and isinstance(el.comparators[0], ast.Name)):
            return None
        ys = el.comparators[0].id
        comps = self.unit.tuples9[self.spec.types[t]]
        if t not in env and t != getattr(self, "comp_var9", None):
            return None
        if ys not in env or not is_list(self.spec.types.get(ys, "")) or any(cc != arg_of(self.spec.types[ys]) for cc in comps) \
                or v in env or v in (t, ys) or self.unit.rebinds("all"):
            self.abort(e, "all(v in ys for v in t) with components of t that are not of the item type of the list ys")
        return t, ys, comps

    def expr9b(self, e, want: str, env, hoist) -> Optional[str]:
        if isinstance(e, ast.Call) and isinstance(e.func, ast.Name) and e.func.id in self.unit.buildtrees9 \
                and e.func.id not in self.spec.types:
            # Tree() / Tree(name=e): a new node without children
            tn = e.func.id
            if want not in (tn, "option " + tn) or e.args or [k.arg for k in e.keywords] not in ([], ["name"]):
                self.abort(e, f"{tn}(..) other than {tn}() / {tn}(name=e), or where a value of type {want} is expected")
            name = f"(Some {self.expr(e.keywords[0].value, self.unit.buildtrees9[tn], env, hoist)})" if e.keywords else "None"
            term = f"({tn}_node {name} nil)"
            return f"(Some {term})" if want != tn else term
        lc = self.len_call9(e, env)
        if lc is not None:
            # len(x): x.__len__() -- the method returns the object with its result
            x, cls, m = lc
            if want != m.ret:
                self.abort(e, f"len({x}) of type {m.ret} where a value of type {want} is expected")
            self.nt += 1
            hoist.append(("call", f"({x}, t'{self.nt})", self.mcall(e, cls, m, "", x, [])))
            return f"t'{self.nt}"
        ai = self.all_in9(e, env)
        if ai is not None and want == "bool":
            # all(v in ys for v in t): the components of t left to right, `v in ys` comparing the items of ys with v (`==`)
            t, ys, comps = ai
            et = arg_of(self.spec.types[ys])
            k = self.kind(et)[0]
            if et == "elem":
                self.uses_eqb = True
                eq = "eqb"
            elif et in ("N", "Z"):
                eq = et + ".eqb"
            else:
                self.abort(e, f"membership test on items of type {et}")
            vs = [f"c'{i + 1}" for i in range(len(comps))]
            tests = [f"(existsb (fun y' => {eq} y' {v}) {ys})" for v in vs]
            term = tests[0]
            for x in tests[1:]:
                term = f"(andb {term} {x})"
            return f"(let '({', '.join(vs)}) := {t} in {term})"
        return None

    def expr9(self, e, want: str, env, hoist) -> Optional[str]:
        r = self.expr9b(e, want, env, hoist)
        if r is not None:
            return r
        if isinstance(e, ast.Name) and e.id == "self" and getattr(e, "as_object9", False) and self.cls is not None:
            # self handed to a local function (in the returned call: see `prepare9`): the object as it is then
            if want != self.cls.name or any(v not in env for v in self.fieldvars):
                self.abort(e, f"self where a value of type {want} is expected / before every attribute is assigned")
            return self.state(e)
        if isinstance(e, ast.BinOp) and isinstance(e.op, ast.Add) and is_list(want) and self.ntype9(e, env) == want:
            # xs + ys on two lists of one type: a new list (left operand first)
            a = self.expr(e.left, want, env, hoist)
            return f"({a} ++ {self.expr(e.right, want, env, hoist)})"
        if isinstance(e, ast.Subscript) and isinstance(e.slice, ast.Slice) and is_list(want) and self.ntype9(e, env) == want:
            # xs[k:], k a non-negative int literal: a new list without the first k items (no error when xs is shorter)
            sl = e.slice
            if sl.upper is not None or sl.step is not None or not (isinstance(sl.lower, ast.Constant) and type(sl.lower.value) is int
                                                                  and sl.lower.value >= 0):
                self.abort(e, "slice other than xs[<non-negative int literal>:]")
            return f"(skipn {sl.lower.value} {e.value.id})"
        if isinstance(e, ast.Call) and getattr(e, "list_set9", False):
            # list(set(xs)) (built by `prepare9`): the distinct items of xs in the order Python's set iteration gives --
            # the declared Section variable applied to the list of the items inserted, in insertion order
            lt = self.spec.types[e.args[0].id]
            if lt != want or lt not in self.unit.list_set_order9 or e.args[0].id not in env:
                self.abort(e, f"list(set(..)) of a {lt} where a {want} is expected / no order declared for it")
            self.uses_vars.add(self.unit.list_set_order9[lt])
            return f"({self.unit.list_set_order9[lt]} {e.args[0].id})"
        if isinstance(e, ast.List) and len(e.elts) == 1 and is_list(want) and self.ntype9(e, env) == want:
            # [x], x an object / a built tree (its value now) or a new node
            return f"(cons {self.expr(e.elts[0], arg_of(want), env, hoist)} nil)"
        if isinstance(e, ast.Call) and isinstance(e.func, ast.Attribute) and e.func.attr == "copy" and self.ntype9(e, env) == want \
                and want in self.unit.buildtrees9:
            return e.func.value.id                        # t.copy() (ete3: a deep copy) of a built tree: the same value
        f = self.local_call9(e)
        if f is not None and f == self.fn.name and self.cls is None:
            # the local function calls itself: a Fixpoint on fuel; arguments left to right
            if not self.spec.rec_fuel or e.keywords or len(e.args) != len(self.params) \
                    or any(isinstance(a, ast.Starred) for a in e.args):
                self.abort(e, f"recursive call of {f} without declared fuel / with the wrong number of arguments")
            if want != self.spec.ret:
                self.abort(e, f"{f}(..) where a value of type {want} is expected")
            args = []
            for a, q in zip(e.args, self.params):
                qt = self.spec.types[q]
                if self.kind(qt)[0] == "class":
                    self.object_arg9(e, a, env)
                elif is_list(qt) and not (self.is_fresh(a) or isinstance(a, ast.Name) or (
                        isinstance(a, ast.Subscript) and isinstance(a.value, ast.Name) and not isinstance(a.slice, ast.Slice))):
                    self.abort(e, "list argument that is neither newly built, a variable nor an item of a list variable")
                args.append(self.expr(a, qt, env, hoist))
            self.in_rec = True
            self.nt += 1
            hoist.append(("call", f"t'{self.nt}", " ".join([self.prefix + (self.spec.alias or self.fn.name) + "_rec fuel''"] + args)))
            return f"t'{self.nt}"
        if f is not None:
            owner = self.unit.local_owner9[f]
            if owner != (self.cls.name if self.cls is not None else None, self.fn.name) or f not in self.unit.functions:
                self.abort(e, f"call of the local function {f} outside the method that defines it")
            callee, params = self.unit.functions[f], self.unit.params[f]
            if e.keywords or len(e.args) != len(params) or any(isinstance(a, ast.Starred) for a in e.args) or want != callee.ret:
                self.abort(e, f"{f}() called with {len(e.args)} arguments / where a value of type {want} is expected")
            args = []
            for a, q in zip(e.args, params):
                qt = callee.types[q]
                if self.kind(qt)[0] == "class":
                    if not (isinstance(a, ast.Name) and a.id == "self" and getattr(a, "as_object9", False)):
                        self.object_arg9(e, a, env)
                elif is_list(qt) and not (isinstance(a, ast.Name) and a.id in env and a.id not in self.fieldvars):
                    self.abort(e, "list argument that is not a variable")     # (the callee cannot update its parameters)
                args.append(self.expr(a, qt, env, hoist))
            self.nt += 1
            hoist.append(("call", f"t'{self.nt}", " ".join([self.prefix + (callee.alias or callee.name)] + args)))
            return f"t'{self.nt}"
        return None

    def object_arg9(self, call, a, env):
        """An object handed to a local function must be a local variable holding a copy (`deepcopy`) that no statement
        textually after the call updates: the callee does not update its parameters (checked there) but may return the
        object inside its result, which therefore shows the value the object has at the call."""
        if not (isinstance(a, ast.Name) and a.id in env and a.id not in self.params and a.id not in self.fieldvars):
            self.abort(call, "object argument that is not a local variable")
        if any(isinstance(n, (ast.For, ast.While)) for n in ast.walk(self.fn)):
            self.abort(call, "object handed to a local function inside a function with loops")
        for n in ast.walk(self.fn):
            if isinstance(n, ast.Call) and isinstance(n.func, ast.Attribute) and isinstance(n.func.value, ast.Name) \
                    and n.func.value.id == a.id and (n.lineno, n.col_offset) > (call.lineno, call.col_offset):
                self.abort(n, f"{a.id!r} is used as a receiver after it was handed to a local function")

    def prepare9(self):
        """(method) Drop the definitions of the local functions translated before this method; rewrite
        `return f(p1=self, p2=list(set(self.m(i) for i in range(e))), ..)` (f such a local function) into the statements it
        abbreviates: the generator is consumed at once by `set`, which inserts its items in order."""
        fn, key = self.fn, (self.cls.name if self.cls is not None else None, self.fn.name)
        local = self.unit.local_defs9.get(key, set())
        if not local:
            return
        body = [b for b in fn.body if not (isinstance(b, ast.FunctionDef) and b.name in local)]
        for b in body:
            for n in ast.walk(b):
                if isinstance(n, (ast.FunctionDef, ast.AsyncFunctionDef, ast.Lambda, ast.ClassDef)):
                    self.abort(n, "definition inside a method other than its translated local functions")
        out = []
        for b in body:
            call = b.value if isinstance(b, ast.Return) else None
            if not (isinstance(call, ast.Call) and isinstance(call.func, ast.Name) and call.func.id in local and b in fn.body):
                for n in ast.walk(b):
                    if isinstance(n, ast.Name) and n.id in local:
                        self.abort(n, f"use of the local function {n.id} other than `return {n.id}(..)` at the top level of the method")
                out.append(b)
                continue
            params = self.unit.params[call.func.id]
            args = list(call.args)
            if any(isinstance(a, ast.Starred) for a in args) or any(k.arg is None for k in call.keywords) \
                    or [k.arg for k in call.keywords] != params[len(args):]:
                self.abort(call, "call of a local function whose keyword arguments are not exactly the remaining parameters in order")
            args += [k.value for k in call.keywords]           # evaluated in this order
            pre, seen_effect = [], False
            for i, a in enumerate(args):
                if isinstance(a, ast.Name) and a.id == "self":
                    a.is_call_base = True                      # a reference to the object: read when the callee runs
                    a.as_object9 = True
                    continue
                if isinstance(a, ast.Constant) and a.value is None:
                    continue
                if isinstance(a, ast.Name):
                    continue                                   # a variable: reading it has no effect
                g = a.args[0].args[0] if (isinstance(a, ast.Call) and isinstance(a.func, ast.Name) and a.func.id == "list"
                                          and len(a.args) == 1 and not a.keywords and isinstance(a.args[0], ast.Call)
                                          and isinstance(a.args[0].func, ast.Name) and a.args[0].func.id == "set"
                                          and len(a.args[0].args) == 1 and not a.args[0].keywords) else None
                if not isinstance(g, ast.GeneratorExp) or seen_effect or "list" in self.spec.types or "set" in self.spec.types \
                        or self.unit.rebinds("list") or self.unit.rebinds("set"):
                    self.abort(a, "argument of a local function other than self, None, or one list(set(<generator>))")
                seen_effect = True
                c = g.generators[0]
                if len(g.generators) != 1 or c.is_async or c.ifs or not isinstance(c.target, ast.Name) \
                        or not (isinstance(c.iter, ast.Call) and isinstance(c.iter.func, ast.Name) and c.iter.func.id == "range"
                                and len(c.iter.args) == 1 and not c.iter.keywords) \
                        or not (_is_self_call(g.elt) and not g.elt.keywords):
                    self.abort(a, "generator other than `self.m(..) for i in range(e)`")
                var = c.target.id
                others = [n for s in fn.body for n in ast.walk(s) if isinstance(n, ast.Name) and n.id == var
                          and not any(n is x for x in ast.walk(g))]
                if others or var in self.params or any(isinstance(x, ast.Name) and x.id == var for x in ast.walk(c.iter)):
                    self.abort(a, f"the generator variable {var!r} is also a variable of the method")
                m = self.resolve(g.elt)
                if m is None or not m.ret:
                    self.abort(a, "generator item that is not the call of a translated method returning a value")
                acc, item = "items9", "item9"
                for v in (acc, item):
                    if v in self.spec.types or v in _names(fn.body):
                        self.abort(a, f"the name {v!r} is in use")
                self.spec.types[acc] = "list " + m.ret
                self.spec.types[item] = m.ret
                loc = lambda node: ast.copy_location(node, a)
                nm = lambda x, ctx=ast.Load: loc(ast.Name(id=x, ctx=ctx()))
                pre.append(loc(ast.Assign(targets=[nm(acc, ast.Store)], value=loc(ast.List(elts=[], ctx=ast.Load())))))
                loop_body = [loc(ast.Assign(targets=[nm(item, ast.Store)], value=g.elt)),
                             loc(ast.Expr(value=loc(ast.Call(func=loc(ast.Attribute(value=nm(acc), attr="append", ctx=ast.Load())),
                                                             args=[nm(item)], keywords=[]))))]
                pre.append(loc(ast.For(target=nm(var, ast.Store), iter=c.iter, body=loop_body, orelse=[])))
                marker = loc(ast.Call(func=nm("list"), args=[nm(acc)], keywords=[]))
                marker.list_set9 = True
                pre.append(loc(ast.Assign(targets=[nm(acc, ast.Store)], value=marker)))
                args[i] = nm(acc)
            call.args, call.keywords = args, []
            out.extend(pre + [b])
        fn.body = out

    def block9b(self, s, rest, env, ctx, h) -> Optional[List[str]]:
        if isinstance(s, (ast.Assign, ast.AnnAssign)) and self.unit.buildtrees9:
            # a variable holding a tree under construction is only ever bound to an object nothing else names: a new node, a
            # copy, None, or what a function of the unit returns (an object the callee built) -- `y = x` would give the tree a
            # second name, and x.add_child(..) would then change y as well
            tg = s.targets[0] if isinstance(s, ast.Assign) and len(s.targets) == 1 else getattr(s, "target", None)
            if isinstance(tg, ast.Name):
                tt = self.spec.types.get(tg.id, "")
                bt = arg_of(tt) if is_option(tt) else tt
                v = s.value
                if bt in self.unit.buildtrees9 and not (
                        isinstance(v, ast.Constant) and v.value is None and is_option(tt)
                        or isinstance(v, ast.Call) and isinstance(v.func, ast.Name) and v.func.id not in self.spec.types
                        and (v.func.id == bt or v.func.id in self.unit.functions or v.func.id == self.fn.name)
                        or isinstance(v, ast.Call) and isinstance(v.func, ast.Attribute) and v.func.attr == "copy"):
                    self.abort(s, f"{tg.id!r} holds a tree under construction: it may only be bound to a new node, a copy, None or "
                                  "the result of a function of the unit (anything else could give one tree two names)")
        if isinstance(s, ast.Assign) and getattr(s, "unpack9", False):
            # a, b, _ = t (built by `rewrite9` from the target of a for): the components of a fixed-length tuple
            t, tgt = s.value.id, s.targets[0]
            comps = self.unit.tuples9[self.spec.types[t]]
            names = [x.id if isinstance(x, ast.Name) else None for x in tgt.elts]
            real = [n for n in names if n != "_"]
            if len(names) != len(comps) or None in names or len(set(real)) != len(real) or t not in env:
                self.abort(s, f"unpacking of a {self.spec.types[t]} into anything but {len(comps)} distinct variables (or _)")
            for n, c in zip(names, comps):
                if n != "_" and (self.ty(s, n) != c or n in self.params or n in self.fieldvars or n + "!" in env):
                    self.abort(s, f"{n!r} must be a local variable declared {c}")
            return [f"let '({', '.join(names)}) := {t} in"] + self.block(rest, env + [n for n in real if n not in env], ctx)
        if isinstance(s, ast.Assign) and getattr(s, "mcall9", False):
            # xs = x.m(..) (built by `rewrite9` from the sequence of a for): the object is bound again, xs is what m returns
            c, v = s.value, s.targets[0].id
            oc = self.obj_call(c, env)
            if oc is None:
                self.abort(s, "loop over the result of a call that is not a translated method of a local object")
            x, cls, sfx, m = oc
            if x not in env or x in self.params or x in self.fieldvars:
                self.abort(s, f"{x}.{m.name}(..) on a parameter / an attribute")
            args = self.method_args(c, cls, m, sfx, env, h)
            call = self.mcall(s, cls, m, sfx, x, args)
            return self.hoisted(h, [f"match {call} with", "| Err e' => " + ctx.fail("e'"), f"| Ok ({x}, {v}) =>"]
                                + _ind(self.block(rest, env + [v], ctx)) + ["end"], ctx)
        if isinstance(s, ast.Expr) and isinstance(s.value, ast.Call) and isinstance(s.value.func, ast.Attribute) \
                and s.value.func.attr == "add_child" and isinstance(s.value.func.value, ast.Name) \
                and self.spec.types.get(s.value.func.value.id) in self.unit.buildtrees9:
            # x.add_child(y): y becomes the last child of x.  x is a local variable; y is a new node or a variable that is never
            # itself given a child in this function (so that x keeps seeing the y it was given)
            x, c = s.value.func.value.id, s.value
            tn = self.spec.types[x]
            if x not in env or x in self.params or x in self.fieldvars or x + "!" in env or c.keywords or len(c.args) != 1:
                self.abort(s, "add_child on something that is not a local tree variable / with other arguments than the child")
            self.no_escape9(s, x)
            a = c.args[0]
            if isinstance(a, ast.Name):
                if a.id == x or a.id not in env or self.vtype(s, a.id, env) != tn:
                    self.abort(s, f"the child {a.id!r} is not a (non-None) {tn} variable")
                for n in ast.walk(self.fn):
                    if isinstance(n, ast.Call) and isinstance(n.func, ast.Attribute) and n.func.attr == "add_child" \
                            and isinstance(n.func.value, ast.Name) and n.func.value.id == a.id:
                        self.abort(n, f"{a.id!r} is given to add_child and is itself given children in this function")
                child = a.id
            elif isinstance(a, ast.Call) and isinstance(a.func, ast.Name) and a.func.id == tn:
                child = self.expr(a, tn, env, h)
            elif isinstance(a, ast.Call) and isinstance(a.func, ast.Attribute) and a.func.attr == "copy" \
                    and self.ntype9(a, env) == tn:
                child = self.expr(a, tn, env, h)           # a copy: nothing else names it
            else:
                self.abort(s, "child that is neither a variable nor a new node")
            return self.hoisted(h, [f"let {x} := ({tn}_add_child {x} {child}) in"] + self.block(rest, env, ctx), ctx)
        if isinstance(s, ast.Assign) and len(s.targets) == 1 and isinstance(s.targets[0], ast.Name) \
                and isinstance(s.value, ast.DictComp) and self.kind(self.spec.types.get(s.targets[0].id, ""))[0] == "elemdict":
            # d = {k: i for i, k in enumerate(xs)}: one store per item of xs, in order
            d, v = s.targets[0].id, s.value
            g = v.generators[0]
            ok = len(v.generators) == 1 and not g.is_async and not g.ifs and isinstance(g.target, ast.Tuple) \
                and len(g.target.elts) == 2 and all(isinstance(x, ast.Name) for x in g.target.elts) \
                and isinstance(g.iter, ast.Call) and isinstance(g.iter.func, ast.Name) and g.iter.func.id == "enumerate" \
                and len(g.iter.args) == 1 and not g.iter.keywords and isinstance(g.iter.args[0], ast.Name) \
                and isinstance(v.key, ast.Name) and isinstance(v.value, ast.Name)
            if not ok or "enumerate" in self.spec.types or self.unit.rebinds("enumerate"):
                self.abort(s, "dictionary comprehension other than {k: i for i, k in enumerate(xs)}")
            i, k, xs = g.target.elts[0].id, g.target.elts[1].id, g.iter.args[0].id
            if v.key.id != k or v.value.id != i or i == k or xs not in env or self.ntype(g.iter.args[0], env) != "list" \
                    or self.unit.elemdicts[self.spec.types[d]] != "N" or d in self.params or d in self.fieldvars \
                    or i in env or k in env or self.unit.outside:
                self.abort(s, "dictionary comprehension other than {k: i for i, k in enumerate(xs)} into a local dictionary from "
                              "elements to positions, xs a list of elements")
            self.need("adict_set", "enum_dict9")
            self.uses_eqb = True
            return [f"let {d} := (enum_dict9 eqb (@nil (A * N)) 0%N {xs}) in"] + self.block(rest, env + [d] * (d not in env), ctx)
        if isinstance(s, ast.Assign) and len(s.targets) == 1 and isinstance(s.targets[0], ast.Name) \
                and isinstance(s.value, ast.ListComp) and isinstance(s.value.elt, ast.Subscript):
            # ys = [xs[i] for i in g]: the items of xs at the positions g lists, IndexError at the first one out of range
            y, v = s.targets[0].id, s.value
            g = v.generators[0]
            ok = len(v.generators) == 1 and not g.is_async and not g.ifs and isinstance(g.target, ast.Name) \
                and isinstance(g.iter, ast.Name) and isinstance(v.elt.value, ast.Name) and isinstance(v.elt.slice, ast.Name) \
                and v.elt.slice.id == g.target.id
            if not ok:
                self.abort(s, "list comprehension other than [xs[i] for i in g]")
            xs, i, gv = v.elt.value.id, g.target.id, g.iter.id
            yt = self.ty(s, y)
            if xs not in env or gv not in env or i in env or i in (xs, gv, y) or self.spec.types.get(gv) != "list N" \
                    or not is_list(yt) or self.spec.types.get(xs) != yt or y in self.params or y in self.fieldvars \
                    or self.ty(s, i) != "N" or arg_of(yt) not in IMMUTABLE:
                self.abort(s, "[xs[i] for i in g]: g must be a list of non-negative ints, xs a list of immutable values, the "
                              "target a local list of the same type")
            self.need("list_gets9")
            return [f"match list_gets9 {xs} {gv} with", f"| None => {ctx.fail('IndexError')}", f"| Some {y} =>"] \
                + _ind(self.block(rest, env + [y] * (y not in env), ctx)) + ["end"]
        return None

    def no_escape9(self, m, x: str):
        """`x.add_child(..)` at statement `m` is translated as a rebinding of x, which is only right if nothing else holds
        the object x names: abort if x was handed on (stored in a list, passed, returned, ..) earlier in the same life of
        the variable -- textually between the last `x = <new node>` before `m` and `m`, or anywhere in a loop around `m`
        whose body does not bind x to a new node before `m`."""
        fn = self.fn
        parents = {id(c): n for n in ast.walk(fn) for c in ast.iter_child_nodes(n)}

        def receiver(n) -> bool:          # x in `x.add_child(..)` / `x.copy()`
            par = parents.get(id(n))
            return isinstance(par, ast.Attribute) and par.value is n and par.attr in ("add_child", "copy") \
                and isinstance(parents.get(id(par)), ast.Call) and parents[id(par)].func is par
        births = [n.lineno for n in ast.walk(fn) if isinstance(n, ast.Assign) and len(n.targets) == 1
                  and isinstance(n.targets[0], ast.Name) and n.targets[0].id == x]
        escapes = [n for n in ast.walk(fn) if isinstance(n, ast.Name) and n.id == x and isinstance(n.ctx, ast.Load)
                   and not receiver(n)]
        loops = []
        p = parents.get(id(m))
        while p is not None:
            if isinstance(p, (ast.For, ast.While)):
                loops.append(p)
            p = parents.get(id(p))
        for e in escapes:
            if e.lineno < m.lineno and not any(e.lineno < b <= m.lineno for b in births):
                self.abort(e, f"{x!r} is handed on here and given a child later (line {m.lineno}): the holder would see the change")
            for lp in loops:
                inside = any(e is n for n in ast.walk(lp))
                first = lp.body[0].lineno if lp.body else lp.lineno
                if inside and not any(first <= b <= m.lineno for b in births):
                    self.abort(e, f"{x!r} is handed on inside a loop that gives it a child (line {m.lineno}) without binding it "
                                  "to a new node first")

    def block9c(self, s, rest, env, ctx, h) -> Optional[List[str]]:
        if isinstance(s, ast.Assign) and getattr(s, "objitem9", False):
            x, y = s.targets[0].id, s.value.id       # (built by `rewrite9`) the object the loop is at, as a local of the body
            if x in self.params or x in self.fieldvars or y not in env or self.ty(s, x) != self.ty(s, y):
                self.abort(s, f"loop variable {x!r} holding an object is a parameter / an attribute")
            return [f"let {x} := {y} in"] + self.block(rest, env + [x] * (x not in env), ctx)
        if isinstance(s, ast.If) and isinstance(s.test, ast.Compare) and len(s.test.ops) == 1 and isinstance(s.test.ops[0], ast.Is) \
                and isinstance(s.test.comparators[0], ast.Constant) and s.test.comparators[0].value is None \
                and isinstance(s.test.left, ast.Call) and isinstance(s.test.left.func, ast.Name) \
                and s.test.left.func.id in self.unit.functions and s.test.left.func.id not in self.spec.types \
                and is_option(self.unit.functions[s.test.left.func.id].ret):
            # if f(..) is None: <ends in return / raise>, f a function of the unit: the call, then a match on its result
            if s.orelse or not s.body or not isinstance(s.body[-1], (ast.Return, ast.Raise)):
                self.abort(s, "`if f(..) is None:` whose body does not end in return / raise, or with an else")
            t = self.expr(s.test.left, self.unit.functions[s.test.left.func.id].ret, env, h)
            return self.hoisted(h, [f"match {t} with", "| None =>"] + _ind(self.block(s.body, env, ctx)) + ["| Some _ =>"]
                                + _ind(self.block(rest, env, ctx)) + ["end"], ctx)
        if isinstance(s, ast.Assign) and len(s.targets) == 1 and isinstance(s.targets[0], ast.Name) \
                and isinstance(s.value, ast.Call) and isinstance(s.value.func, ast.Attribute) \
                and isinstance(s.value.func.value, ast.Name) and s.value.func.value.id != "self" \
                and s.value.func.value.id in env and self.kind(self.spec.types.get(s.value.func.value.id, ""))[0] == "class" \
                and is_list(self.spec.types.get(s.targets[0].id, "")):
            # ys = x.m(..), x a local object (or the object a loop iterates) that is not mentioned again in this block, m a
            # translated method that is not `pure` and returns a list: the object is bound again, ys is the list
            oc = self.obj_call(s.value, env)
            x, cls, sfx, m = oc
            y = s.targets[0].id
            if m.pure or m.ret != self.ty(s, y) or x in self.params or x in self.fieldvars or y in self.params \
                    or y in self.fieldvars or x in _names(rest):
                return None
            args = self.method_args(s.value, cls, m, sfx, env, h)
            call = self.mcall(s, cls, m, sfx, x, args)
            return self.hoisted(h, [f"match {call} with", "| Err e' => " + ctx.fail("e'"), f"| Ok ({x}, {y}) =>"]
                                + _ind(self.block(rest, env + [y] * (y not in env), ctx)) + ["end"], ctx)
        if isinstance(s, ast.Assign) and len(s.targets) == 1 and isinstance(s.targets[0], ast.Name) \
                and isinstance(s.value, ast.ListComp) and isinstance(s.value.elt, ast.ListComp):
            y, v = s.targets[0].id, s.value
            yt = self.ty(s, y)
            g = v.generators[0]
            if len(v.generators) != 1 or g.is_async or g.ifs or not isinstance(g.target, ast.Name) or not isinstance(g.iter, ast.Name) \
                    or g.iter.id not in env or y in self.params or y in self.fieldvars or g.target.id in env:
                self.abort(s, "nested list comprehension outside the handled subset")
            inner, ov, oseq = v.elt, g.target.id, g.iter.id
            ig = inner.generators[0]
            if isinstance(inner.elt, ast.Subscript) and len(inner.generators) == 1 and not ig.ifs and not ig.is_async \
                    and isinstance(ig.target, ast.Name) and isinstance(ig.iter, ast.Name) and ig.iter.id == ov \
                    and isinstance(inner.elt.value, ast.Name) and isinstance(inner.elt.slice, ast.Name) \
                    and inner.elt.slice.id == ig.target.id:
                # ys = [[xs[i] for i in g] for g in gs]
                xs, i = inner.elt.value.id, ig.target.id
                if xs not in env or self.spec.types.get(oseq) != "list (list N)" or self.ty(s, ov) != "list N" or self.ty(s, i) != "N" \
                        or i in env or len({xs, i, ov, oseq, y}) != 5 or not is_list(self.spec.types.get(xs, "")) \
                        or yt != norm_type("list (" + self.spec.types[xs] + ")", self.unit.extra_names()) \
                        or arg_of(self.spec.types[xs]) not in IMMUTABLE:
                    self.abort(s, "[[xs[i] for i in g] for g in gs]: gs must be a list of lists of non-negative ints, xs a list of "
                                  "immutable values, the target a local list of such lists")
                self.need("list_gets9", "list_gets_all9")
                return [f"match list_gets_all9 {xs} {oseq} with", f"| None => {ctx.fail('IndexError')}", f"| Some {y} =>"] \
                    + _ind(self.block(rest, env + [y] * (y not in env), ctx)) + ["end"]
            if self.comp_kind(inner) is not None and self.comp_kind(inner)[0] == "filter":
                # ys = [[t for t in ts if c] for gl in gls]: c cannot raise and may mention gl
                if not is_list(self.spec.types.get(oseq, "")) or self.ty(s, ov) != arg_of(self.spec.types[oseq]) \
                        or not is_list(yt) or not is_list(arg_of(yt)):
                    self.abort(s, "nested filtering comprehension with undeclared / ill-typed variables")
                sub: list = []
                self.comp_var9 = None
                term = self.expr(inner, arg_of(yt), env + [ov], sub)
                if sub:
                    self.abort(s, "nested comprehension whose inner part can raise")
                return [f"let {y} := (map (fun {self.binder(s, ov)} => {term}) {oseq}) in"] \
                    + self.block(rest, env + [y] * (y not in env), ctx)
            self.abort(s, "nested list comprehension outside the handled subset")
        return None

    def block9(self, s, rest, env, ctx, h) -> Optional[List[str]]:
        r = self.block9b(s, rest, env, ctx, h)
        if r is not None:
            return r
        r = self.block9c(s, rest, env, ctx, h)
        if r is not None:
            return r
        if isinstance(s, ast.FunctionDef):
            self.abort(s, "local function definition that the driver did not declare")
        if isinstance(s, ast.Assign) and len(s.targets) == 1 and isinstance(s.targets[0], ast.Name) \
                and isinstance(s.value, ast.Call) and isinstance(s.value.func, ast.Name) and s.value.func.id == "deepcopy" \
                and "deepcopy" not in self.spec.types:
            # x = deepcopy(y), y an object all of whose attributes hold ints / lists of ints: an object with equal attributes
            # that shares nothing with y -- the value of y
            self.unit.imported("deepcopy", "copy")
            x, c = s.targets[0].id, s.value
            if c.keywords or len(c.args) != 1 or not isinstance(c.args[0], ast.Name) or c.args[0].id not in env:
                self.abort(s, "deepcopy of something that is not a variable")
            y = c.args[0].id
            k, name, _ = self.kind(self.ty(s, x))
            if k != "class" or self.vtype(s, y, env) != self.spec.types[x] or x in self.params or x in self.fieldvars or x == y:
                self.abort(s, "x = deepcopy(y) is translated for a local x and a variable y of one translated class")
            cls = self.unit.classes[name]
            if cls.views or cls.frozen or not all(self.value_type9(t) for t in cls.fields.values()):
                self.abort(s, f"deepcopy of a {name}: an attribute could hold something whose copy is not the same value")
            cdef = self.unit._unique(self.unit.tree.body, name, ast.ClassDef)
            for b in cdef.body:
                if isinstance(b, ast.FunctionDef) and b.name in ("__deepcopy__", "__copy__", "__reduce__", "__reduce_ex__",
                                                                   "__getstate__", "__setstate__", "__new__", "__getnewargs__",
                                                                   "__getnewargs_ex__"):
                    self.abort(b, f"{name} defines {b.name!r}, which changes what deepcopy does")
            return [f"let {x} := {y} in"] + self.block(rest, env + [x] * (x not in env), ctx)
        if isinstance(s, ast.If):
            t = s.test
            dup = lambda stmts: [copy.deepcopy(x) for x in stmts]
            mk = lambda test, body, orelse: ast.copy_location(ast.If(test=test, body=body, orelse=orelse), s)
            if self.none_test9(t, env) == "is" and not s.orelse and s.body and isinstance(s.body[-1], (ast.Return, ast.Raise)) \
                    and t.left.id not in self.params and t.left.id not in self.fieldvars \
                    and t.left.id not in self.assigned(s.body + rest):
                return None                          # block6: a match; x is the value in what follows
            if self.none_test9(t, env) == "is":
                # if x is None: A else: B  ==  if x is not None: B else: A
                neg = ast.copy_location(ast.Compare(left=t.left, ops=[ast.IsNot()], comparators=t.comparators), t)
                return self.block([mk(neg, s.orelse or [ast.copy_location(ast.Pass(), s)], s.body)] + rest, env, ctx)
            if isinstance(t, ast.BoolOp) and len(t.values) >= 2 and self.none_test9(t.values[0], env) is not None:
                # if x is None or c: A else: B  ==  if x is None: A else: (if c: A else: B); c is evaluated only when x is
                # not None, as Python's `or` does -- and dually for `x is not None and c`
                if any(isinstance(n, (ast.For, ast.While, ast.FunctionDef)) for b in s.body + s.orelse for n in ast.walk(b)):
                    self.abort(s, "test on None combined with and/or around a loop")
                others = t.values[1] if len(t.values) == 2 else ast.copy_location(ast.BoolOp(op=t.op, values=t.values[1:]), t)
                kind = self.none_test9(t.values[0], env)
                if isinstance(t.op, ast.Or) and kind == "is":
                    return self.block([mk(t.values[0], s.body, [mk(others, dup(s.body), s.orelse)])] + rest, env, ctx)
                if isinstance(t.op, ast.And) and kind == "isnot":
                    return self.block([mk(t.values[0], [mk(others, s.body, dup(s.orelse))], s.orelse)] + rest, env, ctx)
                self.abort(s, "test on None combined with and/or other than `x is None or c` / `x is not None and c`")
        return None

    def block6(self, s, rest, env, ctx, h) -> Optional[List[str]]:
        """The statement forms of the sixth extension (None: `s` is not one of them)."""
        ct = self.celltype()
        if isinstance(s, ast.FunctionDef):
            return self.closure(s, rest, env, ctx)
        if isinstance(s, (ast.Expr, ast.Assign)) and isinstance(s.value, ast.Call) and isinstance(s.value.func, ast.Name) \
                and s.value.func.id not in self.spec.types and s.value.func.id in self.unit.functions \
                and any(self.kind(self.unit.functions[s.value.func.id].types[m])[0] == "class"
                        for m in self.unit.mutates.get(s.value.func.id, ())):
            tgt = None
            if isinstance(s, ast.Assign):
                if len(s.targets) != 1 or not isinstance(s.targets[0], ast.Name):
                    self.abort(s, "only 'name = f(..)' for a function that updates objects")
                tgt = s.targets[0].id
                if self.ty(s, tgt) != self.unit.functions[s.value.func.id].ret or tgt in self.params or tgt in self.fieldvars:
                    self.abort(s, f"{tgt!r} must be a local variable of the type the function returns")
            return self.fun_call_stmt(s, s.value, tgt, rest, env, ctx, h)
        if self.spec.generator:
            if isinstance(s, ast.Return) and s.value is None:
                return [ctx.ret("acc'")]
            if isinstance(s, ast.Expr) and isinstance(s.value, ast.Yield) and s.value.value is not None:
                # yield e: one more item of the list of what the generator yields
                item = self.expr(s.value.value, arg_of(self.spec.ret), env, h)
                return self.hoisted(h, [f"let acc' := (acc' ++ cons {item} nil) in"] + self.block(rest, env, ctx), ctx)
            if isinstance(s, ast.Expr) and isinstance(s.value, ast.YieldFrom):
                # yield from e: the items e yields
                v = s.value.value
                if isinstance(v, ast.Call) and isinstance(v.func, ast.Attribute) and v.func.attr == "__iter__" and not v.args:
                    v = v.func.value
                items = self.iterated(s, v, arg_of(self.spec.ret), env, h)
                return self.hoisted(h, [f"let acc' := (acc' ++ {items}) in"] + self.block(rest, env, ctx), ctx)
        # return c, c a reference: the cell it designates (where None or an entry is expected: a dictionary there is the
        # AttributeError of the method call that follows in the caller)
        if isinstance(s, ast.Return) and s.value is not None and self.is_cursor(s.value, env):
            c, root = s.value.id, self.cursor_root(s, s.value.id)
            self.nt += 1
            t1 = f"t'{self.nt}"
            h.append(("call", t1, self.cell_call('at', f"{c} {root}")))
            if self.spec.ret == ct:
                return self.hoisted(h, [ctx.ret(t1)], ctx)
            if self.spec.ret != "option " + self.unit.cellspec["entry"]:
                self.abort(s, f"a reference is returned where a value of type {self.spec.ret} is expected")
            self.nt += 1
            h.append(("call", f"t'{self.nt}", self.cell_call('entry', f"{t1}")))
            return self.hoisted(h, [ctx.ret(f"t'{self.nt}")], ctx)
        # if x is None: <ends in return / raise>  -- x holding an optional value: a match; x is the value afterwards
        if isinstance(s, ast.If) and isinstance(s.test, ast.Compare) and len(s.test.ops) == 1 \
                and isinstance(s.test.ops[0], ast.Is) and isinstance(s.test.left, ast.Name) \
                and isinstance(s.test.comparators[0], ast.Constant) and s.test.comparators[0].value is None \
                and s.test.left.id in env and s.test.left.id + "!" not in env and is_option(self.spec.types.get(s.test.left.id, "")) \
                and not s.orelse and s.body and isinstance(s.body[-1], (ast.Return, ast.Raise)):
            x = s.test.left.id
            if x in self.params or x in self.fieldvars or x in self.assigned(s.body + rest):
                self.abort(s, f"{x!r} is tested against None and assigned afterwards (or is a parameter / an attribute)")
            return [f"match {x} with", "| None =>"] + _ind(self.block(s.body, env, ctx)) + [f"| Some {x} =>"] \
                + _ind(self.block(rest, env + [x + "!"], ctx)) + ["end"]
        if isinstance(s, ast.Assign) and len(s.targets) == 1 and isinstance(s.targets[0], ast.Name):
            x, v = s.targets[0].id, s.value
            # self.f = obj in __init__, f an attribute that refers to an object: its attributes become variables
            if x in self.viewvars:
                tname = self.viewvars[x]
                if self.fn.name != "__init__" or not (isinstance(v, ast.Name) and v.id in self.params and v.id in env
                                                      and self.ty(s, v.id) == tname) or x + "'" in "".join(env):
                    self.abort(s, f"{x.replace(chr(39), '.')} may only be bound once, by __init__, to a parameter holding a {tname}")
                vs = [f for f in self.fieldvars if f.startswith(x + "'")]
                return [f"let '{self.view_term(x)} := {v.id} in"] + self.block(rest, env + vs + [x], ctx)
            if self.spec.types.get(x) == "cursor":
                root = self.cursor_root(s, x)
                if isinstance(v, ast.Name):
                    # c = <root>: a reference to the root itself
                    if v.id != root or root not in env:
                        self.abort(s, f"the reference {x!r} is bound to something that is not a variable holding a root")
                    return [f"let {x} := (@nil ({self.ct(self.unit.cellspec['key']) if self.unit.seventh else self.unit.cellspec['key']})) in"] + self.block(rest, env + [x] * (x not in env), ctx)
                # c = c[k]: the reference follows the key k (reading c[k] may give the defaultdict the key)
                if x not in env:
                    self.abort(s, f"the reference {x!r} is not definitely assigned here")
                key = self.expr(v.slice, self.unit.cellspec["key_type"], env, h)
                h.append(("call", root, self.cell_call('touch', f"{x} {key} {root}")))
                return self.hoisted(h, [f"let {x} := ({x} ++ cons {key} nil) in"] + self.block(rest, env, ctx), ctx)
            # x = <method call returning a newly built object> / x = <call returning a reference that x only reads through>
            xt = self.spec.types.get(x, "")
            k, cname, _ = self.kind(arg_of(xt) if is_option(xt) else xt) if xt else (None, "", "")
            if k == "class" and isinstance(v, ast.Call) and isinstance(v.func, ast.Name) and v.func.id not in self.spec.types \
                    and v.func.id in self.unit.functions and self.unit.functions[v.func.id].fresh \
                    and not self.unit.mutates.get(v.func.id) and x not in self.fieldvars and x not in self.params:
                term = self.expr(v, xt, env, h)
                return self.hoisted(h, [f"let {x} := {term} in"] + self.block(rest, env + [x] * (x not in env), ctx), ctx)
            if k == "class" and isinstance(v, ast.Call) and isinstance(v.func, ast.Attribute) and x not in self.fieldvars \
                    and x not in self.params and not self.ntype(v, env).startswith("new "):
                m = self.callee_spec(v, env)
                if m is None or not (m.fresh or self.read_only(x)):
                    self.abort(s, f"{x!r} is bound to an object that the call does not build, and is not used for reading only")
                term = self.expr(v, xt, env, h)
                env2 = [w for w in env if w != x + "!"]
                return self.hoisted(h, [f"let {x} := {term} in"] + self.block(rest, env2 + [x] * (x not in env2), ctx), ctx)
        if isinstance(s, ast.Assign) and len(s.targets) == 1 and isinstance(s.targets[0], ast.Subscript) \
                and not isinstance(s.targets[0].slice, ast.Slice):
            tg = s.targets[0]
            if self.is_cursor(tg.value, env):
                # c[k] = v, c a reference to a dictionary of the nested table (the value first, then the key)
                c, root = tg.value.id, self.cursor_root(s, tg.value.id)
                val = self.expr(s.value, ct, env, h)
                key = self.expr(tg.slice, self.unit.cellspec["key_type"], env, h)
                h.append(("call", root, self.cell_call('store', f"{c} {key} {val} {root}")))
                return self.hoisted(h, self.block(rest, env, ctx), ctx)
            recv_t = self.chain_recv_type(tg.value, env)
            if recv_t is not None:
                # B..[k] = v: the value first, then the chain B.., then k, then __setitem__
                m = next((x for x in self.unit.done_methods.get(self.kind(recv_t)[1], []) if x.name == "__setitem__"), None)
                if m is None:
                    self.abort(s, f"'__setitem__' is not a method of {recv_t} translated before this function")
                ps = self.unit.params[(self.kind(recv_t)[1], _mkey(m))]
                val = self.expr(s.value, m.types[ps[1]], env, h)
                if self.chain_parse(tg.value, env) is not None and not isinstance(tg.value, ast.Name) \
                        and not (isinstance(tg.value, ast.Call) and isinstance(tg.value.func, ast.Name)):
                    self.chain(tg.value, env, h, setitem=(tg.slice, val))
                else:
                    self.chain_on_base(tg.value, env, h, setitem=(tg.slice, val))
                return self.hoisted(h, self.block(rest, env, ctx), ctx)
        if isinstance(s, ast.Expr) and isinstance(s.value, ast.Call) and isinstance(s.value.func, ast.Attribute) \
                and not s.value.keywords:
            c = s.value
            tg = c.func.value
            if isinstance(tg, ast.Subscript) and self.is_cursor(tg.value, env) and not isinstance(tg.slice, ast.Slice):
                # c[k].m(args), c a reference: the cell is read (an entry, else AttributeError), the method called on the
                # entry, the entry stored back
                cur, root = tg.value.id, self.cursor_root(s, tg.value.id)
                ent = self.unit.cellspec["entry"]
                cls = self.unit.classes[ent]
                m = next((x for x in self.unit.done_methods.get(ent, []) if x.name == c.func.attr), None)
                if m is None:
                    self.abort(s, f"{c.func.attr!r} is not a translated method of {ent}")
                key = self.expr(tg.slice, self.unit.cellspec["key_type"], env, h)
                h.append(("call", root, self.cell_call('touch', f"{cur} {key} {root}")))
                self.nt += 3
                t1, t2 = f"t'{self.nt - 2}", f"t'{self.nt - 1}"
                h.append(("call", t1, self.cell_call('get', f"{cur} {key} {root}")))
                h2: list = []
                args = self.method_args(c, cls, m, "", env, h2)
                call = self.mcall(s, cls, m, "", t2, args)
                self.need("AttributeError")
                inner = [f"match {call} with", "| Err e' => " + ctx.fail("e'"), f"| Ok ({t2}, _) =>",
                         "  match " + self.cell_call('store', f"{cur} {key} ({self.unit.q(ct)}{ct}_Entry {t2}) {root}") + " with",
                         "  | Err e' => " + ctx.fail("e'"), f"  | Ok {root} =>"] + _ind(_ind(self.block(rest, env, ctx))) + ["  end", "end"]
                return self.hoisted(h, [f"match {t1} with", f"| {self.unit.q(ct)}{ct}_Entry {t2} =>"]
                                    + _ind(self.hoisted(h2, inner, ctx)) + [f"| _ => {ctx.fail('AttributeError')}", "end"], ctx)
            if self.chain_parse(c, env) is not None and not (isinstance(tg, ast.Name) and self.obj_call_plain(c, env)):
                self.chain(c, env, h)          # B...m(args) as a statement: the value (if any) is dropped
                return self.hoisted(h, self.block(rest, env, ctx), ctx)
        return None

    def iter6(self, a, env) -> bool:
        """Is `a` a sequence expression of the sixth extension a `for` may iterate: a slice of a tuple variable, or a chain
        whose value is a list / tuple / set?"""
        if not self.tables():
            return False
        if isinstance(a, ast.Subscript) and isinstance(a.slice, ast.Slice) and isinstance(a.value, ast.Name) \
                and a.value.id in env and a.value.id in self.spec.types and is_tuple(self.vtype(a, a.value.id, env)):
            return True
        if isinstance(a, ast.Call) and self.chain_parse(a, env) is not None and not (
                isinstance(a.func.value, ast.Name) and self.obj_call_plain(a, env)):
            t = self.chain_type(a, env)
            return self.seq(t) or self.kind(t)[0] == "set"
        return False

    def starred(self, a, et: str, env, hoist) -> str:
        """`*xs` among the arguments of a `*args` parameter whose items have the type `et`: the list of the items of xs."""
        v = a.value
        if isinstance(v, ast.Name) and v.id in env and self.seq(self.ntype(v, env)) and arg_of(self.ntype(v, env)) == et:
            return v.id
        if isinstance(v, ast.Call) and isinstance(v.func, ast.Name) and v.func.id == "map" and "map" not in self.spec.types \
                and not self.unit.rebinds("map") and len(v.args) == 2 and not v.keywords and isinstance(v.args[0], ast.Lambda):
            # *map(lambda x: e, xs): e for each item of xs, in order (xs is evaluated first; the first error of an e ends it)
            lam = v.args[0]
            la = lam.args
            if len(la.args) != 1 or la.vararg or la.kwarg or la.kwonlyargs or la.posonlyargs or la.defaults:
                self.abort(a, "map(lambda ..) with a lambda of other than one plain parameter")
            x = la.args[0].arg
            items, it_t = self.seq_items(a, v.args[1], env, hoist)
            if self.canon(self.ty(a, x)) != self.canon(it_t) or x in env or any(
                    isinstance(n, ast.Name) and n.id != x and n.id in self.spec.types for n in ast.walk(lam.body)):
                self.abort(a, f"the parameter {x!r} of the lambda must be declared {it_t}, be used nowhere else, and be the only "
                              "variable the lambda mentions")
            sub: list = []
            term = self.expr(lam.body, et, env + [x], sub)
            self.nloop += 1
            fx = f"map'{self.nloop}"
            lctx = _Ctx(ret=lambda e: f"Ok {e}", fail=lambda e: f"Err {e}", fall=None)
            body = self.hoisted(sub, [f"match {fx} it'' with Err e' => Err e' | Ok r' => Ok (cons {term} r') end"], lctx)
            self.nt += 1
            hoist.append(("call", f"t'{self.nt}", " ".join(
                [f"(fix {fx} (it' : list {self.ctp(it_t)}) {{struct it'}} : res (list {self.ctp(et)}) :=",
                 f"match it' with nil => Ok nil | cons {x} it'' =>"] + body + ["end)", items])))
            return f"t'{self.nt}"
        return self.iterated(a, v, et, env, hoist)

    def iterated(self, node, v, et: str, env, hoist) -> str:
        """The list of the items `iter(v)` yields, v an expression whose value is an object of a translated class with a
        translated `__iter__` (a generator method: the list of what it yields)."""
        t = self.ntype(v, env)
        k, name, sfx = self.kind(t[4:] if t.startswith("new ") else t)
        m = next((x for x in self.unit.done_methods.get(name, []) if x.name == "__iter__"), None) if k in ("class", "union") else None
        if m is None or not m.pure or inst_type(arg_of(m.ret), sfx, self.unit.parametric()) != et:
            self.abort(node, f"*<value of type {t}> where the items of a list of {et} are expected")
        obj = self.expr(v, name + sfx, env, hoist)
        cls = self.unit.classes[name] if k == "class" else ClassSpec(name, name, {})
        self.nt += 1
        hoist.append(("call", f"(_, t'{self.nt})", self.mcall(node, cls, m, sfx, obj, [])))
        return f"t'{self.nt}"

    def read_only_param(self, cls: ClassSpec, m: FunSpec, p: str) -> bool:
        """Does the translated method `m` of `cls` only read the object its parameter `p` holds?  (It was translated under
        the rule that a method may only call `pure` methods on a parameter.)"""
        return True

    def check_fresh(self):
        """A method declared `fresh` returns an object built during the call: every `return` hands back a construction
        `C(..)`, the result of a method declared `fresh`, or a local variable (a local only ever holds such an object)."""
        for n in ast.walk(self.fn):
            if not isinstance(n, ast.Return):
                continue
            v = n.value
            ok = isinstance(v, ast.Call) and isinstance(v.func, ast.Name) and v.func.id in self.unit.classes \
                and v.func.id not in self.spec.types
            if isinstance(v, ast.Name) and v.id in self.spec.types and v.id not in self.params and v.id not in self.fieldvars \
                    and v.id not in self.viewvars and not self.read_only(v.id):
                ok = True
            if isinstance(v, ast.Call) and isinstance(v.func, ast.Attribute) and isinstance(v.func.value, ast.Name):
                t = self.spec.types.get(v.func.value.id, "")
                cname = self.kind(arg_of(t) if is_option(t) else t)[1] if t else ""
                m = next((y for y in self.unit.done_methods.get(cname, []) if y.name == v.func.attr), None)
                ok = ok or (m is not None and m.fresh)
            if not ok:
                self.abort(n, "method declared as returning a newly built object, but this return may hand back another one")

    def closure(self, s, rest, env, ctx) -> List[str]:
        """`def f(a, b): return e` inside a function, f declared of a function type: the Coq function `fun a b => e`.  `e`
        cannot raise; the variables it captures hold immutable values and are assigned once, before the definition."""
        f = s.name
        ft = self.ty(s, f)
        a = s.args
        body = [b for b in s.body if not (isinstance(b, ast.Expr) and isinstance(b.value, ast.Constant)
                                          and isinstance(b.value.value, str))]
        parts = [x.strip() for x in ft.split("->")]
        ps = [x.arg for x in a.args]
        if "->" not in ft or s.decorator_list or a.vararg or a.kwarg or a.kwonlyargs or a.posonlyargs or a.defaults \
                or len(ps) != len(parts) - 1 or len(body) != 1 or not isinstance(body[0], ast.Return) or body[0].value is None \
                or f in env or f in self.params or len(set(ps)) != len(ps):
            self.abort(s, "local function other than 'def f(<parameters>): return <expression>' declared of a function type")
        if sum(1 for n in ast.walk(self.fn) if isinstance(n, ast.FunctionDef) and n.name == f) != 1 \
                or any(isinstance(n, ast.Name) and n.id == f and not isinstance(n.ctx, ast.Load) for n in ast.walk(self.fn)):
            self.abort(s, f"the local function {f!r} is defined or assigned more than once")
        for q, t in zip(ps, parts):
            if self.ty(s, q) != t or q in env:
                self.abort(s, f"parameter {q!r} of {f} must be declared {t} and used for nothing else")
        for n in ast.walk(body[0]):
            if isinstance(n, ast.Name) and n.id not in ps:
                stores = [x for x in ast.walk(self.fn) if isinstance(x, ast.Name) and x.id == n.id and not isinstance(x.ctx, ast.Load)]
                t = self.spec.types.get(n.id)
                if t is None:
                    continue                       # a name of the unit (a class, an enum, a constant)
                frozen7 = self.unit.seventh and self.kind(t)[0] == "class" and self.unit.classes[self.kind(t)[1]].frozen \
                    and not self.kind(t)[2]      # (seventh extension) an object of a frozen dataclass is an immutable value
                if n.id not in env or len(stores) + (n.id in self.params) != 1 or self.seq(t) and is_list(t) \
                        or (self.kind(t)[0] in ("class", "set", "nodedict", "elemdict", "deque", "cursor", "union", "cell")
                            and not frozen7):
                    self.abort(n, f"the local function {f} captures {n.id!r}, which is not an immutable value assigned once before")
        sub: list = []
        saved7 = getattr(self, "lam7", False)
        self.lam7 = True                          # (seventh extension) see `expr7`
        try:
            term = self.expr(body[0].value, parts[-1], env + ps, sub)
        finally:
            self.lam7 = saved7
        if sub:
            self.abort(s, f"the body of the local function {f} can raise")
        return [f"let {f} := fun {' '.join(self.binder(s, q) for q in ps)} => {term} in"] + self.block(rest, env + [f], ctx)

    def fun_call_stmt(self, s, call, target, rest, env, ctx, h) -> Optional[List[str]]:
        """`f(args)` / `x = f(args)`, f a function of the unit that updates parameters holding objects (`FunSpec.mutates`):
        the variables passed in those positions are bound again from what the generated function returns."""
        f = call.func.id
        callee, params, mut = self.unit.functions[f], self.unit.params[f], self.unit.mutates[f]
        if len(params) != len(call.args) or any(isinstance(a, ast.Starred) for a in call.args) or call.keywords:
            self.abort(s, f"{f}() called with {len(call.args)} arguments")
        bound = {}
        for a, q in zip(call.args, params):
            if q in mut:
                if not isinstance(a, ast.Name) or a.id not in env or a.id in bound.values() or self.spec.types.get(a.id) != callee.types[q] \
                        or (a.id in self.params and a.id not in self.spec.mutates) or a.id in self.fieldvars:
                    self.abort(s, f"the argument for {q!r} is updated by {f}(..): it must be a local variable (or a parameter "
                                  "declared as updated) of the same type, passed once")
                bound[q] = a.id
        args = [self.expr(a, callee.types[q], env, h) for a, q in zip(call.args, params)]
        for a, q in zip(call.args, params):
            if q not in mut and any(n in bound.values() for n in _names([a])):
                self.abort(s, f"argument of {f}(..) that mentions a variable the call updates")
        self.uses_vars |= self.unit.method_uses_vars.get(f, set())
        self.uses_eqb = self.uses_eqb or self.unit.method_uses_eqb.get(f, False)
        has_val = callee.ret and callee.ret != "unit"
        if (target is not None) != bool(has_val):
            self.abort(s, f"{f}(..) " + ("returns nothing" if target is not None else "returns a value that is dropped"))
        res = target if target is not None else "_"
        pat = "(" + ", ".join([bound[q] for q in mut] + [res]) + ")"
        env2 = env + ([target] if target is not None and target not in env else [])
        return self.hoisted(h, [f"match {' '.join([self.prefix + (callee.alias or callee.name)] + args)} with",
                                "| Err e' => " + ctx.fail("e'"), f"| Ok {pat} =>"] + _ind(self.block(rest, env2, ctx)) + ["end"], ctx)

    def translate_sixth(self, binders: str) -> str:
        """A module-level function of a unit with `use_tables` that updates parameters holding objects (`FunSpec.mutates`:
        it returns them, in that order, together with its result), returns nothing (`ret="unit"`) or is a generator."""
        fn = self.fn
        for m in self.spec.mutates:
            if m not in self.params or self.kind(self.spec.types.get(m, ""))[0] != "class" or list(self.spec.mutates).count(m) != 1:
                self.abort(fn, f"updated parameter {m!r} is not a parameter holding an object of a translated class")
        if self.spec.rec_fuel or not self.spec.ret:
            self.abort(fn, "fuel declared for / no result type declared for a function of a unit with `use_tables`")
        R = self.R if " " not in self.R else "(" + self.R + ")"
        self.RR = " * ".join([self.ct(self.spec.types[m]) for m in self.spec.mutates] + [R])
        unit_fall = (lambda env: f"Ok {self.pack('tt')}") if self.spec.ret == "unit" else None
        ctx = _Ctx(ret=lambda e: f"Ok {self.pack(e)}", fail=lambda e: f"Err {e}", fall=unit_fall, retp=lambda e: f"Ok {e}")
        gen = ["acc'"] if self.spec.generator else []
        if self.spec.fresh:
            self.check_fresh()
        if gen:
            if not is_list(self.spec.ret) or not any(isinstance(n, (ast.Yield, ast.YieldFrom)) for n in ast.walk(fn)):
                self.abort(fn, "a generator yields; its declared result is the list of what it yields")
            ctx.fall = lambda env: f"Ok {self.pack(chr(97) + 'cc' + chr(39))}"
        body = self.block(fn.body, list(self.params) + gen, ctx)
        if gen:
            body = [f"let acc' := (@nil ({self.ct(arg_of(self.spec.ret))})) in"] + body
        name = self.prefix + (self.spec.alias or fn.name)
        head = f"(* {fn.name}, line {fn.lineno} *)\n"
        if self.spec.rec_on:
            if not self.in_rec or self.kind(self.spec.types.get(self.spec.rec_on, ""))[0] != "tree" or self.spec.rec_on not in self.params:
                self.abort(fn, "the recursion parameter must be a parameter of a declared binary tree type, and the function call itself")
            return head + "\n\n".join(self.fixpoints + [
                f"Fixpoint {name} {binders} {{struct {self.spec.rec_on}}} : res ({self.RR}) :=\n" + "\n".join(_ind(body)) + "."])
        return head + "\n\n".join(self.fixpoints + [f"Definition {name} {binders} : res ({self.RR}) :=\n" + "\n".join(_ind(body)) + "."])

    def product_call(self, e) -> bool:
        return isinstance(e, ast.Call) and isinstance(e.func, ast.Name) and e.func.id == "product" \
            and "product" in self.unit.builtins and "product" not in self.spec.types and len(e.args) == 2 and not e.keywords

    def updating_call(self, e):
        """(spec, parameters, updated parameters, recursive?) when `e` is `f(..)`, f the function being translated (structural
        recursion) or a function of the unit, that updates parameters holding objects; else None."""
        if not (self.tables() and self.cls is None and isinstance(e, ast.Call) and isinstance(e.func, ast.Name)
                and e.func.id not in self.spec.types):
            return None
        if self.is_self_rec(e) and any(self.kind(self.spec.types[m])[0] == "class" for m in self.spec.mutates):
            return self.spec, self.params, tuple(self.spec.mutates), True
        f = e.func.id
        if f in self.unit.functions and any(self.kind(self.unit.functions[f].types[m])[0] == "class"
                                            for m in self.unit.mutates.get(f, ())):
            return self.unit.functions[f], self.unit.params[f], self.unit.mutates[f], False
        return None

    def seq_items(self, node, v, env, hoist):
        """(term, type of the items) of the list of the items the expression `v` yields when iterated: a list / tuple / set
        valued expression, or a generator call (the list of what it yields)."""
        t = self.ntype(v, env)
        if self.seq(t):
            return self.expr(v, t, env, hoist), arg_of(t)
        if self.kind(t)[0] == "set":
            return self.expr(v, t, env, hoist), "elem" + self.kind(t)[2]
        self.abort(node, f"iteration over a value of type {t}")

    def obj_call_plain(self, c, env) -> bool:
        """`x.m(..)` on a variable holding an object, m returning no view: the earlier extensions translate it."""
        oc = self.obj_call(c, env)
        return oc is not None and not (oc[3].ret and self.viewish(oc[3].ret)) and not self.view_class(oc[1].name)

    def callee_spec(self, v, env) -> Optional[FunSpec]:
        """The method spec `v` (a method call on self, on an attribute of self referring to an object, or on a variable)
        reaches; None when it is not such a call."""
        if _is_self_call(v) and self.cls is not None:
            return self.resolve(v)
        oc = self.obj_call(v, env)
        return oc[3] if oc is not None else None

    def read_only(self, x: str) -> bool:
        """Is the local variable `x` (holding a reference to an object that lives elsewhere) only ever tested against None
        and used as the receiver of methods that only read their object?"""
        parents = {id(c): n for n in ast.walk(self.fn) for c in ast.iter_child_nodes(n)}
        nstore = 0
        for n in ast.walk(self.fn):
            if not (isinstance(n, ast.Name) and n.id == x):
                continue
            par = parents.get(id(n))
            if not isinstance(n.ctx, ast.Load):
                nstore += 1
                continue
            if isinstance(par, ast.Compare) and par.left is n and len(par.ops) == 1 and isinstance(par.ops[0], (ast.Is, ast.IsNot)):
                continue
            if isinstance(par, ast.Attribute) and isinstance(parents.get(id(par)), ast.Call) and parents[id(par)].func is par:
                t = self.spec.types.get(x, "")
                k, cname, _ = self.kind(arg_of(t) if is_option(t) else t)
                m = next((y for y in self.unit.done_methods.get(cname, []) if y.name == par.attr), None)
                if k == "class" and m is not None and m.pure:
                    continue
            return False
        return nstore == 1

    def chain_recv_type(self, e, env) -> Optional[str]:
        """The type of the receiver `e` of a final `[k] = v` when it is a view construction, a variable holding an
        object, or a chain; else None."""
        if isinstance(e, ast.Call) and isinstance(e.func, ast.Name) and e.func.id not in self.spec.types \
                and self.view_class(e.func.id):
            return e.func.id
        if isinstance(e, ast.Name) and e.id in env and e.id in self.spec.types and e.id != "self" \
                and self.kind(self.vtype(e, e.id, env))[0] in ("class", "union"):
            return self.vtype(e, e.id, env)
        return self.chain_type(e, env)

    def chain_on_base(self, e, env, hoist, setitem):
        """`B[k] = v` with B a view construction or a variable (a chain without a step before the final store)."""
        if isinstance(e, ast.Name):
            fake = ast.copy_location(ast.Subscript(value=e, slice=setitem[0], ctx=ast.Load()), e)
        else:
            fake = ast.copy_location(ast.Subscript(value=e, slice=setitem[0], ctx=ast.Load()), e)
        base, steps = self.chain_parse(fake, env)
        # run the chain machinery with no step but the store
        saved = self.chain_parse
        try:
            self.chain_parse = lambda _e, _env: (base, [])
            self.chain(fake, env, hoist, setitem=setitem)
        finally:
            self.chain_parse = saved

    # ---------------------------------------------------------------- statements
    def mark_calls(self, s):
        """Positions of statement `s` where a call of a method of `self` may stand."""
        self.callpos = set()
        if isinstance(s, (ast.Assign, ast.AnnAssign, ast.Return)) and s.value is not None:
            self.callpos.add(id(s.value))
        if isinstance(s, ast.Expr) and isinstance(s.value, ast.Call) and isinstance(s.value.func, ast.Attribute) \
                and s.value.func.attr == "append" and isinstance(s.value.func.value, ast.Subscript) \
                and isinstance(s.value.func.value.value, ast.Name):
            self.callpos.add(id(s.value.func.value.slice))
        if isinstance(s, ast.For) and self.containers():
            self.callpos.add(id(s.iter))        # evaluated once, before the loop

    def updatable(self, node, x: str, env):
        """`x` names a list this function may update in place."""
        if x is None or not is_list(self.ntype(ast.copy_location(ast.Name(id=x, ctx=ast.Load()), node), env)):
            self.abort(node, "update of something that is not a declared sequence variable")
        if x in self.params:
            self.abort(node, "update of a parameter (it would be mutated for the caller)")

    def setter(self, node, sl, env, hoist):
        """(function name, index term) of the update at index expression `sl`."""
        it = self.ntype(sl, env)
        if it == "Z":
            self.need("zset")
            return "zset", self.expr(sl, "Z", env, hoist)
        if it not in ("N", "lit"):
            self.abort(node, "index must be of declared type N or Z")
        self.need("nset")
        return "nset", self.expr(sl, "N", env, hoist)

    def setter_of(self, entry):
        """(function name, index term) of the update at the position read by the hoisted index `entry`."""
        fn = "zset" if entry[0] == "zidx" else "nset"
        self.need(fn)
        return fn, entry[3]

    def container_update(self, s, env):
        """The translation (a function of the statements that follow and the context) of a statement that updates a deque, a
        set or a list in place through one of the methods the fifth extension adds; None when `s` is not one of them."""
        c, x = s.value, s.value.func.value.id
        meth, k = c.func.attr, self.kind(self.spec.types.get(x, ""))[0]
        xt = self.spec.types.get(x, "")
        is_stmt = isinstance(s, ast.Expr)
        if not ((k == "deque" and (is_stmt and meth in ("append", "remove") or not is_stmt and meth == "popleft"))
                or (k == "set" and is_stmt and meth in ("remove", "discard"))
                or (is_list(xt) and is_stmt and meth == "reverse")):
            if k == "deque" or (k == "set" and meth != "add") or k in ("elemdict", "seqset"):
                self.abort(s, f"{x}.{meth}(..) on a value of type {xt} is outside the handled subset")
            return None
        if any(isinstance(a, ast.Starred) for a in c.args) or len(c.args) != (0 if meth in ("popleft", "reverse") else 1):
            self.abort(s, f"{x}.{meth}(..) with {len(c.args)} arguments")
        if x in self.params or x in self.fieldvars or self.kind(xt)[2] or self.unit.outside:
            self.abort(s, f"{meth} is only handled on a local variable (a parameter would be mutated for the caller)")
        h: list = []

        def done(lines):
            return lambda rest, ctx: self.hoisted(h, lines(rest, ctx), ctx)
        if meth == "popleft":
            # y = q.popleft(): the first item (IndexError when there is none), q keeps the others
            if len(s.targets) != 1 or not isinstance(s.targets[0], ast.Name):
                self.abort(s, "only 'name = q.popleft()' is handled")
            y = s.targets[0].id
            if self.ty(s, y) != "elem" or y == x or y in self.params or y in self.fieldvars or y + "!" in env:
                self.abort(s, f"{y!r} must be a local variable declared elem")
            return done(lambda rest, ctx: [f"match {x} with", f"| nil => {ctx.fail('IndexError')}", f"| cons {y} {x} =>"]
                        + _ind(self.block(rest, env + [y] * (y not in env), ctx)) + ["end"])
        if meth == "reverse":
            # xs.reverse() on a list: the items in the opposite order
            return done(lambda rest, ctx: [f"let {x} := (rev {x}) in"] + self.write_back(s, x, rest, env, ctx))
        item = self.expr(c.args[0], "elem", env, h)
        if meth == "append":
            return done(lambda rest, ctx: [f"let {x} := ({x} ++ cons {item} nil) in"] + self.block(rest, env, ctx))
        self.uses_eqb = True
        if meth == "discard":
            self.need("set_discard")
            return done(lambda rest, ctx: [f"let {x} := (set_discard {item} {x}) in"] + self.block(rest, env, ctx))
        # q.remove(e) / s.remove(e): the first item equal to e goes; ValueError (deque) / KeyError (set) when there is none
        err = "ValueError" if k == "deque" else "KeyError"
        self.need("seq_remove", err)
        return done(lambda rest, ctx: [f"match seq_remove {item} {x} with", f"| None => {ctx.fail(err)}", f"| Some {x} =>"]
                    + _ind(self.block(rest, env, ctx)) + ["end"])

    def write_back(self, node, x: str, rest, env, ctx) -> List[str]:
        """What follows an in-place update of the list `x`: when x is the variable of a loop over the list variable `xs`
        (x is `xs[idx']`), the new value is stored into xs first."""
        xs = getattr(self, "alias", {}).get(x)
        if xs is None:
            return self.block(rest, env, ctx)
        self.need("list_set")
        return [f"match list_set {xs} idx' {x} with", f"| None => {ctx.fail('IndexError')}", f"| Some {xs} =>"] \
            + _ind(self.block(rest, env, ctx)) + ["end"]

    def store(self, node, target, value_of, env, h, rest, ctx, read_first=False) -> List[str]:
        """`target = value` for a subscript target; `value_of(old)` translates the value (appending to `h`)."""
        x = _base_name(target)
        self.updatable(node, x, env)
        if self.unit is None:
            self.abort(node, "only 'name = expression' assignments are handled")
        chain = []
        n = target
        while isinstance(n, ast.Subscript):
            if isinstance(n.slice, ast.Slice):
                self.abort(node, "slice assignment")
            chain.append(n.slice)
            n = n.value
        chain.reverse()
        if len(chain) > 2 or (read_first and len(chain) != 1):
            self.abort(node, "store outside the handled subset (xs[i] = e, t[i][j] = e, xs[i] op= e)")
        if read_first:                      # xs[i] op= e : the old value is read before e is evaluated
            old = self.index(node, x, chain[0], env, h)
            fn, idx = self.setter_of(h[-1])
            term = value_of(old)
            return self.hoisted(h, [f"match {fn} {x} {idx} {term} with", f"| None => {ctx.fail('IndexError')}",
                                    f"| Some {x} =>"] + _ind(rest()) + ["end"], ctx)
        term = value_of(None)
        if len(chain) == 1:
            fn, idx = self.setter(node, chain[0], env, h)
            return self.hoisted(h, [f"match {fn} {x} {idx} {term} with", f"| None => {ctx.fail('IndexError')}",
                                    f"| Some {x} =>"] + _ind(rest()) + ["end"], ctx)
        row = self.index(node, x, chain[0], env, h)
        fn0, idx0 = self.setter_of(h[-1])
        fn1, idx1 = self.setter(node, chain[1], env, h)
        self.nt += 1
        new = f"t'{self.nt}"
        return self.hoisted(h, [f"match {fn1} {row} {idx1} {term} with", f"| None => {ctx.fail('IndexError')}",
                                f"| Some {new} =>", f"  match {fn0} {x} {idx0} {new} with",
                                f"  | None => {ctx.fail('IndexError')}", f"  | Some {x} =>"] + _ind(_ind(rest()))
                            + ["  end", "end"], ctx)

    def block(self, stmts, env: List[str], ctx: _Ctx) -> List[str]:
        if not stmts:
            if ctx.fall is None:
                self.abort(self.fn, "the function can reach its end without a return")
            if callable(ctx.fall):
                return [ctx.fall(env)]
            return [ctx.fall]
        s, rest = stmts[0], stmts[1:]
        h: list = []
        self.mark_calls(s)
        if isinstance(s, (ast.Return, ast.Break)) and rest:
            self.abort(rest[0], "statement after return/break")
        if self.unit is not None and self.unit.ninth:
            r = self.block9(s, rest, env, ctx, h)
            if r is not None:
                return r
        if self.unit is not None and self.unit.eighth:
            r = self.block8(s, rest, env, ctx, h)
            if r is not None:
                return r
        if self.unit is not None and self.unit.seventh:
            r = self.block7(s, rest, env, ctx, h)
            if r is not None:
                return r
        if self.tables():
            r = self.block6(s, rest, env, ctx, h)
            if r is not None:
                return r
        if isinstance(s, ast.Return) and isinstance(s.value, ast.BoolOp) and self.unit is not None and self.spec.ret == "bool" \
                and self.pure_calls() and len(s.value.values) >= 2 and self.later_operand_raises(s.value, env):
            # return a or b (a and b) on booleans, b able to raise: b is evaluated only when a is false (true)
            v = s.value
            first = v.values[0]
            if self.ntype(first, env) != "bool":
                self.abort(s, "and/or with a non-boolean operand that is followed by an operand that can raise")
            others = v.values[1] if len(v.values) == 2 else ast.copy_location(ast.BoolOp(op=v.op, values=v.values[1:]), v)
            short = ast.copy_location(ast.Return(value=ast.copy_location(ast.Constant(value=isinstance(v.op, ast.Or)), v)), s)
            go_on = ast.copy_location(ast.Return(value=others), s)
            body, orelse = ([short], [go_on]) if isinstance(v.op, ast.Or) else ([go_on], [short])
            return self.block([ast.copy_location(ast.If(test=first, body=body, orelse=orelse), s)], env, ctx)
        if isinstance(s, ast.Raise) and self.unit is not None and self.unit.raises:
            # raise E("message"): E a modelled built-in exception (the message is not modelled)
            x = s.exc
            if s.cause is not None or not (isinstance(x, ast.Call) and isinstance(x.func, ast.Name) and x.func.id in RAISABLE
                                           and not x.keywords and all(isinstance(a, ast.Constant) or self.plain_fstring(a)
                                                                      for a in x.args)) \
                    or x.func.id in self.spec.types or self.unit.rebinds(x.func.id):
                self.abort(s, "raise outside the handled subset (raise <built-in error>(<literals>))")
            if rest:
                self.abort(rest[0], "statement after raise")
            if x.func.id != "IndexError":
                self.need(x.func.id)
            return [ctx.fail(x.func.id)]
        if isinstance(s, ast.Return):
            if s.value is None and self.spec.ret == "unit":
                return [ctx.ret("tt")]
            if s.value is None or not self.spec.ret or self.spec.ret == "unit":
                self.abort(s, "return without a value")
            return self.hoisted(h, [ctx.ret(self.expr(s.value, self.spec.ret, env, h))], ctx)
        if isinstance(s, ast.Break):
            if ctx.brk is None:
                self.abort(s, "break outside a loop (or in a loop over product(..))")
            return [ctx.brk]
        if isinstance(s, ast.Pass) or (isinstance(s, ast.Expr) and isinstance(s.value, ast.Constant)
                                       and isinstance(s.value.value, str) and s is self.fn.body[0]):
            return self.block(rest, env, ctx)
        if isinstance(s, ast.Assert):
            t = s.test
            if s.msg is None and self.unit is not None and self.unit.bool_asserts and not (
                    isinstance(t, ast.Compare) and isinstance(t.ops[0], (ast.Is, ast.IsNot))):
                # assert c: AssertionError when c is false (the translation is of the program run without -O)
                if self.ntype(t, env) != "bool":
                    self.abort(s, "assert of something that is not a boolean expression")
                self.need("AssertionError")
                test = self.expr(t, "bool", env, h)
                return self.hoisted(h, [f"if {test} then ("] + _ind(self.block(rest, env, ctx))
                                    + [f") else {ctx.fail('AssertionError')}"], ctx)
            if not (s.msg is None and isinstance(t, ast.Compare) and len(t.ops) == 1 and isinstance(t.ops[0], ast.IsNot)
                    and isinstance(t.left, ast.Name) and isinstance(t.comparators[0], ast.Constant)
                    and t.comparators[0].value is None and self.unit is not None):
                self.abort(s, "assert outside the handled subset (assert x is not None)")
            x = t.left.id
            if not is_option(self.ntype(t.left, env)):
                self.abort(s, f"assert {x} is not None on a variable that is not of an option type (or is already narrowed)")
            self.need("AssertionError")
            return [f"match {x} with", f"| None => {ctx.fail('AssertionError')}", f"| Some {x} =>"] \
                + _ind(self.block(rest, env + [x + "!"], ctx)) + ["end"]
        if self.containers() and isinstance(s, (ast.Assign, ast.Expr)) and isinstance(s.value, ast.Call) \
                and isinstance(s.value.func, ast.Attribute) and isinstance(s.value.func.value, ast.Name) \
                and s.value.func.value.id in env and not s.value.keywords:
            upd = self.container_update(s, env)
            if upd is not None:
                return upd(rest, ctx)
        if isinstance(s, ast.Expr) and self.unit is not None and isinstance(s.value, ast.Call) \
                and isinstance(s.value.func, ast.Attribute) and isinstance(s.value.func.value, ast.Name) \
                and s.value.func.value.id != "self" and not s.value.keywords:
            c, x = s.value, s.value.func.value.id
            xt = self.spec.types.get(x, "")
            if self.kind(xt)[0] == "set" and c.func.attr == "add" and len(c.args) == 1:
                # s.add(e): append unless present (the set is a duplicate-free list in insertion order)
                if x not in env or x in self.params:
                    self.abort(s, "add is only handled on a local or attribute set (a parameter would be mutated for the caller)")
                sfx = self.kind(xt)[2]
                if sfx or self.unit.outside:
                    self.abort(s, "set.add outside the section of the element equality")
                self.need("set_add")
                self.uses_eqb = True
                term = f"(set_add {self.expr(c.args[0], 'elem', env, h)} {x})"
                return self.hoisted(h, [f"let {x} := {term} in"] + self.block(rest, env, ctx), ctx)
            oc = self.obj_call(c, env)
            if oc is not None:
                _, cls, sfx, m = oc
                if x not in env:
                    self.abort(s, f"variable {x!r} is not definitely assigned here")
                if x in self.params and not m.pure:
                    self.abort(s, f"{x}.{m.name}(..) on a parameter (it would be mutated for the caller)")
                args = self.method_args(c, cls, m, sfx, env, h)
                call = self.mcall(s, cls, m, sfx, x, args)
                return self.hoisted(h, [f"match {call} with", "| Err e' => " + ctx.fail("e'"),
                                        f"| Ok ({'_' if m.pure else x}, _) =>"] + _ind(self.block(rest, env, ctx)) + ["end"], ctx)
        if isinstance(s, ast.Expr) and self.unit is not None and self.unit.ntrees and isinstance(s.value, ast.Call) \
                and isinstance(s.value.func, ast.Attribute) and s.value.func.attr == "extend" \
                and isinstance(s.value.func.value, ast.Name) and len(s.value.args) == 1 and not s.value.keywords:
            # xs.extend(e): the elements of e are appended (e itself is not kept: no alias)
            x = s.value.func.value.id
            lt = self.ntype(s.value.func.value, env)
            if not is_list(lt) or x in self.params:
                self.abort(s, "extend is only handled on a local sequence variable (a parameter would be mutated for the caller)")
            if x in _names([s.value.args[0]]):
                self.abort(s, "xs.extend(..xs..)")
            term = f"({x} ++ {self.expr(s.value.args[0], lt, env, h)})"
            return self.hoisted(h, [f"let {x} := {term} in"] + self.block(rest, env, ctx), ctx)
        if isinstance(s, ast.Expr):
            c = s.value
            if not (isinstance(c, ast.Call) and isinstance(c.func, ast.Attribute) and c.func.attr == "append"
                    and isinstance(c.func.value, (ast.Name, ast.Subscript)) and len(c.args) == 1 and not c.keywords):
                self.abort(s, "expression statement outside the handled subset (xs.append(e))")
            if isinstance(c.func.value, ast.Subscript):
                tgt = c.func.value
                if not isinstance(tgt.value, ast.Name) or self.unit is None:
                    self.abort(s, "expression statement outside the handled subset (xs.append(e))")
                x = tgt.value.id
                self.updatable(s, x, env)
                rt = arg_of(self.ntype(tgt.value, env))
                if not is_list(rt):
                    self.abort(s, "append to something that is not a list")
                row = self.index(s, x, tgt.slice, env, h)
                fn, idx = self.setter_of(h[-1])
                val = self.expr(c.args[0], arg_of(rt), env, h)
                return self.hoisted(h, [f"match {fn} {x} {idx} ({row} ++ cons {val} nil) with",
                                        f"| None => {ctx.fail('IndexError')}", f"| Some {x} =>"]
                                    + _ind(self.block(rest, env, ctx)) + ["end"], ctx)
            x = c.func.value.id
            lt = self.ntype(c.func.value, env)
            if not is_list(lt) or x in self.params:
                self.abort(s, "append is only handled on a local sequence variable (a parameter would be mutated for the caller)")
            term = f"({x} ++ cons {self.expr(c.args[0], arg_of(lt), env, h)} nil)"
            if self.containers():
                if isinstance(c.args[0], ast.Name) and is_list(arg_of(lt)) and c.args[0].id not in getattr(self, "temp_vars", ()):
                    self.abort(s, "append of a list variable (the two lists would share it)")
                return self.hoisted(h, [f"let {x} := {term} in"] + self.write_back(s, x, rest, env, ctx), ctx)
            return self.hoisted(h, [f"let {x} := {term} in"] + self.block(rest, env, ctx), ctx)
        if isinstance(s, (ast.Assign, ast.AnnAssign)):
            if isinstance(s, ast.AnnAssign):
                if s.value is None or self.unit is None:
                    self.abort(s, "only 'name = expression' assignments are handled")
                target = s.target
            else:
                if len(s.targets) == 2 and self.unit is not None and self.unit.nodedicts and isinstance(s.targets[0], ast.Name) \
                        and isinstance(s.targets[1], ast.Subscript) \
                        and s.targets[0].id not in _names([s.targets[1], s.value]):
                    # a = d[k] = e: e is evaluated once, then bound to a, then stored: the same as a = e; d[k] = a
                    first = ast.copy_location(ast.Assign(targets=[s.targets[0]], value=s.value), s)
                    load = ast.copy_location(ast.Name(id=s.targets[0].id, ctx=ast.Load()), s)
                    second = ast.copy_location(ast.Assign(targets=[s.targets[1]], value=load), s)
                    return self.block([first, second] + rest, env, ctx)
                if len(s.targets) == 2 and self.unit is not None and self.unit.ntrees \
                        and all(isinstance(x, ast.Name) for x in s.targets) and s.targets[0].id != s.targets[1].id \
                        and all(self.spec.types.get(x.id) in ("N", "Z", "bool") for x in s.targets) \
                        and self.spec.types[s.targets[0].id] == self.spec.types[s.targets[1].id]:
                    # a = b = e on ints / booleans: e is evaluated once and bound to a, then to b
                    first = ast.copy_location(ast.Assign(targets=[s.targets[0]], value=s.value), s)
                    load = ast.copy_location(ast.Name(id=s.targets[0].id, ctx=ast.Load()), s)
                    second = ast.copy_location(ast.Assign(targets=[s.targets[1]], value=load), s)
                    return self.block([first, second] + rest, env, ctx)
                if len(s.targets) != 1:
                    self.abort(s, "only 'name = expression' assignments are handled")
                target = s.targets[0]
                if isinstance(target, ast.Subscript) and isinstance(target.value, ast.Name) and self.unit is not None \
                        and target.value.id in env and self.kind(self.spec.types.get(target.value.id, ""))[0] == "nodedict":
                    d = target.value.id
                    tree, vt, _ = self.unit.nodedicts[self.ty(s, d)]
                    if d in self.params or (d in self.fieldvars and not (self.fn.name == "__init__" and self.unit.ntrees)) \
                            or isinstance(target.slice, ast.Slice) or self.ntype(target.slice, env) != tree:
                        self.abort(s, f"store into {d} (a parameter / an attribute), or with a key that is not a node of a {tree}")
                    val = self.expr(s.value, vt, env, h)                   # the value first, then the key
                    key = self.raw(target.slice, tree, env, h)
                    return self.hoisted(h, [f"let {d} := (cons ({self.unit.q(tree)}{tree}_id {key}, {val}) {d}) in"] + self.block(rest, env, ctx), ctx)
            if isinstance(target, ast.Tuple) and self.unit is not None and isinstance(s, ast.Assign) \
                    and isinstance(s.value, ast.Attribute) and s.value.attr == "children" \
                    and isinstance(s.value.value, ast.Name) and s.value.value.id in env \
                    and self.kind(self.spec.types.get(s.value.value.id, ""))[0] == "tree":
                # a, b = x.children on a node of a binary tree: the two subtrees; ValueError (too few values to
                # unpack) on a leaf.  The driver assumes every node has no or exactly two children.
                x, tt = s.value.value.id, self.ty(s, s.value.value.id)
                names = [v.id for v in target.elts if isinstance(v, ast.Name)]
                if len(names) != 2 or len(target.elts) != 2 or names[0] == names[1] or x in names:
                    self.abort(s, "unpacking of .children into anything but two distinct variables")
                for v in names:
                    if self.ty(s, v) != tt:
                        self.abort(s, f"{v!r} must be declared {tt}")
                    if v in self.params or v in self.fieldvars or v + "!" in env:
                        self.abort(s, f"unpacking of .children into the parameter / attribute {v!r}")
                if x in self.subtrees or x == self.spec.rec_on:
                    self.subtrees.update(names)
                self.need("ValueError")
                env2 = env + [v for v in names if v not in env]
                qt = self.unit.q(tt) + tt
                return [f"match {x} with", f"| {qt}_leaf _ => {ctx.fail('ValueError')}", f"| {qt}_node _ {names[0]} {names[1]} =>"] \
                    + _ind(self.block(rest, env2, ctx)) + ["end"]
            if isinstance(target, ast.Subscript) and self.edict_of(target.value, env) is not None:
                self.abort(s, "store into a dictionary keyed by elements other than d[k] op= e")
            if isinstance(target, ast.Subscript):
                bt = None
                n = target
                depth = 0
                while isinstance(n, ast.Subscript):
                    n, depth = n.value, depth + 1
                if isinstance(n, ast.Name):
                    bt = self.ntype(ast.copy_location(ast.Name(id=n.id, ctx=ast.Load()), s), env)
                    for _ in range(depth):
                        if not is_list(bt):
                            self.abort(s, "store into something that is not a list")
                        bt = arg_of(bt)
                    if is_list(bt) and not self.is_fresh(s.value):
                        self.abort(s, "a list cell may only be assigned a freshly built list (anything else could alias another list)")
                return self.store(s, target, lambda old: self.expr(s.value, bt, env, h), env, h,
                                  lambda: self.block(rest, env, ctx), ctx)
            if not isinstance(target, ast.Name):
                self.abort(s, "only 'name = expression' assignments are handled")
            x = target.id
            xt = self.ty(s, x)
            if x in self.subtrees or (self.spec.rec_on and x == self.spec.rec_on):
                self.abort(s, f"assignment to {x!r}, which the structural recursion relies on")
            if self.unit is None:
                if xt == "list" and not isinstance(s.value, ast.List):
                    self.abort(s, "a sequence variable may only be assigned [] (anything else could alias another list)")
            elif is_list(xt) and self.frozen_alias(s, x, env):
                pass                               # a name for a list nothing can modify
            elif is_list(xt):
                if not self.is_fresh(s.value):
                    self.abort(s, "a sequence variable may only be assigned a freshly built list (anything else could alias another list)")
                if x in self.fieldvars and self.fn.name != "__init__":
                    self.abort(s, "a list attribute may only be rebound in __init__")
            elif self.kind(xt)[0] == "set":
                if self.containers() and x in self.params:
                    self.abort(s, "assignment to a set parameter")
                if self.ntype(s.value, env) != "newset":
                    self.abort(s, "a set variable may only be assigned set() or {e} (anything else could alias another set)")
            elif self.kind(xt)[0] in ("deque", "elemdict", "seqset"):
                # a deque / a dictionary keyed by elements is only ever bound to a newly built one (no alias)
                if self.ntype(s.value, env) != {"deque": "newdeque", "elemdict": "newedict"}.get(self.kind(xt)[0]) \
                        or x in self.params or x in self.fieldvars:
                    self.abort(s, f"a variable of type {xt} may only be a local assigned deque(d) / {{k: e for k in d}}")
            elif self.kind(xt)[0] == "nodedict":
                if self.ntype(s.value, env) != "newdict" or x in self.params \
                        or (x in self.fieldvars and not (self.fn.name == "__init__" and self.unit.ntrees)):
                    self.abort(s, "a dictionary variable may only be a local assigned a dictionary display {k: e}")
            elif self.kind(xt)[0] == "class":
                if not self.ntype(s.value, env).startswith("new ") or x in self.fieldvars:
                    self.abort(s, "an object variable may only be a local assigned a newly constructed object")
            elif self.kind(xt)[0] == "foreign":
                if self.ntype(s.value, env) != "new " + xt or not (x in self.fieldvars and self.fn.name == "__init__"):
                    self.abort(s, f"a {xt} may only be an attribute that __init__ assigns a newly constructed object")
            elif xt == "none" or "->" in xt:
                self.abort(s, f"assignment to {x!r}, declared as an omitted parameter / a function")
            term = self.expr(s.value, xt, env, h)
            env2 = [v for v in env if v != x + "!"]
            return self.hoisted(h, [f"let {x} := {term} in"] + self.block(rest, env2 + [x] * (x not in env2), ctx), ctx)
        if isinstance(s, ast.AugAssign) and isinstance(s.target, ast.Subscript) and self.edict_of(s.target.value, env) is not None:
            # d[k] op= e, d a dictionary keyed by elements: d[k] is read (KeyError when k is not a key), e evaluated, the
            # result stored at k -- which is a key, so that the value is replaced where it stands
            d, key = s.target.value.id, s.target.slice
            vt = self.unit.elemdicts[self.spec.types[d]]
            if type(s.op) not in BINOPS or isinstance(s.op, (ast.LShift, ast.RShift)) or vt not in ("N", "Z") \
                    or not isinstance(key, ast.Name) or self.ntype(key, env) != "elem":
                self.abort(s, "augmented assignment to a dictionary item outside the handled subset (d[k] op= e, k an element "
                              "variable, integer values)")
            if d in self.fieldvars or (d in self.params and d not in self.spec.mutates):
                self.abort(s, f"update of the parameter {d!r}, which is not declared as updated by this function")
            if isinstance(s.op, ast.Sub) and vt != "Z":
                self.abort(s, "subtraction is only translated in Z (an N result could be negative in Python)")
            self.need("adict_get", "KeyError", "adict_set")
            self.uses_eqb = True
            self.nt += 1
            old = f"t'{self.nt}"
            h.append(("unwrap", old, f"adict_get eqb {d} {key.id}", "KeyError"))
            rt = self.ntype(s.value, env)
            if self.join(s, vt, rt) != vt:
                self.abort(s, f"augmented assignment producing {self.join(s, vt, rt)} into an item of type {vt}")
            term = f"({vt}.{BINOPS[type(s.op)]} {old} {self.expr(s.value, vt, env, h)})"
            return self.hoisted(h, [f"let {d} := (adict_set eqb {d} {key.id} {term}) in"] + self.block(rest, env, ctx), ctx)
        if isinstance(s, ast.AugAssign):
            if isinstance(s.target, ast.Subscript) and type(s.op) in BINOPS and isinstance(s.target.value, ast.Name):
                et = arg_of(self.ntype(s.target.value, env))

                def value_of(old):
                    load = ast.copy_location(ast.Name(id="old'", ctx=ast.Load()), s)
                    rt = self.ntype(s.value, env)
                    jt = self.join(s, et, rt)
                    if isinstance(s.op, ast.Sub):
                        jt = "Z"
                    if jt != et or isinstance(s.op, (ast.LShift, ast.RShift)):
                        self.abort(s, f"augmented assignment producing {jt} into a cell of type {et}")
                    return f"({et}.{BINOPS[type(s.op)]} {old} {self.expr(s.value, et, env, h)})"
                return self.store(s, s.target, value_of, env, h, lambda: self.block(rest, env, ctx), ctx, read_first=True)
            if not isinstance(s.target, ast.Name) or type(s.op) not in BINOPS:
                self.abort(s, "augmented assignment outside the handled subset")
            x = s.target.id
            xt = self.vtype(s, x, env)
            if not (xt in ("N", "Z", "bool") or (self.unit is not None and xt in self.unit.arith)):
                # x op= e on a set / list / dict / object updates the object IN PLACE: every other name of that object sees the
                # change, which a translation of containers as values (a rebinding `let x := x op e`) cannot show
                self.abort(s, f"augmented assignment to {x!r} of type {xt}: only translated for ints, booleans and declared "
                              "number types (on a set, list, dictionary or object it updates the object in place, for every "
                              "name the object has; containers are translated as values, so the aliasing would be invisible)")
            load = ast.copy_location(ast.Name(id=x, ctx=ast.Load()), s)
            term = self.expr(ast.copy_location(ast.BinOp(left=load, op=s.op, right=s.value), s), self.ty(s, x), env, h)
            return self.hoisted(h, [f"let {x} := {term} in"] + self.block(rest, env, ctx), ctx)
        if isinstance(s, ast.If) and self.static_bool(s.test, env) is not None:
            # the declared types decide the test: the other branch can never run and is not translated
            sb = self.static_bool(s.test, env)
            taken = s.body if sb else s.orelse
            if self.tables() and taken and isinstance(taken[-1], (ast.Return, ast.Raise)):
                rest = []                      # what follows can never run and is not translated
            return [f"(* line {s.lineno}: the declared types make this test {'true' if sb else 'false'} *)"] \
                + self.block(taken + rest, env, ctx)
        if isinstance(s, ast.If):
            inner, lines = ctx, []
            nar = self.narrowing(s.test, env)
            if nar is not None and nar[0] in self.assigned(s.body + s.orelse):
                self.abort(s, f"{nar[0]!r} is tested for truth and assigned in a branch")
            if rest:
                upd = self.assigned(s.body + s.orelse + ([ast.Expr(value=s.test)] if self.tables() else []))
                mod = [v for v in env if v in upd]
                if any(v + "!" in env for v in mod):
                    self.abort(s, "a variable narrowed by an assert is assigned in a branch")
                new7 = []
                if self.unit is not None and self.unit.seventh and s.orelse:
                    # (seventh extension) a variable that is not defined before the `if` and that BOTH branches assign on every
                    # path reaching their end (`definite7`) is defined afterwards: the continuation takes it as well
                    new7 = [v for v in sorted(self.definite7(s.body) & self.definite7(s.orelse))
                            if v not in env and v + "!" not in env and v in self.spec.types and v not in self.params
                            and v not in self.fieldvars]
                    mod = mod + new7
                self.nk += 1
                k = f"k'{self.nk}"
                lines = [f"let {k} := fun {' '.join(self.binder(s, v) for v in mod) or '(_ : unit)'} =>"] \
                    + _ind(self.block(rest, env + new7, ctx)) + ["in"]
                inner = replace(ctx, fall=f"{k} {' '.join(mod) or 'tt'}")
                self.mark_calls(s)
            if nar is not None:
                # `if x [and c]` with x an optional element: truthy exactly when it is not None (the unit
                # declares that elements are truthy); x is the element itself inside the branch
                x, cond = nar
                els = self.block(s.orelse, env, inner)
                benv = env + [x + "!"]
                body = self.block(s.body, benv, inner)
                if cond is not None:
                    sub: list = []
                    c = self.expr(cond, "bool", benv, sub)
                    if sub:
                        self.abort(s, "test that can raise after a truth test of an optional value")
                    body = [f"if {c} then ("] + _ind(body) + [") else ("] + _ind(els) + [")"]
                return lines + [f"match {x} with", f"| Some {x} =>"] + _ind(body) + ["| None =>"] + _ind(els) + ["end"]
            test = self.expr(s.test, "bool", env, h)
            return lines + self.hoisted(h, [f"if {test} then ("] + _ind(self.block(s.body, env, inner)) + [") else ("]
                                        + _ind(self.block(s.orelse, env, inner)) + [")"], ctx)
        if isinstance(s, (ast.For, ast.While)):
            if s.orelse:
                self.abort(s, "loop with an else clause")
            call, state = self.loop(s, env, h)
            pat = "_" if not state else state[0] if len(state) == 1 else "(" + ", ".join(state) + ")"
            if isinstance(call, list):          # a loop emitted in place (a local fix): several lines
                head = ["match"] + _ind(call) + ["with"]
            else:
                head = [f"match {call} with"]
            return self.hoisted(h, head + [f"| Next {pat} =>"] + _ind(self.block(rest, env, ctx))
                                + ["| Ret r' => " + (ctx.retp or ctx.ret)("r'"), "| Fail e' => " + ctx.fail("e'"), "end"], ctx)
        self.abort(s, f"statement outside the handled subset: {type(s).__name__}")

    def loop(self, s, env: List[str], h: list):
        """Emit the Fixpoint of loop `s`; return (call term at loop entry, state variables)."""
        self.nloop += 1
        n = self.nloop
        targets: List[str] = []
        pattern = None
        if isinstance(s, ast.For) and self.unit is not None and self.unit.seventh:
            self.strip_tqdm(s, env)
        if isinstance(s, ast.For) and self.unit is not None and self.unit.seventh and self.tables() \
                and isinstance(s.target, ast.Name) and isinstance(s.iter, ast.Subscript) and self.chain_parse(s.iter, env) is not None:
            # for x in <chain of subscripts>: iter() of the object the chain gives, i.e. its __iter__()
            ct_ = self.chain_type(s.iter, env)
            kk, nm, _ = self.kind(ct_)
            if kk in ("class", "union") and any(x.name == "__iter__" for x in self.unit.done_methods.get(nm, [])):
                s.iter = ast.copy_location(ast.Call(func=ast.copy_location(
                    ast.Attribute(value=s.iter, attr="__iter__", ctx=ast.Load()), s.iter), args=[], keywords=[]), s.iter)
                # the items are taken when the loop is entered.  The object iterated is a live view of a dictionary of the
                # table, which the body may read through the same variable: valid as long as the body adds no key to that
                # dictionary (Python would raise RuntimeError: dictionary changed size during iteration) -- an assumption
                # of the driver that sets `snapshot_iteration`
                if not self.unit.snapshot_iteration:
                    self.abort(s, "iteration over a view of the table (the unit does not declare snapshot_iteration)")
                s.iter.snapshot7 = True
        if isinstance(s, ast.For) and self.unit is not None and self.unit.eighth and isinstance(s.target, ast.Name) \
                and self.enum_iter8(s.iter) is not None:
            it, kind, targets = s.iter, "each", [s.target.id]          # (eighth extension) for x in <Enum>
        elif isinstance(s, ast.For) and self.unit is not None and self.unit.eighth and isinstance(s.target, ast.Tuple) \
                and len(s.target.elts) == 2 and all(isinstance(x, ast.Name) for x in s.target.elts) \
                and self.items8(s.iter, env) is not None:
            it, kind, targets = s.iter, "each", [x.id for x in s.target.elts]      # (eighth extension) for k, v in d.items()
            pattern = list(targets)
        elif isinstance(s, ast.For) and self.unit is not None and self.unit.eighth and isinstance(s.target, ast.Name) \
                and isinstance(s.iter, ast.Call) and isinstance(s.iter.func, ast.Name) and not s.iter.keywords \
                and "->" in self.spec.types.get(s.iter.func.id, "") and s.iter.func.id in self.params:
            it, kind, targets = s.iter, "each", [s.target.id]          # (eighth extension) for x in f(..), f a parameter of function type
        elif isinstance(s, ast.For) and self.unit is not None and isinstance(s.target, ast.Name) \
                and isinstance(s.iter, ast.Attribute) and s.iter.attr == "children" and isinstance(s.iter.value, ast.Name) \
                and s.iter.value.id in env and self.kind(self.spec.types.get(s.iter.value.id, ""))[0] == "ntree":
            it, kind, targets = s.iter, "children", [s.target.id]
        elif isinstance(s, ast.For) and isinstance(s.target, ast.Name) and self.singleton_call(s.iter, env) is not None:
            it, kind, targets = s.iter, "each", [s.target.id]          # (seventh extension) for y in x.m(): the one item x
        elif isinstance(s, ast.For) and self.unit is not None and isinstance(s.target, ast.Name) \
                and (isinstance(s.iter, ast.Name) or isinstance(s.iter, ast.Call) and self.obj_call(s.iter, env) is not None
                     or self.tail_slice(s.iter, env) is not None or self.container_iter(s.iter, env) is not None
                     or self.iter6(s.iter, env)):
            it, kind, targets = s.iter, "each", [s.target.id]
        elif isinstance(s, ast.For) and self.tables() and isinstance(s.target, ast.Tuple) and len(s.target.elts) == 2 \
                and all(isinstance(x, ast.Name) for x in s.target.elts) and isinstance(s.iter, ast.Name) and s.iter.id in env \
                and is_list(self.ntype(s.iter, env)) and is_pair(arg_of(self.ntype(s.iter, env))):
            # for a, b in xs, xs a list of 2-tuples
            it, kind, targets = s.iter, "each", [x.id for x in s.target.elts]
            pattern = list(targets)
        elif isinstance(s, ast.For) and self.unit is not None and self.unit.seventh and isinstance(s.target, ast.Tuple) \
                and len(s.target.elts) == 2 and all(isinstance(x, ast.Name) for x in s.target.elts) \
                and self.zip_slices(s.iter, env) is not None:
            # for a, b in zip(xs[0:-1], xs[1:]): the pairs of neighbours of xs, left to right
            it, kind, targets = s.iter, "each", [x.id for x in s.target.elts]
            pattern = list(targets)
        elif isinstance(s, ast.For) and isinstance(s.target, ast.Name) and self.traverse_of(s.iter, env) is not None \
                and not (isinstance(s.iter.func.value, ast.Name) and self.traverse_of(s.iter, env)[1] == "preorder"):
            it, kind, targets = s.iter, "each", [s.target.id]
        elif isinstance(s, ast.For) and self.unit is not None and isinstance(s.iter, ast.Call) \
                and isinstance(s.iter.func, ast.Name) and s.iter.func.id == "product" and "product" in self.unit.builtins \
                and "product" not in self.spec.types and len(s.iter.args) == 2 and not s.iter.keywords \
                and isinstance(s.target, ast.Tuple) and len(s.target.elts) == 2 \
                and all(isinstance(x, ast.Name) for x in s.target.elts):
            it, kind, targets = s.iter, "product", [x.id for x in s.target.elts]
        elif isinstance(s, ast.For) and self.unit is not None and isinstance(s.target, ast.Name) \
                and isinstance(s.iter, ast.Call) and isinstance(s.iter.func, ast.Attribute) and s.iter.func.attr == "traverse" \
                and isinstance(s.iter.func.value, ast.Name) and s.iter.func.value.id in env \
                and self.kind(self.spec.types.get(s.iter.func.value.id, ""))[0] == "tree" and not s.iter.keywords \
                and len(s.iter.args) == 1 and isinstance(s.iter.args[0], ast.Constant) and s.iter.args[0].value == "preorder":
            it, kind, targets = s.iter, "preorder", [s.target.id]
        elif isinstance(s, ast.For):
            it = s.iter
            nargs = (1, 2) if self.unit is not None else (1,)
            if not (isinstance(it, ast.Call) and isinstance(it.func, ast.Name) and len(it.args) in nargs and not it.keywords):
                self.abort(s, "for loop outside the handled subset (range(e), enumerate(xs))")
            if it.func.id == "range" and isinstance(s.target, ast.Name):
                kind, targets = "range", [s.target.id] * (s.target.id != "_")
            elif it.func.id == "enumerate" and isinstance(s.target, ast.Tuple) and len(s.target.elts) == 2 \
                    and all(isinstance(x, ast.Name) for x in s.target.elts) and isinstance(it.args[0], ast.Name) \
                    and len(it.args) == 1:
                kind, targets = "enum", [x.id for x in s.target.elts]
            elif it.func.id == "enumerate" and isinstance(s.target, ast.Tuple) and len(s.target.elts) == 2 \
                    and self.unit is not None and self.unit.ntrees and isinstance(s.target.elts[0], ast.Name) \
                    and isinstance(s.target.elts[1], ast.Tuple) and len(s.target.elts[1].elts) == 2 \
                    and all(isinstance(x, ast.Name) for x in s.target.elts[1].elts) and isinstance(it.args[0], ast.Name) \
                    and len(it.args) == 1:
                # for i, (a, b) in enumerate(xs), xs a list of 2-tuples; a component named _ is not bound
                pattern = [x.id for x in s.target.elts[1].elts]
                kind, targets = "enum", [s.target.elts[0].id] + [x for x in pattern if x != "_"]
            else:
                self.abort(s, "for loop outside the handled subset (range(e), enumerate(xs))")
        else:
            kind = "while"
        mutated = self.assigned(s.body)
        alias = None
        if kind == "each" and self.containers() and targets[0] in mutated and targets[0] not in env:
            alias = self.alias_loop(s, it, env, mutated)      # the loop variable holds a list the body updates in place
            mutated = (mutated - {targets[0]}) | ({alias} if alias else set())
        for x in targets:
            if x in env or x in mutated or len(set(targets)) != len(targets):
                self.abort(s, f"loop variable {x!r} is also assigned elsewhere")
        state = [v for v in env if v in mutated]
        used = self.used(s.body + ([s.test] if kind == "while" else []))
        ro = [v for v in env if v not in state and v in used]
        if any(v + "!" in env for v in state + ro):
            self.abort(s, "a variable narrowed by an assert is used in a loop")
        if (self.spec.rec_fuel or self.spec.rec_on) and any(_is_self_call(c) and c.func.attr == self.fn.name
                                      for b in s.body for c in ast.walk(b)):
            self.abort(s, "recursive call inside a loop")
        rec_inside = any(self.is_self_rec(c) for b in s.body for c in ast.walk(b))
        if rec_inside and kind != "children" and not (self.tables() and kind == "each"):
            self.abort(s, "recursive call inside a loop other than 'for c in <node>.children'")
        fuel_inside = any(self.is_self_fuel(c) for b in s.body for c in ast.walk(b))
        if fuel_inside and (kind != "each" or alias is not None or isinstance(it, ast.Call)):
            self.abort(s, "call of the function itself (recursion on fuel) inside a loop other than 'for x in <variable>'")
        name = f"{self.prefix}{self.spec.alias or self.fn.name}_{'while' if kind == 'while' else 'for'}{n}"
        tup = "tt" if not state else state[0] if len(state) == 1 else "(" + ", ".join(state) + ")"
        sty = " * ".join(self.ct(self.ty(s, v)) for v in state) or "unit"
        ctx = _Ctx(ret=lambda e: f"Ret {self.pack(e)}", fail=lambda e: f"Fail {e}", fall=None, brk=f"Next {tup}",
                   retp=lambda e: f"Ret {e}", loop_body=True)
        args = lambda mid: " ".join([name] + ro + mid + state)
        sig = lambda mid, struct: " ".join(
            [f"Fixpoint {name}"] + [self.binder(s, v) for v in ro] + [mid] + [self.binder(s, v) for v in state]
            + [f"{{struct {struct}}} : flow ({sty}) ({self.RR}) :="])
        inner_env = [v for v in env if v in ro or v in state]
        if kind == "enum":
            seq = it.args[0].id
            if not is_list(self.ntype(it.args[0], env)) or seq in mutated:
                self.abort(s, "enumerate() must iterate a sequence variable the loop does not modify")
            et = arg_of(self.ntype(it.args[0], env))
            if pattern is not None:
                if not is_pair(et) or any(x != "_" and self.ty(s, x) != ct for x, ct in zip(pattern, pair_args(et))) \
                        or self.ty(s, targets[0]) != "N":
                    self.abort(s, f"enumerate() targets must be declared (N, ({', '.join(pair_args(et)) if is_pair(et) else et}))")
                item = "(" + ", ".join(pattern) + ")"
            else:
                if self.ty(s, targets[0]) != "N" or self.ty(s, targets[1]) != et:
                    self.abort(s, "enumerate() targets must be declared (N, elem)")
                item = targets[1]
            ctx.fall = args(["it''", "(N.succ idx')"])
            body = self.block(s.body, inner_env + targets, ctx)
            fix = [sig(f"(it' : {self.ct(self.ntype(it.args[0], env))}) (idx' : N)", "it'"), "  match it' with",
                   f"  | nil => Next {tup}",
                   f"  | cons {item} it'' =>", f"    let {targets[0]} := idx' in"] + _ind(_ind(body)) + ["  end."]
            call = args([seq, "0%N"])
        elif kind == "children":
            # for c in x.children, x a node of an n-ary tree: the children in order.  When the body calls the enclosing
            # (structurally recursive) function, the loop is a local [fix] inside that function's Fixpoint -- nested
            # recursion: the children are subterms of x --, over the variables the body assigns (the others are in scope)
            tv = it.value.id
            tt = self.ty(s, tv)
            if self.ty(s, targets[0]) != tt or tv in mutated:
                self.abort(s, f"the loop variable must be declared {tt} (and the loop may not assign {tv!r})")
            if tv in self.subtrees or tv == self.spec.rec_on:
                self.subtrees.add(targets[0])
            term, cty = f"({tt}_children {tv})", f"list {tt}"
            if rec_inside:
                ctx.fall = " ".join([name, "it''"] + state)
                body = self.block(s.body, inner_env + targets, ctx)
                head = " ".join([f"(fix {name} (it' : {cty})"] + [self.binder(s, v) for v in state]
                                + [f"{{struct it'}} : flow ({sty}) ({self.RR}) :="])
                lines = [head, "   match it' with", f"   | nil => Next {tup}", f"   | cons {targets[0]} it'' =>"] \
                    + _ind(_ind(_ind(body))) + ["   end) " + " ".join([term] + state)]
                return lines, state
            ctx.fall = args(["it''"])
            body = self.block(s.body, inner_env + targets, ctx)
            fix = [sig(f"(it' : {cty})", "it'"), "  match it' with", f"  | nil => Next {tup}",
                   f"  | cons {targets[0]} it'' =>"] + _ind(_ind(body)) + ["  end."]
            call = args([term])
        elif kind == "each" and self.containers():
            term, cty, et = self.iterable(s, it, env, h, mutated - ({alias} if alias else set()))
            if pattern is not None:
                if [self.ty(s, x) for x in pattern] != pair_args(et) or alias is not None:
                    self.abort(s, f"the loop variables must be declared {pair_args(et)}")
            elif self.ty(s, targets[0]) != et:
                self.abort(s, f"the loop variable must be declared {et}")
            item7 = "(" + ", ".join(pattern) + ")" if pattern is not None else targets[0]
            saved = (getattr(self, "alias", {}), getattr(self, "temp_vars", ()))
            if targets[0] in self.assigned(s.body):
                # the loop variable holds a list the body updates in place: it is xs[idx'] (alias: the list variable xs the
                # loop iterates, updated at once) or an item of a list nothing else names (the result of a call)
                self.alias = dict(saved[0], **{targets[0]: alias})
                self.temp_vars = tuple(saved[1]) + ((targets[0],) if alias is None else ())
            idx = ["idx'"] * (alias is not None)
            if fuel_inside:
                # the body calls the enclosing function (recursion on fuel): the loop is a local [fix] inside that function's
                # Fixpoint, over the variables the body assigns (the others are in scope)
                ctx.fall = " ".join([name, "it''"] + state)
                body = self.block(s.body, inner_env + targets, ctx)
                self.alias, self.temp_vars = saved
                head = " ".join([f"(fix {name} (it' : {cty})"] + [self.binder(s, v) for v in state]
                                + [f"{{struct it'}} : flow ({sty}) ({self.RR}) :="])
                lines = [head, "   match it' with", f"   | nil => Next {tup}", f"   | cons {item7} it'' =>"] \
                    + _ind(_ind(_ind(body))) + ["   end) " + " ".join([term] + state)]
                return lines, state
            ctx.fall = args(["it''"] + ["(S idx')"] * len(idx))
            body = self.block(s.body, inner_env + targets, ctx)
            self.alias, self.temp_vars = saved
            fix = [sig(f"(it' : {cty})" + " (idx' : nat)" * len(idx), "it'"), "  match it' with", f"  | nil => Next {tup}",
                   f"  | cons {item7} it'' =>"] + _ind(_ind(body)) + ["  end."]
            call = args([term] + ["O"] * len(idx))
        elif kind == "each":
            term, cty, et = self.iterable(s, it, env, h, mutated)
            item = targets[0]
            if pattern is not None:
                if [self.ty(s, x) for x in pattern] != pair_args(et):
                    self.abort(s, f"the loop variables must be declared {pair_args(et)}")
                item = "(" + ", ".join(pattern) + ")"
            elif self.unit.seventh and (et, self.ty(s, targets[0])) in self.unit.narrowings:
                # the items have a wider type than the declared type of the loop variable (keys of a table dimension that
                # are declared ints): an item of another shape is the declared error
                nar_pat, nar_err = self.unit.narrowings[(et, self.ty(s, targets[0]))]
                self.need(nar_err)
                item = targets[0] + "'k"
            elif self.ty(s, targets[0]) != et and not (self.tables() and self.canon(self.ty(s, targets[0])) == self.canon(et)):
                self.abort(s, f"the loop variable must be declared {et}")
            if rec_inside:
                # the body calls the enclosing function (structural recursion on a tree parameter): the loop is a local [fix]
                # inside that function's Fixpoint, over the variables the body assigns (the others are in scope)
                ctx.fall = " ".join([name, "it''"] + state)
                body = self.block(s.body, inner_env + targets, ctx)
                if item == targets[0] + "'k":
                    body = [f"match {item} with", f"| {nar_pat.format(targets[0])} =>"] + _ind(body) + [f"| _ => Fail {nar_err}", "end"]
                head = " ".join([f"(fix {name} (it' : {cty})"] + [self.binder(s, v) for v in state]
                                + [f"{{struct it'}} : flow ({sty}) ({self.RR}) :="])
                lines = [head, "   match it' with", f"   | nil => Next {tup}", f"   | cons {item} it'' =>"] \
                    + _ind(_ind(_ind(body))) + ["   end) " + " ".join([term] + state)]
                return lines, state
            ctx.fall = args(["it''"])
            body = self.block(s.body, inner_env + targets, ctx)
            if item == targets[0] + "'k":
                body = [f"match {item} with", f"| {nar_pat.format(targets[0])} =>"] + _ind(body) + [f"| _ => Fail {nar_err}", "end"]
            fix = [sig(f"(it' : {cty})", "it'"), "  match it' with", f"  | nil => Next {tup}",
                   f"  | cons {item} it'' =>"] + _ind(_ind(body)) + ["  end."]
            call = args([term])
        elif kind == "preorder":
            # for x in t.traverse("preorder"): the node, then its first subtree, then its second one (ete3); the loop is a
            # Fixpoint on the tree, [next'] (what follows the body for this node) descends into the two subtrees
            tv = it.func.value.id
            tt = self.ty(s, tv)
            if self.ty(s, targets[0]) != tt or tv in mutated:
                self.abort(s, f"the loop variable must be declared {tt} (and the loop may not assign {tv!r})")
            ctx.brk = None                    # a break would have to leave every enclosing call
            ctx.fall = " ".join(["next'"] + state) if state else "next' tt"
            body = self.block(s.body, inner_env + targets, ctx)
            pat = "_" if not state else tup
            fix = [sig(f"(it' : {self.ct(tt)})", "it'"),
                   "  let next' := fun " + (" ".join(self.binder(s, v) for v in state) or "(_ : unit)") + " =>",
                   "    match it' with", f"    | {tt}_leaf _ => Next {tup}", f"    | {tt}_node _ it1'' it2'' =>",
                   "      match " + args(["it1''"]) + " with",
                   f"      | Next {pat} => " + args(["it2''"]),
                   "      | Ret r' => Ret r'", "      | Fail e' => Fail e'", "      end", "    end in",
                   f"  let {targets[0]} := it' in"] + _ind(body)
            fix[-1] += "."
            call = args([tv])
        elif kind == "product":
            # one Python loop over all pairs, in the order of itertools.product: two nested Fixpoints
            (term1, cty1, et1), (term2, cty2, et2) = [self.iterable(s, a, env, h, mutated) for a in it.args]
            if self.ty(s, targets[0]) != et1 or self.ty(s, targets[1]) != et2:
                self.abort(s, f"the loop variables must be declared ({et1}, {et2})")
            ctx.brk = None                    # a break would have to leave both Fixpoints
            inner = name + "_in"
            ctx.fall = " ".join([inner] + ro + [targets[0], "it2''"] + state)
            body = self.block(s.body, inner_env + targets, ctx)
            flow_t = f"flow ({sty}) ({self.RR})"
            robs, stbs = [self.binder(s, v) for v in ro], [self.binder(s, v) for v in state]
            self.fixpoints.append("\n".join(
                [" ".join([f"Fixpoint {inner}"] + robs + [self.binder(s, targets[0]), f"(it2' : {cty2})"] + stbs
                          + [f"{{struct it2'}} : {flow_t} :="]),
                 "  match it2' with", f"  | nil => Next {tup}", f"  | cons {targets[1]} it2'' =>"]
                + _ind(_ind(body)) + ["  end."]))
            pat = "_" if not state else tup
            fix = [" ".join([f"Fixpoint {name}"] + robs + [f"(it1' : {cty1})", f"(ys' : {cty2})"] + stbs
                            + [f"{{struct it1'}} : {flow_t} :="]),
                   "  match it1' with", f"  | nil => Next {tup}", f"  | cons {targets[0]} it1'' =>",
                   "    match " + " ".join([inner] + ro + [targets[0], "ys'"] + state) + " with",
                   f"    | Next {pat} => " + " ".join([name] + ro + ["it1''", "ys'"] + state),
                   "    | Ret r' => Ret r'", "    | Fail e' => Fail e'", "    end", "  end."]
            call = args([term1, term2])
        elif kind == "range" and len(it.args) == 1:
            if self.ntype(it.args[0], env) not in (("N", "lit") if self.unit is None else ("N", "lit", "Z")):
                self.abort(s, "range(e) is only translated for e of declared type N")
            count = self.count(it.args[0], env, h)
            if targets and self.ty(s, targets[0]) != "N":
                self.abort(s, "range() target must be declared N")
            ctx.fall = args(["cnt''"] + ["(N.succ idx')"] * len(targets))
            body = self.block(s.body, inner_env + targets, ctx)
            fix = [sig("(cnt' : nat)" + " (idx' : N)" * len(targets), "cnt'"), "  match cnt' with", f"  | O => Next {tup}",
                   "  | S cnt'' =>"] + [f"    let {x} := idx' in" for x in targets] + _ind(_ind(body)) + ["  end."]
            call = args([count] + ["0%N"] * len(targets))
        elif kind == "range":
            tt = self.ty(s, targets[0]) if targets else "Z"
            st = self.ntype(it.args[0], env)
            if tt not in ("N", "Z") or (tt == "N" and st not in ("N", "lit")):
                self.abort(s, "range(a, b) target must be declared Z, or N when a is of type N")
            self.join(s, st, self.ntype(it.args[1], env))
            hs: list = []
            start, lo = self.expr(it.args[0], tt, env, hs), self.expr(it.args[0], "Z", env, hs)
            if hs:
                self.abort(s, "range(a, b) with a start that can raise")
            hi = self.expr(it.args[1], "Z", env, h)
            ctx.fall = args(["cnt''"] + [f"({tt}.succ idx')"] * len(targets))
            body = self.block(s.body, inner_env + targets, ctx)
            fix = [sig("(cnt' : nat)" + f" (idx' : {tt})" * len(targets), "cnt'"), "  match cnt' with", f"  | O => Next {tup}",
                   "  | S cnt'' =>"] + [f"    let {x} := idx' in" for x in targets] + _ind(_ind(body)) + ["  end."]
            call = args([f"(Z.to_nat (Z.sub {hi} {lo}))"] + [start] * len(targets))
        else:
            if n not in self.spec.fuel:
                self.abort(s, f"while loop number {n} has no declared fuel measure")
            ctx.fall = args(["fuel''"])
            hc: list = []
            test = self.expr(s.test, "bool", inner_env, hc)
            body = self.block(s.body, inner_env, ctx)
            fix = [sig("(fuel' : nat)", "fuel'")] + _ind(self.hoisted(hc, [
                f"if {test} then (", "  match fuel' with", "  | O => Fail OutOfFuel", "  | S fuel'' =>"] + _ind(_ind(body))
                + ["  end", f") else Next {tup}"], ctx))
            fix[-1] += "."
            call = args([f"({self.spec.fuel[n]})"])
        self.fixpoints.append("\n".join(fix))
        return call, state

    def iterable(self, s, a, env, h, mutated):
        """(term, Coq type, element type) of the list or set `a` a loop iterates (in list order)."""
        if self.enum_iter8(a) is not None:
            # (eighth extension) for x in E, E an enum class: its members in definition order
            en = self.enum_iter8(a)
            term = "nil"
            for m_ in reversed(self.unit.enums[en]):
                term = f"(cons {self.unit.q(en)}{en}_{m_} {term})"
            return term, f"list {self.ct(en)}", en
        if self.items8(a, env) is not None:
            # (eighth extension) for k, v in d.items(): the items in iteration order (insertion order for a dict)
            term, et = self.items8(a, env)
            if any(n in mutated for n in _names([a])):
                self.abort(s, "the loop modifies the dictionary it iterates")
            return term, self.ct("list (" + et + ")"), et
        ts = self.tail_slice(a, env)
        if ts is not None:
            # xs[k:]: a copy of xs without its first k items (all of them when k >= len(xs)); never raises
            t = self.ntype(a.value, env)
            if ts[0] in mutated:
                self.abort(s, "the loop modifies the sequence it iterates")
            return f"(skipn {ts[1]} {ts[0]})", self.ct(t), arg_of(t)
        if self.singleton_call(a, env) is not None:
            # (seventh extension) x.m() declared to yield x itself and nothing else (`Unit.singleton_methods`)
            x, t = self.singleton_call(a, env)
            if x in mutated:
                self.abort(s, "the loop modifies the object it iterates")
            return f"(cons {x} nil)", f"list {self.ctp(t)}", t
        tr = self.traverse_of(a, env)
        if tr is not None:
            # for x in t.traverse(<strategy>): the nodes of t (each the subtree it roots) in that order
            tt, strategy, v = tr
            if any(n in mutated for n in _names([v])):
                self.abort(s, "the loop modifies what the tree it traverses is computed from")
            self.unit.traversals.add((tt, strategy))
            ctt = self.ct(tt)
            return f"({tt}_{strategy} {self.expr(v, tt, env, h)})", f"list {ctt if ' ' not in ctt else '(' + ctt + ')'}", tt
        if self.unit is not None and self.unit.seventh and self.zip_slices(a, env) is not None:
            xs, t = self.zip_slices(a, env)
            if xs in mutated:
                self.abort(s, "the loop modifies the sequence it iterates")
            cet = self.ct(arg_of(t))
            cet = cet if " " not in cet else "(" + cet + ")"
            return f"(combine (removelast {xs}) (skipn 1 {xs}))", f"list ({cet} * {cet})", f"pair {arg_of(t)} {arg_of(t)}"
        ci = self.container_iter(a, env)
        if ci == "values":
            # for v in d.values(): the values of the items, in order
            d = a.func.value.id
            if d in mutated:
                self.abort(s, "the loop modifies the dictionary it iterates")
            vt = self.unit.elemdicts[self.spec.types[d]]
            return f"(map snd {d})", f"list {self.ct(vt) if ' ' not in self.ct(vt) else '(' + self.ct(vt) + ')'}", vt
        t = self.ntype(a, env)
        if is_list(t) or (self.tables() and is_tuple(t)):
            et = arg_of(t)
            if self.tables() and self.iter6(a, env):
                # a slice of a tuple / the value of a chain (a set or a list read through views): evaluated once, before the loop
                if any(v in mutated for v in _names([a])) and not getattr(a, "snapshot7", False):
                    self.abort(s, "the loop modifies what the sequence it iterates is computed from")
                return self.expr(a, t, env, h), self.ct(t), et
        elif self.tables() and self.kind(t)[0] == "set" and self.iter6(a, env):
            # a set read through views: Python fixes no order for its items: the unit's order function for that instance decides
            term = self.expr(a, t, env, h)
            order = self.unit.set_orders.get(self.kind(t)[2])
            return (f"({order} {term})" if order else term), self.ct(t), "elem" + self.kind(t)[2]
        elif self.kind(t)[0] == "set":
            et = "elem" + self.kind(t)[2]
        elif self.kind(t)[0] == "seqset":
            et = "elem"                       # a set nothing updates, given in its iteration order
        else:
            self.abort(s, f"iteration over a value of type {t}")
        if ci == "item":
            if a.value.id in mutated:
                self.abort(s, "the loop modifies the dictionary whose item it iterates")
            if self.kind(t)[0] == "set":
                self.abort(s, "iteration over a dictionary item declared 'set' (declare 'seqset': a set nothing updates, "
                              "given in its iteration order)")
            return self.expr(a, t, env, h), self.ct(t), et
        if ci == "call":
            return self.expr(a, t, env, h), self.ct(t), et        # the result of the call: a list nothing else names
        if self.unit is not None and self.unit.seventh and isinstance(a, ast.Call) and isinstance(a.func, ast.Name) \
                and "->" in self.spec.types.get(a.func.id, "") and a.func.id in self.params and is_list(t):
            # the list a parameter of function type (a pure total function) returns: evaluated once, before the loop
            return self.expr(a, t, env, h), self.ct(t), et
        if isinstance(a, ast.Name):
            if a.id in mutated:
                self.abort(s, "the loop modifies the sequence it iterates")
            if self.containers() and self.kind(t)[0] == "set" and self.unit.set_order:
                # Python fixes no order for the items of a set: the unit's order function decides
                return f"({self.unit.set_order} {a.id})", self.ct(t), et
        elif not (isinstance(a, ast.Call) and self.obj_call(a, env) and self.obj_call(a, env)[0] not in mutated):
            self.abort(s, "iteration over something other than a variable or a reading method call on an object the loop leaves alone")
        return self.expr(a, t, env, h), self.ct(t), et

    def container_iter(self, a, env):
        """'item' when `a` is `d[k]`, 'values' when it is `d.values()` (d a dictionary variable keyed by elements), 'call' when
        it is `f(..)` for a function of the unit (or the function itself, recursive on fuel) returning a list; else None."""
        if not self.containers():
            return None
        if isinstance(a, ast.Subscript) and self.edict_of(a.value, env) is not None:
            return "item"
        if isinstance(a, ast.Call) and isinstance(a.func, ast.Attribute) and a.func.attr == "values" and not a.args \
                and not a.keywords and self.edict_of(a.func.value, env) is not None:
            return "values"
        if isinstance(a, ast.Call) and isinstance(a.func, ast.Name) and a.func.id not in self.spec.types and not a.keywords \
                and (a.func.id in self.unit.functions or self.is_self_fuel(a)) and self.fresh_call(a):
            return "call"
        return None

    def alias_loop(self, s, it, env, mutated):
        """Checks for `for x in <it>` whose body updates the list x in place.  Returns the list variable xs when the loop
        iterates xs (x is xs[idx'], every update is written back), None when it iterates the result of a call."""
        x = s.target.id
        if not is_list(self.ty(s, x)):
            self.abort(s, f"loop variable {x!r} is also assigned elsewhere")
        ci = self.container_iter(it, env)
        over_var = isinstance(it, ast.Name) and it.id in env and it.id not in self.params and it.id not in self.fieldvars \
            and is_list(self.spec.types.get(it.id, "")) and arg_of(self.spec.types[it.id]) == self.ty(s, x)
        if ci != "call" and not over_var:
            self.abort(s, f"the loop updates its variable {x!r} in place: only handled over a local list variable or the result "
                          "of a call")
        if over_var and it.id in mutated:
            self.abort(s, "the loop modifies the sequence it iterates")
        parents = {id(c): n for b in s.body for n in ast.walk(b) for c in ast.iter_child_nodes(n)}
        escapes = []
        for b in s.body:
            for n in ast.walk(b):
                if not (isinstance(n, ast.Name) and n.id == x):
                    continue
                par = parents.get(id(n))
                if not isinstance(n.ctx, ast.Load):
                    self.abort(n, f"loop variable {x!r} is also assigned elsewhere")
                if isinstance(par, ast.Attribute) and par.attr in ("append", "reverse") and isinstance(parents.get(id(par)), ast.Call) \
                        and parents[id(par)].func is par:
                    continue                      # x.append(..) / x.reverse()
                if isinstance(par, ast.Call) and isinstance(par.func, ast.Name) and par.func.id == "len" and "len" not in self.spec.types:
                    continue                      # len(x)
                if isinstance(par, ast.Subscript) and par.value is n and isinstance(par.ctx, ast.Load):
                    continue                      # x[i]
                escapes.append(n)
        last = s.body[-1]
        ok_last = isinstance(last, ast.Expr) and isinstance(last.value, ast.Call) and isinstance(last.value.func, ast.Attribute) \
            and last.value.func.attr == "append" and isinstance(last.value.func.value, ast.Name) and last.value.func.value.id != x \
            and len(last.value.args) == 1 and not last.value.keywords
        for n in escapes:
            if over_var or not (ok_last and last.value.args[0] is n):
                self.abort(n, f"the list {x!r}, which the loop updates in place, is stored elsewhere (only 'ys.append({x})' as the "
                              "last statement of a loop over the result of a call is handled)")
        return it.id if over_var else None

    def pack(self, e: str) -> str:
        """The value a `return e` hands back: for a method, together with the state of the object."""
        if self.cls is None:
            # a function that updates dictionary parameters hands them back with its result
            return e if not self.spec.mutates else "(" + ", ".join(list(self.spec.mutates) + [e]) + ")"
        return f"({self.state(self.fn)}, {e})"

    def translate(self) -> str:
        fn, a = self.fn, self.fn.args
        if fn.decorator_list:
            self.abort(fn, "decorated function")
        ext = self.unit is not None and self.cls is not None      # *args / omitted defaulted parameters: methods of a unit
        fdef = self.unit is not None and self.cls is None and bool(self.unit.ntrees) and not a.vararg   # f(x, n=0)
        if a.posonlyargs or a.kwonlyargs or a.kwarg or a.kw_defaults or ((a.vararg or a.defaults) and not (ext or fdef)):
            self.abort(fn, "only plain positional parameters without defaults are handled")
        self.params = [x.arg for x in a.args]
        self.fun_defaults = {}
        for x, d in zip(a.args[len(a.args) - len(a.defaults):], a.defaults):
            if fdef:
                # a function parameter with a non-negative int literal as default: a call that omits it passes that literal
                if not (isinstance(d, ast.Constant) and type(d.value) is int and d.value >= 0
                        and self.spec.types.get(x.arg) in ("N", "Z")):
                    self.abort(x, f"parameter {x.arg!r}: only a non-negative int literal default on an int parameter is handled")
                self.fun_defaults[x.arg] = d.value
                continue
            if self.tables() and isinstance(d, ast.Attribute) and isinstance(d.value, ast.Name) and d.value.id in self.unit.enums \
                    and d.attr in self.unit.enums[d.value.id] and self.spec.types.get(x.arg) == d.value.id:
                # a parameter whose default is a member of a declared enum: a call that omits it passes the member
                self.enum_defaults[x.arg] = f"{self.unit.q(d.value.id)}{d.value.id}_{d.attr}"
                continue
            # a parameter with the default None that every translated call omits is the constant None
            if isinstance(d, ast.Constant) and d.value is None and self.unit.passed_defaults \
                    and self.kind(self.spec.types.get(x.arg, "none"))[0] == "tree":
                continue                          # `node=None` declared a tree: every translated call passes it
            if not (isinstance(d, ast.Constant) and d.value is None and self.spec.types.get(x.arg) == "none"):
                self.abort(x, f"parameter {x.arg!r} has a default value: only '= None' on a parameter declared 'none' "
                              "(omitted by every call) is handled")
            self.params.remove(x.arg)
        self.absent = [x.arg for x in a.args if x.arg not in self.params]
        if any(t == "none" and v not in self.absent for v, t in self.spec.types.items()):
            self.abort(fn, "the type 'none' is only for a parameter with the default None")
        if a.vararg:
            if not is_list(self.spec.types.get(a.vararg.arg, "")):
                self.abort(fn, f"*{a.vararg.arg} must be declared with a list type")
            self.params.append(a.vararg.arg)
        if len(set(self.params)) != len(self.params):
            self.abort(fn, "duplicate parameter")
        self.RR = self.R
        if self.unit is not None and self.unit.ninth:
            self.rewrite9()
        if self.cls is not None:
            return self.translate_method()
        if self.unit is not None and self.unit.ninth:
            self.prepare9()
        binders = " ".join(self.binder(fn, p) for p in self.params)
        ctx = _Ctx(ret=lambda e: f"Ok {e}", fail=lambda e: f"Err {e}", fall=None)
        self.scan_cursors()
        if self.tables() and not self.spec.rec_fuel and (self.spec.ret == "unit" or self.spec.generator or self.spec.fresh or any(
                self.kind(self.spec.types.get(m, ""))[0] == "class" for m in self.spec.mutates)
                or (self.spec.rec_on and self.kind(self.spec.types.get(self.spec.rec_on, ""))[0] == "tree")):
            return self.translate_sixth(binders)
        if self.spec.mutates or self.spec.rec_fuel:
            return self.translate_fifth(binders)
        if self.spec.rec_on and (self.unit is None or self.spec.rec_on not in self.params
                                 or self.kind(self.spec.types[self.spec.rec_on])[0] != "ntree" or self.spec.rec_fuel):
            self.abort(fn, "the recursion parameter of a function must be a parameter of a declared n-ary tree type")
        body = self.block(fn.body, list(self.params), ctx)
        head = f"(* {fn.name}, line {fn.lineno} *)\n"
        if self.spec.rec_on:
            if not self.in_rec:
                self.abort(fn, "recursion parameter declared for a function that does not call itself")
            return head + "\n\n".join(self.fixpoints + [
                f"Fixpoint {self.prefix}{self.spec.alias or fn.name} {binders} {{struct {self.spec.rec_on}}} : res ({self.R}) :=\n"
                + "\n".join(_ind(body)) + "."])
        return head + "\n\n".join(self.fixpoints + [
            f"Definition {self.prefix}{self.spec.alias or fn.name} {binders} : res ({self.R}) :=\n" + "\n".join(_ind(body)) + "."])

    def translate_fifth(self, binders: str) -> str:
        """A module-level function that updates dictionary parameters in place (`FunSpec.mutates`: it returns them, in that
        order, together with its result) and / or calls itself (`FunSpec.rec_fuel`: a Fixpoint on explicit fuel)."""
        fn = self.fn
        if not self.containers() or self.spec.rec_on:
            self.abort(fn, "fuel / updated parameters declared for a function of a unit without `use_containers`")
        for m in self.spec.mutates:
            if m not in self.params or self.kind(self.spec.types.get(m, ""))[0] != "elemdict" \
                    or list(self.spec.mutates).count(m) != 1:
                self.abort(fn, f"updated parameter {m!r} is not a parameter holding a dictionary keyed by elements")
        if self.spec.mutates:
            self.RR = " * ".join([self.ct(self.spec.types[m]) for m in self.spec.mutates]
                                 + [self.R if " " not in self.R else "(" + self.R + ")"])
        ctx = _Ctx(ret=lambda e: f"Ok {self.pack(e)}", fail=lambda e: f"Err {e}", fall=None, retp=lambda e: f"Ok {e}")
        body = self.block(fn.body, list(self.params), ctx)
        name = self.prefix + (self.spec.alias or fn.name)
        head = f"(* {fn.name}, line {fn.lineno} *)\n"
        if not self.spec.rec_fuel:
            return head + "\n\n".join(self.fixpoints + [
                f"Definition {name} {binders} : res ({self.RR}) :=\n" + "\n".join(_ind(body)) + "."])
        if not self.in_rec:
            self.abort(fn, "fuel declared for a function that does not call itself")
        rec = [f"Fixpoint {name}_rec (fuel' : nat) {binders} {{struct fuel'}} : res ({self.RR}) :=",
               "  match fuel' with", "  | O => Err OutOfFuel", "  | S fuel'' =>"] + _ind(_ind(body)) + ["  end."]
        top = [f"Definition {name} {binders} : res ({self.RR}) :=",
               f"  {name}_rec ({self.spec.rec_fuel}) {' '.join(self.params)}."]
        return head + "\n\n".join(self.fixpoints + ["\n".join(rec), "\n".join(top)])

    def translate_method(self) -> str:
        fn, cls = self.fn, self.cls
        if not self.params or self.params[0] != "self":
            self.abort(fn, "method whose first parameter is not 'self'")
        self.params = self.params[1:]
        st = self.ct(cls.name) if cls.name in self.unit.classes else f"{cls.short}_state"
        init = fn.name == "__init__"
        if init != (not self.spec.ret):
            self.abort(fn, "exactly __init__ returns nothing")
        if self.unit.ninth:
            self.prepare9()
        fn.body = [_SelfRewriter(self, cls).visit(s) for s in fn.body]
        for n in ast.walk(fn):
            if isinstance(n, ast.Name) and n.id == "self" and not getattr(n, "is_call_base", False):
                self.abort(n, "use of 'self' other than self.<declared attribute> or self.<method>(..)")
        self.RR = st if init else f"{st} * {self.R}"
        binders = " ".join(self.binder(fn, p) for p in self.params)
        name = self.prefix + (self.spec.alias or fn.name)
        head = f"(* {cls.name}.{fn.name}, line {fn.lineno} *)\n"
        self.scan_cursors()

        def fall(env):
            missing = [v for v in self.fieldvars if v not in env]
            if missing:
                self.abort(fn, f"__init__ does not assign {missing[0].replace(chr(39), '.')} on every path at top level")
            return f"Ok {self.state(fn)}"
        if self.spec.pure and (init or set(self.assigned(fn.body)) & set(self.fieldvars)):
            self.abort(fn, "method declared as only reading its object, but it assigns an attribute or calls a method of self")
        if self.spec.ret == "unit":            # a method that returns nothing
            fall = lambda env: f"Ok {self.pack('tt')}"
        ctx = _Ctx(ret=lambda e: f"Ok {self.pack(e)}", fail=lambda e: f"Err {e}",
                   fall=fall if init or self.spec.ret == "unit" else None, retp=lambda e: f"Ok {e}")
        gen = ["acc'"] if self.tables() and self.spec.generator else []
        if gen:
            if init or not is_list(self.spec.ret) or not any(isinstance(n, (ast.Yield, ast.YieldFrom)) for n in ast.walk(fn)):
                self.abort(fn, "a generator is a method other than __init__ that yields; its declared result is the list of what it yields")
            ctx.fall = lambda env: f"Ok {self.pack(chr(97) + 'cc' + chr(39))}"
        elif any(isinstance(n, (ast.Yield, ast.YieldFrom)) for n in ast.walk(fn)):
            self.abort(fn, "yield in a function that is not declared a generator")
        if self.tables() and self.spec.fresh:
            self.check_fresh()
        body = self.block(fn.body, list(self.params) + self.absent + ([] if init else self.fieldvars + list(self.viewvars)) + gen, ctx)
        if gen:
            body = [f"let acc' := (@nil ({self.ct(arg_of(self.spec.ret))})) in"] + body
        if init:
            return head + "\n\n".join(self.fixpoints + [
                f"Definition {name}{' ' * bool(binders)}{binders} : res ({self.RR}) :=\n" + "\n".join(_ind(body)) + "."])
        body = [f"let '{self.state(fn)} := self in"] + body
        if not self.in_rec:
            if self.spec.rec_fuel or self.spec.rec_on:
                self.abort(fn, "fuel / recursion parameter declared for a method that does not call itself")
            return head + "\n\n".join(self.fixpoints + [
                f"Definition {name} (self : {st}){' ' * bool(binders)}{binders} : res ({self.RR}) :=\n" + "\n".join(_ind(body)) + "."])
        if self.fixpoints:
            self.abort(fn, "recursive method with loops")
        if self.spec.rec_on:
            if self.spec.rec_fuel or self.spec.rec_on not in self.params \
                    or self.kind(self.spec.types[self.spec.rec_on])[0] != "tree":
                self.abort(fn, "the recursion parameter must be a parameter of a declared tree type (and no fuel declared)")
            return head + "\n".join(
                [f"Fixpoint {name} (self : {st}) {binders} {{struct {self.spec.rec_on}}} : res ({self.RR}) :="] + _ind(body)) + "."
        rec = [f"Fixpoint {name}_rec (fuel' : nat) (self : {st}) {binders} {{struct fuel'}} : res ({self.RR}) :=",
               "  match fuel' with", "  | O => Err OutOfFuel", "  | S fuel'' =>"] + _ind(_ind(body)) + ["  end."]
        top = [f"Definition {name} (self : {st}){' ' * bool(binders)}{binders} : res ({self.RR}) :=",
               f"  {name}_rec ({self.spec.rec_fuel}) self {' '.join(self.params)}."]
        return head + "\n".join(rec) + "\n\n" + "\n".join(top)


class _SelfRewriter(ast.NodeTransformer):
    """`self.f` (f a declared attribute) -> the variable `self'f`; marks the `self` of `self.m(..)`."""

    def __init__(self, fun: _Fun, cls: ClassSpec):
        self.fun, self.cls = fun, cls

    def visit_Call(self, node):
        unit = self.fun.unit
        if isinstance(node.func, ast.Name) and node.func.id == "self" and unit is not None and unit.pure_self_calls:
            # self(..) is self.__call__(..)
            base = ast.copy_location(ast.Name(id="self", ctx=ast.Load()), node)
            node.func = ast.copy_location(ast.Attribute(value=base, attr="__call__", ctx=ast.Load()), node)
        if _is_self_call(node) and unit is not None and unit.foreigns and node.func.attr in self.cls.fields:
            # self.f(..), f a declared attribute (holding an object): a call of the variable self'f
            node.func = ast.copy_location(ast.Name(id="self'" + node.func.attr, ctx=ast.Load()), node)
            node.args = [self.visit(a) for a in node.args]
            return node
        if _is_self_call(node):
            node.func.value.is_call_base = True
            node.args = [self.visit(a) for a in node.args]
            return node
        if unit is not None and unit.tables and isinstance(node.func, ast.Name) and node.func.id in unit.classes \
                and unit.classes[node.func.id].views and node.args and isinstance(node.args[0], ast.Name) \
                and node.args[0].id == "self" and list(unit.classes[node.func.id].views.values())[0] == self.cls.name:
            node.args[0].is_call_base = True      # V(self, ..): a view of this object
        return self.generic_visit(node)

    def visit_Return(self, node):
        unit = self.fun.unit
        if unit is not None and unit.tables and isinstance(node.value, ast.Name) and node.value.id == "self" \
                and unit.kind(self.fun.spec.ret)[0] == "union":
            node.value.is_call_base = True        # return self: the object itself, where a union of classes is expected
            return node
        return self.generic_visit(node)

    def visit_Attribute(self, node):
        views = self.cls.views
        if views and isinstance(node.value, ast.Attribute) and isinstance(node.value.value, ast.Name) \
                and node.value.value.id == "self" and node.value.attr in views:
            # self.f.g, f an attribute referring to an object of a translated class: the variable self'f'g (g an attribute
            # of that class, only read) or the method g of the object self'f
            f = node.value.attr
            target = self.fun.unit.classes[views[f]]
            if node.attr in target.fields:
                if not isinstance(node.ctx, ast.Load):
                    self.fun.abort(node, f"assignment to self.{f}.{node.attr}")
                return ast.copy_location(ast.Name(id=f"self'{f}'{node.attr}", ctx=ast.Load()), node)
            node.value = ast.copy_location(ast.Name(id="self'" + f, ctx=ast.Load()), node.value)
            return node
        if isinstance(node.value, ast.Name) and node.value.id == "self":
            if node.attr not in self.cls.fields:
                self.fun.abort(node, f"self.{node.attr} is not a declared attribute")
            if isinstance(node.ctx, ast.Del):
                self.fun.abort(node, "del of an attribute")
            return ast.copy_location(ast.Name(id="self'" + node.attr, ctx=node.ctx), node)
        return self.generic_visit(node)


def translate_function(path: Path, fn: ast.FunctionDef, spec: FunSpec, prefix: str = "gen_") -> str:
    """Gallina text (loop Fixpoints, then the Definition) for one function; uses `A` and `eqb` of the enclosing Section."""
    for t in list(spec.types.values()) + [spec.ret]:
        if t not in COQ_TYPE:
            raise TranslatorAbort(f"{path}:{fn.lineno}: unknown declared type {t!r} for {fn.name}")
    return _Fun(path, fn, spec, prefix).translate()


class _KwNormalizer(ast.NodeTransformer):
    """(seventh extension) `f(a, p=b, q=c)` for a function / dataclass whose parameter names the unit knows (`Unit.kwparams`):
    the positional call `f(a, b, c)` -- only when the keywords are exactly the next parameters, in their order (the
    evaluation order is then unchanged); any other keyword call is left alone and aborts where it is translated."""

    def __init__(self, kwparams: Dict[str, List[str]], local_names: set):
        self.kwparams, self.local_names = kwparams, local_names

    def visit_Call(self, node):
        self.generic_visit(node)
        if isinstance(node.func, ast.Name) and node.func.id in self.kwparams and node.func.id not in self.local_names \
                and node.keywords and not any(isinstance(a, ast.Starred) for a in node.args):
            names = self.kwparams[node.func.id]
            given = [k.arg for k in node.keywords]
            if given == names[len(node.args):len(node.args) + len(given)]:
                node.args = list(node.args) + [k.value for k in node.keywords]
                node.keywords = []
        return node


class Unit:
    """One generated file: functions and classes of one Python module, translated in the order
    given (a callee before its callers), plus the prelude with exactly the errors/helpers used."""

    def __init__(self, path: Path, tree: ast.Module, prefix: str = "gen_", elem_lt: bool = False,
                 truthy_elem: bool = False, extended: bool = False):
        self.path, self.tree, self.prefix, self.elem_lt = path, tree, prefix, elem_lt
        self.functions: Dict[str, FunSpec] = {}
        self.params: Dict[object, List[str]] = {}
        self.done_methods: Dict[str, List[FunSpec]] = {}
        self.errors: set = set()
        self.helpers: set = set()
        # declarations of the unit (all empty for the units that use none of this)
        self.extended = extended               # classes are declared types; typing stubs and docstring assignments are skipped
        self.truthy_elem = truthy_elem         # assumption: every element is truthy (`if x` on an optional element)
        self.opaques: Dict[str, tuple] = {}    # type name -> (Coq type, {"eqb"/"ltb"/"leb": Coq function})
        self.constants: Dict[str, tuple] = {}  # imported Python name -> (type, Coq term, Coq term of its negation or None)
        self.externals: Dict[str, tuple] = {}  # imported Python function -> (argument types, result type, Coq function)
        self.builtins: set = set()             # {"product"} once `from itertools import product` is verified
        self.enums: Dict[str, List[str]] = {}
        self.datas: Dict[str, DataSpec] = {}
        self.classes: Dict[str, ClassSpec] = {}
        self.varargs: Dict[object, str] = {}
        self.method_uses_eqb: Dict[object, bool] = {}
        self.outside = False                   # translating after the Section of the classes was closed
        # third extension (all empty / False for the units that declare none of this)
        self.trees: Dict[str, str] = {}        # binary tree type -> Coq type of its node identifiers
        self.mappings: Dict[str, tuple] = {}   # mapping type (dict keyed by the nodes of a tree) -> (tree type, value type)
        self.enumdicts: Dict[str, dict] = {}   # dict keyed by enum members -> {(enum, member): declared type}
        self.opaque_methods: Dict[str, dict] = {}   # opaque type -> {method | "__call__": (argument types, result type, Coq function)}
        self.arith: Dict[str, tuple] = {}      # opaque number type -> (Coq addition, Coq injection from Z)
        self.taken: set = {"dict_get", "set_of_list", "set_subset"}   # Coq names the declarations / new helpers introduce
        self.nodedicts: Dict[str, tuple] = {}  # local dict keyed by the nodes of a tree -> (tree type, value type, key equality)
        self.set_ops = False                   # `set(xs)` of a list of elements, `a <= b` on sets
        self.products = False                  # `a * b`, `min(a, b)` on ints; an int literal beside an int in `a if c else b`
        self.bool_asserts = False              # `assert <boolean expression>`
        self.passed_defaults = False           # `node=None` on a tree parameter that every translated call passes
        self.insts: Dict[str, tuple] = {"": ("A", "eqb")}   # type-name suffix -> (element type, its equality or None)
        # fourth extension (all empty / False for the units that declare none of this)
        self.ntrees: Dict[str, tuple] = {}     # n-ary tree type -> (Coq type of its node identifiers, their equality)
        self.foreigns: Dict[str, dict] = {}    # class translated into another generated file -> its declaration
        self.raises = False                    # `raise <Error>(..)` of a modelled built-in exception
        self.pure_self_calls = False           # methods declared `pure` may call each other (and `self(..)`) in expressions
        self.fun_defaults: Dict[str, dict] = {}   # translated function -> {parameter: its (int literal) default}
        # fifth extension (all empty / False for the units that do not call `use_containers`)
        self.seventh = False                   # seventh extension (see `use_seventh`)
        self.eighth = False                    # eighth extension (see `use_eighth`)
        self.ninth = False                     # ninth extension (see `use_ninth`)
        self.list_set_order9: Dict[str, str] = {}   # (ninth extension) list type -> Section variable: the order of `list(set(xs))`
        self.local_defs9: Dict[tuple, set] = {}     # (ninth extension) (class, method) -> its local functions translated before it
        self.local_owner9: Dict[str, tuple] = {}    # (ninth extension) local function -> (class, method) that defines it
        self.buildtrees9: Dict[str, str] = {}       # (ninth extension) tree under construction (ete3 `Tree`) -> type of its names
        self.tuples9: Dict[str, list] = {}          # (ninth extension) fixed-length tuple type -> the types of its components
        self.sets8: Dict[str, tuple] = {}      # (eighth extension) set type -> (element type, Coq equality, order parameter)
        self.ddicts8: Dict[str, tuple] = {}    # (eighth extension) defaultdict(set) type -> (key type, set type)
        self.items8: Dict[str, tuple] = {}     # (eighth extension) mapping type -> (Coq function giving its items, item type)
        self.kinddicts8: Dict[str, tuple] = {}  # (eighth extension) dict keyed by ALL members of an enum -> (enum, named tuple of its values)
        self.varcalls8: Dict[str, tuple] = {}  # (eighth extension) opaque type -> (set type of *args, result type, Coq function): x(*s)
        self.proxy_alias8 = False              # (eighth extension) `x = table[a][b]` names a stateless proxy (see `_Fun.block8`)
        self.kwparams: Dict[str, List[str]] = {}   # imported function -> its parameter names (keyword arguments at calls)
        self.externals_res: Dict[str, tuple] = {}  # (seventh extension) imported function that can fail -> (argument types, result type, Coq function)
        self.mapping_mem: Dict[str, str] = {}      # (seventh extension) mapping type -> Coq function deciding `node in d`
        self.lookup_lists: Dict[tuple, str] = {}   # (seventh extension) (nodedict type, list type) -> total Coq term for `[d[k]]` ({d}, {k})
        self.tree_eqb: Dict[str, str] = {}         # (seventh extension) binary tree type -> Coq equality of its node identifiers (`==` on nodes)
        self.singleton_methods: set = set()        # (seventh extension) (class, method): `x.m()` is the one-element list `[x]`
        self.noop_methods: set = set()             # (seventh extension) (class, method): `x.m()` as a statement has no modelled effect
        self.stderr_print = False                  # (seventh extension) `print(<f-string>, file=sys.stderr)` is a no-op statement
        self.local_sfx: Dict[tuple, str] = {}  # method added in this file to an imported class -> the instance it is for
        self.snapshot_iteration = False        # `for x in table[a][b]`: the keys are taken at loop entry (see `_Fun.loop`)
        self.narrowings: Dict[tuple, tuple] = {}   # (item type, declared type of the loop variable) -> (Coq pattern, error)
        self.containers = False                # deque / seqset types, more set methods, dictionaries keyed by elements, ...
        self.set_order: Optional[str] = None   # Section parameter `list A -> list A`: the order in which a set variable is iterated
        self.elemdicts: Dict[str, str] = {}    # dictionary keyed by elements -> declared type of its values
        self.mutates: Dict[str, tuple] = {}    # translated function -> the (dictionary) parameters it updates in place
        # sixth extension (all empty / False for the units that do not call `use_tables`)
        self.tables = False                    # tuples as sequences, marker classes, cells / references, views, unions, imports
        self.markers: Dict[str, list] = {}     # class without attributes (`@dataclass class C(B): <docstring>`) -> its base names
        self.cellspec: Optional[dict] = None   # the type of the cells of a nested table (see `cells`)
        self.unions: Dict[str, list] = {}      # union type -> the translated classes whose objects it holds
        self.quals: Dict[str, str] = {}        # declared name taken from another generated file -> that file's module alias
        self.targs: Dict[str, str] = {}        # such a type -> its type arguments (`{A}`: the element type of the instance)
        self.heads: Dict[object, str] = {}     # (class, method key) of such a class -> head of a call (`{A}`, `{eqb}` as above)
        self.head_lift: Dict[object, str] = {}  # (class, method key) of such a class -> the lift of the file that defines it
        self.local_methods: set = set()        # (class, method key): a method of a class of another file translated in this one
        self.set_orders: Dict[str, str] = {}   # instance suffix -> Section parameter: the order in which a set of that instance is iterated
        self.unwrap_none = False               # `x.f` of an optional field where a value is needed: the error NoneValue when None
        self.type_alias: Dict[str, str] = {}   # a type name -> the declared type it is another name of (`elem2` -> the tag type)
        self.opaque_attrs: Dict[str, dict] = {}    # opaque type -> {attribute: (declared type, Coq function)}
        self.traversals: set = set()           # (tree type, strategy) of the traversals the translated code iterates
        self.ret_override: Dict[object, str] = {}   # (class, method key) -> result type here (a method used at another element type)
        self.lifts: Dict[str, str] = {}        # module alias -> the function converting that file's `res` into this file's
        self.section_vars: List[str] = []      # further explicit variables of the Section (`keqb`), in the order of its Context
        self.method_uses_vars: Dict[object, set] = {}   # (class, method key) / function -> the section variables its text uses
        self.method_defaults: Dict[object, dict] = {}   # (class, method key) -> {parameter: Coq term of its (enum member) default}
        self.data_defaults: Dict[str, dict] = {}        # dataclass -> {field: Coq term of its default (None)}
        self.coercions: Dict[tuple, str] = {}  # (type of the value, expected type) -> format of the conversion (`{}`: the value)
        self.check_module()

    # ------------------------------------------------------------ the module as a whole
    def check_module(self):
        """Abort unless every module-level statement is an import, a def, a class, the docstring, a simple constant
        assignment `NAME = <expression built from names, constants, subscripts, TypeVar / NewType calls>` or
        `if TYPE_CHECKING: <imports>` -- anything else could run code that changes what the translated names mean (a
        monkey-patch such as `mod.Class.method = ..`, a call with effects) -- and unless no module-level def, class or
        assignment binds the name of a built-in the translation gives a fixed meaning to."""
        def const(e) -> bool:
            if isinstance(e, ast.Call):
                return isinstance(e.func, ast.Name) and e.func.id in ("TypeVar", "NewType") \
                    and all(const(a) for a in e.args) and all(k.arg is not None and const(k.value) for k in e.keywords)
            if isinstance(e, (ast.Constant, ast.Name)):
                return True
            if isinstance(e, ast.Attribute):
                return const(e.value)
            if isinstance(e, ast.Subscript):
                return const(e.value) and const(e.slice)
            if isinstance(e, (ast.Tuple, ast.List)):
                return all(const(x) for x in e.elts)
            if isinstance(e, ast.UnaryOp) and isinstance(e.op, (ast.USub, ast.UAdd)):
                return isinstance(e.operand, ast.Constant)
            if isinstance(e, ast.BinOp) and isinstance(e.op, ast.BitOr):
                return const(e.left) and const(e.right)
            return False

        builtin = {"len", "set", "sorted", "min", "max", "sum", "zip", "range", "list", "tuple", "dict", "any", "all",
                   "enumerate", "reversed", "iter", "next", "isinstance"}
        for i, n in enumerate(self.tree.body):
            if isinstance(n, (ast.Import, ast.ImportFrom)):
                for a in n.names:
                    if (a.asname or a.name).split(".")[0] in builtin:
                        self.abort(n, f"the import binds the built-in name {(a.asname or a.name)!r}")
                continue
            if isinstance(n, (ast.FunctionDef, ast.AsyncFunctionDef, ast.ClassDef)):
                if n.name in builtin:
                    self.abort(n, f"module-level definition of the built-in name {n.name!r}")
                continue
            if isinstance(n, ast.Expr) and isinstance(n.value, ast.Constant) and isinstance(n.value.value, str):
                continue                          # the docstring / a string statement: no effect
            if isinstance(n, ast.Assign) and all(isinstance(t, ast.Name) for t in n.targets) and const(n.value):
                if any(t.id in builtin for t in n.targets):
                    self.abort(n, "module-level assignment to a built-in name")
                continue
            if isinstance(n, ast.AnnAssign) and isinstance(n.target, ast.Name) and (n.value is None or const(n.value)):
                if n.target.id in builtin:
                    self.abort(n, "module-level assignment to a built-in name")
                continue
            if isinstance(n, ast.If) and (isinstance(n.test, ast.Name) and n.test.id == "TYPE_CHECKING"
                                          or isinstance(n.test, ast.Attribute) and n.test.attr == "TYPE_CHECKING"
                                          and isinstance(n.test.value, ast.Name)) \
                    and all(isinstance(b, (ast.Import, ast.ImportFrom)) for b in n.body + n.orelse) \
                    and not any((a.asname or a.name).split(".")[0] in builtin for b in n.body + n.orelse for a in b.names):
                continue
            self.abort(n, "module-level statement other than an import, a def, a class, a docstring, a simple constant "
                          "assignment or `if TYPE_CHECKING:` imports (it could change what the translated names mean, e.g. by "
                          "assigning an attribute of an imported module or class)")

    # ------------------------------------------------------------ declared types
    def parametric(self) -> set:
        """Type names that depend on the element type."""
        return {"elem", "set"} | set(self.datas) | set(self.classes) | set(self.unions) \
            | ({self.cellspec["name"]} if self.cellspec else set())

    def extra_names(self) -> set:
        base = set(self.opaques) | set(self.enums) | {"unit", "none"} | set(self.trees) | set(self.mappings) \
            | set(self.enumdicts) | set(self.nodedicts) | set(self.ntrees) | set(self.foreigns) | set(self.elemdicts) \
            | ({"deque", "seqset"} if self.containers else set())
        if self.tables:
            base |= {"tuple", "cursor"} | set(self.markers) | set(self.unions) | ({self.cellspec["name"]} if self.cellspec else set())
        return base | {p + s for p in self.parametric() for s in self.insts}

    def kind(self, t: str):
        if t in self.opaques:
            return "opaque", t, ""
        if t in self.enums:
            return "enum", t, ""
        if t in self.trees:
            return "tree", t, ""
        if t in self.mappings:
            return "mapping", t, ""
        if t in self.enumdicts:
            return "enumdict", t, ""
        if t in self.nodedicts:
            return "nodedict", t, ""
        if t in self.ntrees:
            return "ntree", t, ""
        if t in self.foreigns:
            return "foreign", t, ""
        if t in self.elemdicts:
            return "elemdict", t, ""
        if self.containers and t in ("deque", "seqset"):
            return t, t, ""
        if self.tables:
            if t in self.markers:
                return "marker", t, ""
            if t in self.unions:
                return "union", t, ""
            if self.cellspec and t == self.cellspec["name"]:
                return "cell", t, ""
            if t == "cursor":
                return "cursor", t, ""
        for sfx in sorted(self.insts, key=len, reverse=True):
            b = t[:len(t) - len(sfx)] if sfx else t
            if t.endswith(sfx) and b in self.parametric():
                k = "data" if b in self.datas else "class" if b in self.classes else "union" if b in self.unions \
                    else "cell" if self.cellspec and b == self.cellspec["name"] else b
                return k, b, sfx
        return None, t, ""

    def coq_base(self) -> Dict[str, str]:
        base = {k: v[0] for k, v in self.opaques.items()}
        base.update({k: k for k in self.enums})
        base.update({k: k for k in self.trees})
        base.update({k: k for k in self.enumdicts})
        base.update({k: k for k in self.ntrees})
        base.update({k: v["coq"] for k, v in self.foreigns.items()})
        base["unit"] = "unit"
        for sfx, (a, _) in self.insts.items():
            arg = " " + a if self.outside else ""
            base["elem" + sfx] = a
            base["set" + sfx] = f"list {a}"
            for d in self.datas:
                base[d + sfx] = d + arg
            for c, spec in self.classes.items():
                base[c + sfx] = f"{spec.short}_state{arg}"
            for n in self.quals:             # a type of another generated file: qualified, with its type arguments
                if n in self.datas or n in self.classes:
                    own = n if n in self.datas else f"{self.classes[n].short}_state"
                    ta = self.targs.get(n, "").replace("{A}", a)
                    base[n + sfx] = f"{self.quals[n]}.{own}" + (" " + ta if ta else "")
        for n in self.quals:
            if n in self.enums or n in self.markers or n in self.trees or n in self.enumdicts:
                ta = self.targs.get(n, "")
                base[n] = f"{self.quals[n]}.{n}" + (" " + ta if ta else "")
            if n in self.unions or (self.cellspec and n == self.cellspec["name"]):
                for sfx, (a, _) in self.insts.items():
                    ta = self.targs.get(n, "").replace("{A}", a)
                    base[n + sfx] = f"{self.quals[n]}.{n}" + (" " + ta if ta else "")
        if self.tables:
            for n in list(self.markers) + list(self.unions) + ([self.cellspec["name"]] if self.cellspec else []):
                base.setdefault(n, n)
            if self.cellspec:
                kt_ = self.cellspec['key']
                base["cursor"] = f"list {self.opaques[kt_][0] if self.seventh and kt_ in self.opaques else kt_}"
        if not self.opaques and not self.enums and not self.datas and not self.classes and not self.outside \
                and not self.ntrees and not self.foreigns and not self.containers and not self.tables:
            return {}
        if self.containers:
            base["deque"] = base["seqset"] = f"list {self.insts[''][0]}"
            for k, vt in self.elemdicts.items():
                v = coq_type(vt, base)
                base[k] = f"list ({self.insts[''][0]} * {v if ' ' not in v else '(' + v + ')'})"
        for k, (tree, vt) in self.mappings.items():
            v = coq_type(vt, base)
            base[k] = f"{self.trees[tree]} -> {v if ' ' not in v else '(' + v + ')'}"
        for k, (tree, vt, _) in self.nodedicts.items():
            v = coq_type(vt, base)
            base[k] = f"list ({self.ident_of(tree)} * {v if ' ' not in v else '(' + v + ')'})"
        return base

    def cls_parametric(self, cls: ClassSpec) -> bool:
        """Does the Record of `cls` depend on the element type (so that it takes it as an argument outside the Section)?"""
        for t in cls.fields.values():
            toks = t.replace("(", " ( ").replace(")", " ) ").split()
            for i, w in enumerate(toks):
                if w in self.parametric() or w == "list" and (i + 1 == len(toks) or toks[i + 1] == ")"):
                    return True
        return False

    def imported(self, name: str, module: str):
        """Abort unless `name` is bound at module level exactly by `from <module> import <name>`."""
        binds = []
        for n in self.tree.body:
            if isinstance(n, ast.ImportFrom):
                binds += [(n, n.module, a.name) for a in n.names if (a.asname or a.name) == name]
            elif isinstance(n, ast.Import):
                binds += [(n, None, a.name) for a in n.names if (a.asname or a.name).split(".")[0] == name]
            elif isinstance(n, (ast.FunctionDef, ast.AsyncFunctionDef, ast.ClassDef)) and n.name == name:
                binds.append((n, None, name))
            else:                             # any other statement (also a class body) that stores the name
                binds += [(n, None, name) for x in ast.walk(n) if isinstance(x, ast.Name) and x.id == name
                          and isinstance(x.ctx, (ast.Store, ast.Del))]
        glob = [n for n in ast.walk(self.tree) if isinstance(n, (ast.Global, ast.Nonlocal)) and name in n.names]
        star = [n for n in self.tree.body if isinstance(n, ast.ImportFrom) and any(a.name == "*" for a in n.names)]
        level = len(module) - len(module.lstrip("."))       # `..pkg.mod`: a relative import of that level
        if len(binds) != 1 or binds[0][1] != module.lstrip(".") or binds[0][2] != name or binds[0][0].level != level \
                or glob or star:
            where = (glob + star + [b[0] for b in binds] + [self.tree])[0]
            self.abort(where, f"{name!r} is not bound exactly once, by 'from {module} import {name}'")

    # seventh extension
    def plain_import(self, name: str):
        """(seventh extension) Abort unless `name` is bound exactly once in the module, by a module-level `import <name>`."""
        binders = []
        for n in ast.walk(self.tree):
            if isinstance(n, ast.Name) and n.id == name and isinstance(n.ctx, (ast.Store, ast.Del)) \
                    or isinstance(n, (ast.FunctionDef, ast.AsyncFunctionDef, ast.ClassDef)) and n.name == name \
                    or isinstance(n, ast.arg) and n.arg == name \
                    or isinstance(n, (ast.Import, ast.ImportFrom)) and any(
                        (a.asname or a.name).split(".")[0] == name or a.name == "*" for a in n.names) \
                    or isinstance(n, (ast.Global, ast.Nonlocal)) and name in n.names \
                    or isinstance(n, ast.ExceptHandler) and n.name == name:
                binders.append(n)
        if len(binders) != 1 or not isinstance(binders[0], ast.Import) or binders[0] not in self.tree.body \
                or not any(a.name == name and a.asname is None for a in binders[0].names):
            self.abort((binders + [self.tree])[0], f"{name!r} is not bound exactly once, by 'import {name}'")

    def rebinds(self, name: str) -> bool:
        """Does anything in the module bind `name` (so that it may not be the built-in of that name)?"""
        for n in ast.walk(self.tree):
            if isinstance(n, ast.Name) and n.id == name and isinstance(n.ctx, (ast.Store, ast.Del)) \
                    or isinstance(n, (ast.FunctionDef, ast.AsyncFunctionDef, ast.ClassDef)) and n.name == name \
                    or isinstance(n, ast.arg) and n.arg == name \
                    or isinstance(n, (ast.Import, ast.ImportFrom)) and any(
                        (a.asname or a.name).split(".")[0] == name or a.name == "*" for a in n.names) \
                    or isinstance(n, (ast.Global, ast.Nonlocal)) and name in n.names \
                    or isinstance(n, ast.ExceptHandler) and n.name == name:
                return True
        return False

    def opaque(self, name: str, coq: str, **cmp: str):
        """A type of immutable values the generated file takes from a library, with its comparison functions."""
        self.opaques[name] = (coq, cmp)

    def constant(self, name: str, module: str, typ: str, term: str, neg: str = None):
        self.imported(name, module)
        self.constants[name] = (typ, term, neg)

    def external(self, name: str, module: str, args: List[str], ret: str, coq: str):
        self.imported(name, module)
        self.externals[name] = (list(args), ret, coq)

    # seventh extension
    def external_res(self, name: str, module: str, args: List[str], ret: str, coq: str, fresh: bool = False):
        """(seventh extension) An imported function that can raise: `coq` is a Coq function of the declared argument types
        returning `res <ret>` in the result type of this file (a wrapper the driver writes); a call is hoisted, in
        evaluation order, as `match coq args with Err e' => .. | Ok x => ..`.  The function only reads its arguments.
        `fresh`: the driver's declaration that a list it returns is built by the call (a list variable may be bound to it).
        `module=None`: a function defined (once, never rebound: checked) by the module under translation itself."""
        if not self.seventh or name in self.externals or name in self.functions:
            self.abort(self.tree, f"external_res({name!r}) needs the seventh extension and a name that is not declared otherwise")
        if module is None:
            # a function of this module that another part of the generated file translates (the driver's wrapper calls it)
            self._unique(self.tree.body, name, ast.FunctionDef)
        else:
            self.imported(name, module)
        try:
            self.externals_res[name] = ([norm_type(a, self.extra_names()) for a in args], norm_type(ret, self.extra_names()), coq, fresh)
        except ValueError as e:
            self.abort(self.tree, f"unknown declared type {e.args[0]!r} for {name}")
        self.taken.add(coq)

    def bintree(self, name: str, ident: str) -> str:
        """A type of immutable binary trees walked with `x.is_leaf()` and `a, b = x.children` (ete3): an Inductive whose
        nodes carry an identifier of the Coq type `ident` (the identity of the Python node object)."""
        if name in RESERVED or name in self.extra_names():
            self.abort(self.tree, f"tree type name {name!r} is in use")
        self.trees[name] = ident
        self.taken.update({name, ident, f"{name}_leaf", f"{name}_node", f"{name}_id", f"{name}_is_leaf"})
        return "\n".join([
            f"(* {name}: a node is a leaf or has exactly two children; [id] stands for the identity of the node object *)",
            f"Inductive {name} : Type := {name}_leaf (id : {ident}) | {name}_node (id : {ident}) (a b : {name}).",
            f"Definition {name}_id (t : {name}) : {ident} := match t with {name}_leaf i => i | {name}_node i _ _ => i end.",
            f"Definition {name}_is_leaf (t : {name}) : bool := match t with {name}_leaf _ => true | {name}_node _ _ _ => false end."])

    def ident_of(self, tree: str) -> str:
        """Coq type of the node identifiers of a declared (binary or n-ary) tree type."""
        return self.trees[tree] if tree in self.trees else self.ntrees[tree][0]

    def ntree(self, name: str, ident: str, eqb: str) -> str:
        """A type of immutable trees whose nodes have any number of children (ete3): an Inductive whose nodes carry an
        identifier of the Coq type `ident` (the identity of the Python node object; `==` / `!=` on two nodes compare
        the identifiers with `eqb`) and the list of their children.  `x.is_leaf()` is `<name>_is_leaf x` (no child),
        `for c in x.children` a loop over `<name>_children x`."""
        if name in RESERVED or name in self.extra_names():
            self.abort(self.tree, f"tree type name {name!r} is in use")
        self.ntrees[name] = (ident, eqb)
        self.taken.update({name, ident, eqb, f"{name}_node", f"{name}_id", f"{name}_children", f"{name}_is_leaf"})
        return "\n".join([
            f"(* {name}: a node has a list of children (a leaf: none); [id] stands for the identity of the node object *)",
            f"Inductive {name} : Type := {name}_node (id : {ident}) (children : list {name}).",
            f"Definition {name}_id (t : {name}) : {ident} := match t with {name}_node i _ => i end.",
            f"Definition {name}_children (t : {name}) : list {name} := match t with {name}_node _ c => c end.",
            f"Definition {name}_is_leaf (t : {name}) : bool := match {name}_children t with nil => true | cons _ _ => false end."])

    def foreign_class(self, name: str, module: str, coq: str, lift: str, init: tuple = None, call: tuple = None):
        """A class imported by `from <module> import <name>` that another driver translates into another generated file
        (with `pyfun`, so that it keeps no alias of a list it is given and returns none): `coq` is the Coq type of its
        objects, `init = (argument types, Coq function)` what `<name>(args)` is, `call = (argument types, result type,
        Coq function)` what `x(args)` on an object is -- the function takes the object first and returns the other
        file's `res (object * result)`; the driver declares (and has checked) that the call leaves the object as it is.
        `lift` converts the other file's `res` into this file's."""
        self.imported(name, module)
        if name in RESERVED or name in self.extra_names():
            self.abort(self.tree, f"class name {name!r} is in use")
        ex = self.extra_names()
        try:
            decl = {"coq": coq, "lift": lift, "init": None, "call": None}
            if init is not None:
                decl["init"] = ([norm_type(a, ex) for a in init[0]], init[1])
            if call is not None:
                decl["call"] = ([norm_type(a, ex) for a in call[0]], norm_type(call[1], ex), call[2])
        except ValueError as e:
            self.abort(self.tree, f"unknown declared type {e.args[0]!r} for {name}")
        self.foreigns[name] = decl
        self.taken.add(lift)

    def pair_ltb(self, name: str, first: str, second_tree: str, node_ltb: str) -> str:
        """Python's `<` on tuples `(int, node)`: the first components decide unless they are equal; then the nodes are
        compared: `==` first (identity: equal tuples are not `<`), and `<` between two distinct nodes -- which ete3 nodes
        do not define (TypeError) -- is the function `node_ltb` on identifiers, an unknown the proofs quantify over."""
        if first not in ("N", "Z") or second_tree not in self.ntrees or name in RESERVED or name in self.taken:
            self.abort(self.tree, f"order {name!r}: only on pairs (N | Z, declared n-ary tree)")
        ident, eqb = self.ntrees[second_tree]
        self.taken.update({name, node_ltb})
        ida, idb = f"({second_tree}_id (snd a))", f"({second_tree}_id (snd b))"
        return "\n".join([
            f"(* (l1, n1) < (l2, n2) on Python tuples: l1 < l2 when l1 != l2; else False when n1 == n2 (the same node);",
            f"   else n1 < n2, which ete3 nodes do not define: [{node_ltb}] stands for whatever that would answer *)",
            f"Definition {name} (a b : {first} * {second_tree}) : bool :=",
            f"  if {first}.eqb (fst a) (fst b) then (if {eqb} {ida} {idb} then false else {node_ltb} {ida} {idb})",
            f"  else {first}.ltb (fst a) (fst b)."])

    def mapping(self, name: str, tree: str, value: str):
        """A dictionary keyed by the nodes of the tree type `tree`, only ever read, total on the nodes looked up:
        a function from node identifiers to values of the declared type `value`."""
        if tree not in self.trees or name in RESERVED or name in self.extra_names():
            self.abort(self.tree, f"mapping {name!r}: unknown tree type {tree!r} / name in use")
        try:
            self.mappings[name] = (tree, norm_type(value, self.extra_names()))
        except ValueError as e:
            self.abort(self.tree, f"unknown declared type {e.args[0]!r} for the values of {name}")

    def enumdict(self, name: str, keys: Dict[str, str]) -> str:
        """A dictionary whose keys are members of declared enums (`"Enum.MEMBER" -> declared type`), only ever read with
        a literal key, holding every declared key: a Record with one field per key."""
        fields, names = {}, []
        for k, t in keys.items():
            en, _, mem = k.partition(".")
            if en not in self.enums or mem not in self.enums[en] or mem in names:
                self.abort(self.tree, f"key {k!r} of {name} is not a member of a declared enum (or its name is used twice)")
            try:
                fields[(en, mem)] = norm_type(t, self.extra_names())
            except ValueError as e:
                self.abort(self.tree, f"unknown declared type {e.args[0]!r} for {name}[{k}]")
            names.append(mem)
        if name in RESERVED or name in self.extra_names() or not fields:
            self.abort(self.tree, f"dictionary type name {name!r} is in use / no key")
        self.enumdicts[name] = fields
        self.taken.update({name, "mk_" + name} | {f"{name}_{m}" for m in names})
        return (f"(* {name}: a dictionary holding exactly the keys below *)\nRecord {name} : Type := mk_{name} {{ "
                + "; ".join(f"{name}_{m} : {coq_type(t, self.coq_base())}" for (_, m), t in fields.items()) + " }.")

    def methods_of(self, name: str, methods: Dict[str, tuple], call: tuple = None):
        """Methods of the values of the opaque type `name` (`x.m(args)`: `method -> (argument types, result type, Coq
        function)`, the function takes the object first) and, with `call`, what `x(args)` is.  All pure and total."""
        if name not in self.opaques:
            self.abort(self.tree, f"methods declared for {name!r}, which is not an opaque type")
        decl = dict(methods)
        if call is not None:
            decl["__call__"] = call
        ex = self.extra_names()
        try:
            self.opaque_methods[name] = {m: ([norm_type(a, ex) for a in d[0]], norm_type(d[1], ex), d[2])
                                         for m, d in decl.items()}
        except ValueError as e:
            self.abort(self.tree, f"unknown declared type {e.args[0]!r} for a method of {name}")
        self.taken.update(d[2] for d in decl.values())

    def numbers(self, name: str, add: str, of_Z: str):
        """The opaque type `name` holds numbers: `a + b` with an operand of that type is `add` (an int operand is injected
        with `of_Z`), an int where such a number is expected is injected."""
        if name not in self.opaques:
            self.abort(self.tree, f"arithmetic declared for {name!r}, which is not an opaque type")
        self.arith[name] = (add, of_Z)

    def use_containers(self, set_order: str = None):
        """Switch on the fifth extension: the types `deque` and `seqset`, `remove` / `discard` / `set(s)` on sets, dictionaries
        keyed by elements (`elemdict`), functions recursive on fuel, functions that update a dictionary parameter, loop
        variables holding a list that is updated in place.  `set_order`: the Section parameter (`list A -> list A`) applied to
        a set variable where a `for` iterates it (None: list order)."""
        self.containers = True
        self.set_order = set_order
        self.taken.update({"adict_get", "adict_set", "seq_remove", "set_discard", "rev", "list_set"} | ({set_order} if set_order else set()))

    def use_tqdm(self):
        """`for x in tqdm(xs, ..)` iterates xs (checked: `tqdm` is bound exactly once, by `from tqdm import tqdm`)."""
        self.imported("tqdm", "tqdm")
        self.tqdm_ok = True

    def use_eighth(self):
        """Switch on the eighth extension (see the module docstring); needs `use_tables` and `use_seventh`."""
        if not (self.tables and self.seventh):
            self.abort(self.tree, "use_eighth needs use_tables and use_seventh")
        self.eighth = True

    def use_ninth(self, list_set_order: Dict[str, str] = None):
        """Switch on the ninth extension (see the module docstring); needs `use_containers`, `use_tables`, `use_seventh` and an
        `extended` unit.  `list_set_order`: list type -> the Section variable (a function on that list type) that gives the
        order of `list(set(xs))`."""
        if not (self.tables and self.seventh and self.containers and self.extended):
            self.abort(self.tree, "use_ninth needs an extended unit with use_containers, use_tables and use_seventh")
        self.ninth = True
        self.list_set_order9 = {norm_type(k, self.extra_names()): v for k, v in (list_set_order or {}).items()}
        self.taken.update(self.list_set_order9.values())

    def buildtree9(self, name: str, module: str, label: str) -> str:
        """(ninth extension) `name` (imported from `module`: ete3's `Tree`) as the type of trees the translated code BUILDS:
        `name()` / `name(name=e)` is a new node without children (named e; `None`: no name given, ete3 then stores its default
        name), `x.add_child(y)` appends y to the children of x.  Only the names and the children (downwards) are kept: the
        translated code reads nothing else.  Returns the Coq definitions (to place inside the Section)."""
        if not self.ninth:
            self.abort(self.tree, "buildtree9 needs use_ninth")
        self.imported(name, module)
        self.opaque(name, name)
        self.buildtrees9[name] = norm_type(label, self.extra_names())
        self.taken.update({name, name + "_node", name + "_add_child", name + "_name", name + "_children"})
        lt = coq_type(self.buildtrees9[name], self.coq_base())
        return "\n".join([
            f"(* a tree built with {name}(..) and add_child: a node is its name (None: none given) and its children, in order *)",
            f"Inductive {name} : Type := {name}_node (name' : option {lt}) (children' : list {name}).",
            f"Definition {name}_add_child (t c : {name}) : {name} :=",
            f"  match t with {name}_node n cs => {name}_node n (cs ++ cons c nil) end."])

    def tuple9(self, name: str, comps: List[str]):
        """(ninth extension) `name`: a Python tuple with exactly these component types (immutable values): the Coq product."""
        if not self.ninth or len(comps) < 2:
            self.abort(self.tree, "tuple9 needs use_ninth and at least two components")
        comps = [norm_type(c, self.extra_names()) for c in comps]
        if any(c not in IMMUTABLE for c in comps):
            self.abort(self.tree, f"tuple type {name}: a component type is not immutable")
        self.tuples9[name] = comps
        self.opaque(name, "(" + " * ".join(coq_type(c, self.coq_base()) for c in comps) + ")%type")

    def local_function(self, cname: str, mname: str, spec: FunSpec) -> str:
        """(ninth extension) A function defined by a `def` statement at the top level of the body of the method `mname` of the
        translated class `cname`, translated -- before that method -- as a function of the unit.  Checked: it is defined once
        in the method and never rebound, its name is used nowhere else in the module, it is not decorated, and it mentions no
        variable of the method (every name in it is one of its own parameters / declared locals, itself, or a name the
        translation of its body resolves at module level), so that where it is defined does not matter."""
        if not self.ninth or (cname is not None and cname not in self.classes):
            self.abort(self.tree, f"local function of {cname}.{mname}: the class is not translated yet / use_ninth was not called")
        if cname is None:                      # a function defined in a module-level function
            meth = self._unique(self.tree.body, mname, ast.FunctionDef)
        else:
            cls = self._unique(self.tree.body, cname, ast.ClassDef)
            meth = self._unique(cls.body, mname, ast.FunctionDef)
        defs = [n for n in ast.walk(self.tree) if isinstance(n, (ast.FunctionDef, ast.AsyncFunctionDef, ast.ClassDef))
                and n.name == spec.name]
        stores = [n for n in ast.walk(self.tree) if isinstance(n, ast.Name) and n.id == spec.name and not isinstance(n.ctx, ast.Load)]
        if len(defs) != 1 or defs[0] not in meth.body or not isinstance(defs[0], ast.FunctionDef) or stores \
                or any(isinstance(n, (ast.Global, ast.Nonlocal)) for n in ast.walk(meth)) \
                or any(isinstance(n, ast.arg) and n.arg == spec.name for n in ast.walk(self.tree)) \
                or spec.name in self.functions or spec.name in self.taken or spec.name in RESERVED:
            self.abort(meth, f"{spec.name!r} is not defined exactly once, by a def at the top level of {cname}.{mname}, and never rebound")
        fn = defs[0]
        uses = [n for n in ast.walk(self.tree) if isinstance(n, ast.Name) and n.id == spec.name
                and not any(n is x for x in ast.walk(meth))]
        if uses or any(isinstance(n, ast.Attribute) and n.attr == spec.name for n in ast.walk(self.tree)):
            self.abort(fn, f"{spec.name!r} is mentioned outside {cname}.{mname}")
        outer = {a.arg for a in ast.walk(meth.args) if isinstance(a, ast.arg)} | {
            n.id for b in meth.body if b is not fn for n in ast.walk(b) if isinstance(n, ast.Name) and not isinstance(n.ctx, ast.Load)}
        for n in ast.walk(fn):
            if isinstance(n, ast.Name) and n.id in outer and n.id not in spec.types:
                self.abort(n, f"the local function {spec.name} mentions {n.id!r}, a variable of the method that defines it")
            if isinstance(n, (ast.FunctionDef, ast.AsyncFunctionDef, ast.Lambda, ast.ClassDef)) and n is not fn:
                self.abort(n, "definition nested in a local function")
        own = {a.arg for a in fn.args.args}
        for n in ast.walk(fn):
            if isinstance(n, ast.Name) and not isinstance(n.ctx, ast.Load) and n.id not in spec.types and n.id != "_":
                self.abort(n, f"no declared type for variable {n.id!r}")
        spec = self._norm(fn, spec)
        self.local_owner9[spec.name] = (cname, mname)
        fn2 = copy.deepcopy(fn)
        for a in fn2.args.args:
            a.annotation = None
        fun = _Fun(self.path, fn2, spec, self.prefix, unit=self)
        text = fun.translate()
        if spec.fresh:
            for n in ast.walk(fn2):
                if isinstance(n, ast.Return) and isinstance(n.value, ast.Name) and is_list(spec.types.get(n.value.id, "")) \
                        and n.value.id not in fun.params:
                    continue                   # a local list (only ever bound to newly built lists) that nothing else names
                if isinstance(n, ast.Return) and not (n.value is not None and fun.is_fresh(n.value)):
                    self.abort(n, f"{spec.name} is declared to return a newly built list, but this value is not one")
        self.method_uses_vars[spec.name] = set(fun.uses_vars)
        self.method_uses_eqb[spec.name] = fun.uses_eqb
        self.functions[spec.name] = spec
        self.params[spec.name] = [x.arg for x in fn.args.args]
        self.local_defs9.setdefault((cname, mname), set()).add(spec.name)
        return text.replace(f"(* {fn.name}, line", f"(* {fn.name} (local function of {(cname + '.') if cname else ''}{mname}), line", 1)

    def use_seventh(self):
        """Switch on the seventh extension (used by `translator/spfs_gen.py`)."""
        self.seventh = True
        self.tqdm_ok = False
        self.taken.update({"adict_mem"})

    def elemdict(self, name: str, value: str):
        """A dictionary keyed by elements (compared with the Section's `eqb`): the list of its items in insertion order."""
        if not self.containers or name in RESERVED or name in self.extra_names():
            self.abort(self.tree, f"dictionary type name {name!r} is in use (or `use_containers` was not called)")
        try:
            self.elemdicts[name] = norm_type(value, self.extra_names())
        except ValueError as e:
            self.abort(self.tree, f"unknown declared type {e.args[0]!r} for the values of {name}")
        self.taken.add(name)

    def use_product(self):
        self.imported("product", "itertools")
        self.builtins.add("product")

    # ------------------------------------------------------------ sixth extension: declarations
    def use_tables(self, section_vars=()):
        """Switch on the sixth extension (see the module docstring).  `section_vars`: the explicit variables of the Section
        other than `eqb` (in the order of its Context) whose use by each generated function is tracked, so that a file that
        imports this one knows which of them a function takes once the Section is closed."""
        self.tables = True
        self.section_vars = list(section_vars)
        self.taken.update(self.section_vars)

    def marker(self, name: str) -> str:
        """`@dataclass class <name>(<bases>)` without any attribute (a docstring only): a type with one value.  Its bases
        (classes of the module without attributes either) are recorded: `isinstance(x, C)` on a variable declared of a
        marker type is decided by the declared type."""
        cls = self._unique(self.tree.body, name, ast.ClassDef)
        self.imported("dataclass", "dataclasses")
        bases = []
        todo = [cls]
        while todo:
            c = todo.pop()
            d = c.decorator_list
            if len(d) != 1 or not (isinstance(d[0], ast.Name) and d[0].id == "dataclass") or c.keywords \
                    or any(not (isinstance(b, ast.Expr) and isinstance(b.value, ast.Constant) and isinstance(b.value.value, str))
                           for b in c.body):
                self.abort(c, f"{c.name} is not a plain '@dataclass class' whose body is a docstring")
            for b in c.bases:
                if not isinstance(b, ast.Name) or b.id == c.name:
                    self.abort(c, f"base of {c.name} other than a class of the module")
                bases.append(b.id)
                todo.append(self._unique(self.tree.body, b.id, ast.ClassDef))
        if not self.tables or name in RESERVED or name in self.extra_names():
            self.abort(cls, f"class name {name!r} is in use (or `use_tables` was not called)")
        self.markers[name] = bases
        self.taken.update({name, "mk_" + name})
        return f"(* class {name} (no attribute), line {cls.lineno} *)\nInductive {name} : Set := mk_{name}."

    def cells(self, name: str, key: str, keqb: str, entry: str, factory: str, env: str) -> str:
        """The type `name` of what a cell of a nested table holds: `None`, an object of the translated class `entry`, or a
        `defaultdict` keyed by values of the Coq type `key` (compared with `keqb`) whose factory is `lambda: <factory>(x)` --
        `factory` a function of the module translated later (`cell_helpers` comes after it), `x` a captured variable of the
        declared type `env` -- kept as the value of x and the items in insertion order.  A variable of the declared type
        `cursor` is a reference to a cell reached from the root by subscripting: the list of the keys followed."""
        if not self.tables or self.cellspec is not None or name in RESERVED or name in self.extra_names() or entry not in self.classes:
            self.abort(self.tree, f"cell type {name!r}: name in use / entry class {entry!r} not translated / `use_tables` not called")
        self.imported("defaultdict", "collections")
        try:
            env = norm_type(env, self.extra_names())
        except ValueError as e:
            self.abort(self.tree, f"unknown declared type {e.args[0]!r} for the captured variable of the factory of {name}")
        if self.kind(key)[0] != "opaque":
            self.abort(self.tree, f"the keys of {name} must be of a declared opaque type")
        self.cellspec = {"name": name, "key_type": key, "key": coq_type(key, self.coq_base()), "keqb": keqb, "entry": entry,
                         "factory": factory, "env": env}
        key = self.cellspec["key"]
        self.taken.update({name, key, keqb} | {f"{name}_{x}" for x in (
            "None", "Entry", "dict", "is_None", "set", "touch1", "at", "alter", "touch", "get", "store", "entry")})
        et = coq_type(entry, self.coq_base())
        return "\n".join([
            f"(* {name}: what a cell of the nested table holds: None, an entry, or a defaultdict -- the captured argument [env] of its",
            f"   factory [lambda: {factory}(env)] and its items in insertion order *)",
            f"Inductive {name} : Type :=",
            f"| {name}_None",
            f"| {name}_Entry (e : {et})",
            f"| {name}_dict (env : {coq_type(env, self.coq_base())}) (items : list ({key} * {name}))."])

    def cell_helpers(self) -> str:
        """The operations on cells and references (placed after the factory function, which they call)."""
        c = self.cellspec
        if c is None or c["factory"] not in self.functions:
            self.abort(self.tree, "cell helpers before the cell type is declared and its factory translated")
        n, k, q = c["name"], c["key"], c["keqb"]
        self.helpers.update({"adict_get", "adict_set"})
        self.errors.update({"TypeError", "KeyError", "AttributeError"})
        fac = self.prefix + (self.functions[c["factory"]].alias or c["factory"])
        et = coq_type(c["entry"], self.coq_base())
        return "\n".join([
            f"(* x is None *)",
            f"Definition {n}_is_None (c : {n}) : bool := match c with {n}_None => true | _ => false end.",
            f"(* d[k] = v on the dictionary d (TypeError: d is not a dictionary) *)",
            f"Definition {n}_set (k : {k}) (v : {n}) (d : {n}) : res {n} :=",
            f"  match d with {n}_dict env items => Ok ({n}_dict env (adict_set {q} items k v)) | _ => Err TypeError end.",
            f"(* what reading d[k] does to the defaultdict d: a missing key is first given the value of the factory (at the end) *)",
            f"Definition {n}_touch1 (k : {k}) (d : {n}) : res {n} :=",
            f"  match d with",
            f"  | {n}_dict env items =>",
            f"    match adict_get {q} items k with",
            f"    | Some _ => Ok d",
            f"    | None => match {fac} env with Err e => Err e | Ok v => Ok ({n}_dict env (adict_set {q} items k v)) end",
            f"    end",
            f"  | _ => Err TypeError",
            f"  end.",
            f"(* the cell a reference designates: [path] lists the keys followed from the root *)",
            f"Fixpoint {n}_at (path : list {k}) (c : {n}) {{struct path}} : res {n} :=",
            f"  match path with",
            f"  | nil => Ok c",
            f"  | cons k path' =>",
            f"    match c with",
            f"    | {n}_dict _ items => match adict_get {q} items k with Some v => {n}_at path' v | None => Err KeyError end",
            f"    | _ => Err TypeError",
            f"    end",
            f"  end.",
            f"(* the root once the cell a reference designates is replaced by [f] of it *)",
            f"Fixpoint {n}_alter (f : {n} -> res {n}) (path : list {k}) (c : {n}) {{struct path}} : res {n} :=",
            f"  match path with",
            f"  | nil => f c",
            f"  | cons k path' =>",
            f"    match c with",
            f"    | {n}_dict env items =>",
            f"      match adict_get {q} items k with",
            f"      | Some v => match {n}_alter f path' v with Err e => Err e | Ok v' => Ok ({n}_dict env (adict_set {q} items k v')) end",
            f"      | None => Err KeyError",
            f"      end",
            f"    | _ => Err TypeError",
            f"    end",
            f"  end.",
            f"(* r[k] read / r[k] = v, r a reference: the root after the read (the defaultdict may gain the key), the value read,",
            f"   the root after the store *)",
            f"Definition {n}_touch (path : list {k}) (k : {k}) (root : {n}) : res {n} := {n}_alter ({n}_touch1 k) path root.",
            f"Definition {n}_get (path : list {k}) (k : {k}) (root : {n}) : res {n} := {n}_at (path ++ cons k nil) root.",
            f"Definition {n}_store (path : list {k}) (k : {k}) (v : {n}) (root : {n}) : res {n} := {n}_alter ({n}_set k v) path root.",
            f"(* a cell where None or an entry is expected (a dictionary: the AttributeError of the method call that follows) *)",
            f"Definition {n}_entry (c : {n}) : res (option ({et})) :=",
            f"  match c with {n}_None => Ok None | {n}_Entry e => Ok (Some e) | {n}_dict _ _ => Err AttributeError end."])

    def union(self, name: str, members: List[str]) -> str:
        """A type whose values are objects of one of the translated classes `members` (what a method returning objects of
        different classes returns).  The members are views of the same class through an attribute each (`ClassSpec.views`):
        `<name>_parent` is the viewed object.  `union_methods` (after the members are translated) emits the dispatch."""
        if not self.tables or name in RESERVED or name in self.extra_names() or len(members) < 2 \
                or any(self.kind(m)[0] != "class" for m in members):
            self.abort(self.tree, f"union {name!r}: name in use, or members that are not translated classes")
        self.unions[name] = list(members)
        self.taken.update({name, name + "_parent"} | {f"{name}_{m}" for m in members})
        b = self.coq_base()
        rows = " | ".join(f"{name}_{m} (s : {coq_type(m, b)})" for m in members)
        text = [f"(* an object of one of the classes {', '.join(members)} *)", f"Inductive {name} : Type := {rows}."]
        if all(m in self.classes and len(self.classes[m].views) == 1 for m in members) \
                and len({list(self.classes[m].views.values())[0] for m in members}) == 1:
            # views of objects of one class: the object viewed
            target = list(self.classes[members[0]].views.values())[0]
            proj = " | ".join(f"{name}_{m} s => {self.classes[m].short}_{list(self.classes[m].views)[0]} s" for m in members)
            text.append(f"Definition {name}_parent (p : {name}) : {coq_type(target, b)} := match p with {proj} end.")
        return "\n".join(text)

    def union_methods(self, name: str, specs: List[FunSpec], extend: bool = False) -> str:
        """The methods of a union: `x.m(..)` on a value of the union calls the method of the class of the object; a class
        that does not have it (translated) answers AttributeError (TypeError for `x[k]` / `x[k] = v`: not subscriptable).
        `specs`: name, parameter types and result type of each method (checked against the members that have it)."""
        members = self.unions[name]
        parts = []
        if not (extend and self.seventh):
            self.done_methods[name] = []
        elif any(x.name == sp.name for x in self.done_methods.get(name, []) for sp in specs) \
                or any((m, _mkey(cm)) not in self.local_methods for sp in specs for m in members
                       for cm in self.done_methods.get(m, []) if cm.name == sp.name):
            # (seventh extension) one more method of a union imported from another generated file: the members' methods
            # are methods added in this file
            self.abort(self.tree, f"a method added to the union {name} must be new and translated in this file")
        qn = self.q(name) if extend else ""
        b = self.coq_base()
        for spec in specs:
            spec = self._norm(self.tree, spec)
            having = []
            for m in members:
                cm = next((x for x in self.done_methods.get(m, []) if x.name == spec.name), None)
                if cm is None:
                    continue
                ps = self.params[(m, _mkey(cm))] + ([self.varargs[(m, _mkey(cm))]] if (m, _mkey(cm)) in self.varargs else [])
                if ps != list(spec.types) or any(cm.types[q] != spec.types[q] for q in ps) or cm.ret != spec.ret \
                        or (having and ((m, _mkey(cm)) in self.varargs) != ((having[0][0], _mkey(having[0][1])) in self.varargs)):
                    self.abort(self.tree, f"{m}.{spec.name} does not have the parameters / result declared for {name}.{spec.name}")
                having.append((m, cm))
            if not having:
                self.abort(self.tree, f"no member of {name} has a translated method {spec.name}")
            ps = list(spec.types)
            var = self.varargs.get((having[0][0], _mkey(having[0][1])))
            uses, uses_eqb = set(), False
            rows = []
            for m in members:
                cm = next((x for mm, x in having if mm == m), None)
                if cm is None:
                    self.errors.add("TypeError" if spec.name in ("__getitem__", "__setitem__") else "AttributeError")
                    rows.append(f"  | {qn}{name}_{m} _ => Err " + ("TypeError" if spec.name in ("__getitem__", "__setitem__") else "AttributeError"))
                    continue
                uses |= self.method_uses_vars.get((m, _mkey(cm)), set())
                uses_eqb = uses_eqb or self.method_uses_eqb.get((m, _mkey(cm)), False)
                call = " ".join([self.prefix + (cm.alias or cm.name), "s"] + ps)
                rows.append(f"  | {qn}{name}_{m} s => match {call} with Err e' => Err e' | Ok (s, r') => Ok ({qn}{name}_{m} s, r') end")
            alias = spec.alias or f"{name}_{spec.name.strip('_')}"
            spec = replace(spec, alias=alias)
            self.done_methods[name].append(spec)
            self.params[(name, spec.name)] = [q for q in ps if q != var]
            if var is not None:
                self.varargs[(name, spec.name)] = var
            self.method_uses_vars[(name, spec.name)] = uses
            self.method_uses_eqb[(name, spec.name)] = uses_eqb
            if extend and self.seventh:
                self.local_methods.add((name, _mkey(spec)))
            binders = "".join(f" ({q} : {coq_type(spec.types[q], b)})" for q in ps)
            rt = coq_type(spec.ret, b)
            parts.append("\n".join([f"(* {name}: {spec.name} of the class of the object *)",
                                    f"Definition {self.prefix}{alias} (p : {coq_type(name, b) if extend else name}){binders} : res ({coq_type(name, b) if extend else name} * {rt}) :=",
                                    "  match p with"] + rows + ["  end."]))
        return "\n\n".join(parts)

    def import_unit(self, other: "Unit", alias: str, lift: str, targs: Dict[str, str], heads: Dict[object, str] = None,
                    var_terms: Dict[str, str] = None, choose: Dict[object, str] = None, rets: Dict[object, str] = None,
                    skip=()) -> str:
        """Take the declarations of `other` -- the translation unit of another generated file (module alias `alias`) -- as
        declarations of this one: its enums, dataclasses, marker classes, cell type, unions and classes with their translated
        methods.  Their names are emitted qualified; `targs[type]` gives the type arguments the type takes once the other
        file's Section is closed (`{A}`: the element type of the instance).  A call of a method of such a class is
        `lift (@alias.gen_m <type arguments of the class> <the section variables the method uses> object args)`; `heads`
        overrides the head for a method (`{A}`, `{eqb}`: element type and equality of the instance); `var_terms`: what the
        other file's tracked section variables are here.  Returns the text of `lift` (an error is the error of the same name)."""
        if not self.tables or alias in self.lifts:
            self.abort(self.tree, f"import of {alias}: `use_tables` was not called / imported twice")
        if skip:                              # (classes of the other file this one does not use)
            other = copy.copy(other)
            other.classes = {k: v for k, v in other.classes.items() if k not in skip}
            other.done_methods = {k: v for k, v in other.done_methods.items() if k not in skip}
        mine = set(other.enums) | set(other.datas) | set(other.classes) | set(other.markers) | set(other.unions) \
            | set(other.trees) | set(other.enumdicts) | set(other.mappings)
        again = {n for n in mine if n in self.quals and self.quals[n] == other.quals.get(n, alias)}   # imported before
        clash = (mine - again) & (self.extra_names() | set(self.datas) | set(self.classes))
        if clash:
            self.abort(self.tree, f"import of {alias}: the names {sorted(clash)} are declared twice")
        names = [n for n in list(other.enums) + list(other.datas) + list(other.classes) + list(other.markers)
                 + list(other.unions) + list(other.trees) + list(other.enumdicts) if n not in again]
        self.trees.update(other.trees)
        self.enumdicts.update(other.enumdicts)
        self.mappings.update(other.mappings)
        if other.cellspec:
            if self.cellspec:
                self.abort(self.tree, "two cell types")
            self.cellspec = dict(other.cellspec)
            names.append(other.cellspec["name"])
        self.enums.update(other.enums)
        self.datas.update(other.datas)
        self.data_defaults.update(other.data_defaults)
        self.classes.update(other.classes)
        self.markers.update(other.markers)
        self.unions.update(other.unions)
        for n in names:
            self.quals[n] = other.quals.get(n, alias)
            self.targs[n] = targs.get(n, other.targs.get(n, ""))
        var_terms = var_terms or {}
        if self.seventh:
            self.imported_var_terms = dict(getattr(self, "imported_var_terms", {}), **var_terms)
            if other.cellspec:
                self.cell_lift = lift
        for c, ms in other.done_methods.items():
            want = {n: a for (cc, n), a in (choose or {}).items() if cc == c}
            ms = [m for m in ms if m.name not in want or (m.alias or m.name) == want[m.name]]
            self.done_methods[c] = list(ms)
            for m in ms:
                key = (c, _mkey(m))
                if key in self.heads and c in again:
                    continue
                if rets and key in rets:
                    self.ret_override[key] = rets[key]
                self.params[key] = other.params[key]
                if key in other.varargs:
                    self.varargs[key] = other.varargs[key]
                if key in other.method_defaults:
                    self.method_defaults[key] = other.method_defaults[key]
                self.method_uses_eqb[key] = other.method_uses_eqb.get(key, False)
                if key in other.heads and key not in other.local_methods:
                    self.heads[key] = other.heads[key]
                    self.head_lift[key] = other.head_lift[key]
                    continue
                self.head_lift[key] = lift
                order = list(other.section_vars) + ["eqb"] * ("eqb" not in other.section_vars)
                used = ["{eqb}" if v == "eqb" else var_terms.get(v, v) for v in order
                        if (v == "eqb" and self.method_uses_eqb[key]) or v in other.method_uses_vars.get(key, set())]
                ta = targs.get("@" + c, self.targs.get(c, ""))      # ("@C": the type arguments of the functions, if they differ)
                self.heads[key] = (heads or {}).get(key) or "(@" + " ".join(
                    [f"{alias}.{other.prefix}{m.alias or m.name}"] + ([ta] if ta else []) + used) + ")"
        self.lifts[alias] = lift
        self.lifts.update(other.lifts)
        self.errors.update(other.errors)
        self.taken.update({lift, lift.replace("_res", "_err")})
        errs = ["IndexError", "OutOfFuel"] + [e for e in EXTRA_ERRORS if e in other.errors]
        err = lift.replace("_res", "_err") if lift.endswith("_res") else lift + "_err"
        return "\n".join(
            [f"(* the results of Gen/{alias}.v in the result type of this file: an error is the error of the same name *)",
             f"Definition {err} (e : {alias}.err) : err :=", "  match e with"]
            + [f"  | {alias}.{c} => {c}" for c in errs]
            + ["  end.",
               f"Definition {lift} {{X : Type}} (r : {alias}.res X) : res X :=",
               f"  match r with {alias}.Ok x => Ok x | {alias}.Err e => Err ({err} e) end."])

    def attrs_of(self, name: str, attrs: Dict[str, tuple]):
        """Attributes of the values of the opaque type `name` that the translated code reads: `attribute -> (declared type,
        Coq function)`; `x.attribute` is the function applied to the object."""
        if not self.tables or name not in self.opaques:
            self.abort(self.tree, f"attributes declared for {name!r}, which is not an opaque type (or `use_tables` was not called)")
        try:
            self.opaque_attrs[name] = {a: (norm_type(d[0], self.extra_names()), d[1]) for a, d in attrs.items()}
        except ValueError as e:
            self.abort(self.tree, f"unknown declared type {e.args[0]!r} for an attribute of {name}")
        self.taken.update(d[1] for d in attrs.values())

    def record_class(self, name: str, module: str, short: str, fields: Dict[str, str], methods: List[tuple]) -> str:
        """A frozen dataclass imported by `from <module> import <name>` whose objects this file builds (`name(a, b)`, every
        field positionally) and keeps as a Record of its own -- `fields`: the declared type of each field here, which may
        differ from the one another generated file uses.  `methods`: (FunSpec, Coq function) of the methods called on such an
        object, each a function the driver defines in terms of the other file (pure: `object -> res (object * result)`)."""
        self.imported(name, module)
        if not self.tables or name in RESERVED or name in self.extra_names() or name in self.classes:
            self.abort(self.tree, f"class name {name!r} is in use (or `use_tables` was not called)")
        try:
            fields = {k: norm_type(v, self.extra_names()) for k, v in fields.items()}
        except ValueError as e:
            self.abort(self.tree, f"unknown declared type {e.args[0]!r} for a field of {name}")
        specs = [self._norm(self.tree, replace(m, pure=True)) for m, _ in methods]
        self.classes[name] = ClassSpec(name, short, fields, specs, frozen=True)
        self.done_methods[name] = list(specs)
        self.records = getattr(self, "records", set()) | {name}
        for spec, (_, fn) in zip(specs, methods):
            self.params[(name, spec.name)] = [q for q in spec.types]
            self.method_uses_eqb[(name, spec.name)] = False
            self.local_heads = getattr(self, "local_heads", {})
            self.local_heads[(name, spec.name)] = fn
        self.taken.update({f"{short}_state", "mk_" + short} | {f"{short}_{f}" for f in fields})
        return (f"(* objects of the frozen dataclass {name} ({module}) *)\nRecord {short}_state : Type := mk_{short} {{ "
                + "; ".join(f"{short}_{f} : {coq_type(t, self.coq_base())}" for f, t in fields.items()) + " }.")

    def same_type(self, name: str, real: str):
        """The type name `name` (the element type of an instance: `elem2`) is another name of the declared type `real`."""
        if not self.tables:
            self.abort(self.tree, "`use_tables` was not called")
        self.type_alias[name] = real

    def coercion(self, src: str, dst: str, fmt: str):
        """Where a value of the declared type `dst` is expected and the expression has the declared type `src`, the value is
        `fmt` with `{}` replaced by the term (a node where its identity is meant, a value where a key is meant)."""
        if not self.tables:
            self.abort(self.tree, "`use_tables` was not called")
        self.coercions[(src, dst)] = fmt

    def traversal_defs(self, tree: str) -> str:
        """The three orders in which ete3's `traverse` visits the nodes of a binary tree of the declared type `tree`, each
        node being the subtree it roots: "preorder" (a node, its first subtree, its second subtree), "postorder" (the two
        subtrees, then the node) and "levelorder", the default (by increasing depth, left to right within a depth)."""
        if tree not in self.trees:
            self.abort(self.tree, f"traversals of {tree!r}, which is not a declared binary tree type")
        t, q = coq_type(tree, self.coq_base()), self.q(tree) + tree
        t = t if " " not in t else "(" + t + ")"
        self.taken.update({f"{tree}_{x}" for x in ("preorder", "postorder", "levels", "levelorder")} | {"zip_levels"})
        self.helpers.add("zip_levels")
        return "\n".join([
            f"(* the orders of ete3's traverse() on a {tree}; a node stands for the subtree it roots *)",
            f"Fixpoint {tree}_preorder (t : {t}) : list {t} :=",
            f"  match t with {q}_leaf _ => cons t nil | {q}_node _ a b => cons t ({tree}_preorder a ++ {tree}_preorder b) end.",
            f"Fixpoint {tree}_postorder (t : {t}) : list {t} :=",
            f"  match t with {q}_leaf _ => cons t nil | {q}_node _ a b => {tree}_postorder a ++ {tree}_postorder b ++ cons t nil end.",
            f"Fixpoint {tree}_levels (t : {t}) : list (list {t}) :=",
            f"  match t with {q}_leaf _ => cons (cons t nil) nil",
            f"  | {q}_node _ a b => cons (cons t nil) (zip_levels ({tree}_levels a) ({tree}_levels b)) end.",
            f"Definition {tree}_levelorder (t : {t}) : list {t} := concat ({tree}_levels t)."])

    def namedtuple(self, spec: DataSpec, eqbs: Dict[str, str]) -> str:
        """`class <name>(NamedTuple)` with exactly the declared (annotated) fields -> a Record (immutable values) and its
        equality `<name>_eqb` (Python: the tuples are equal when their components are; `eqbs`: field -> Coq equality)."""
        cls = self._unique(self.tree.body, spec.name, ast.ClassDef)
        self.imported("NamedTuple", "typing")
        if not self.tables or cls.decorator_list or cls.keywords or len(cls.bases) != 1 \
                or not (isinstance(cls.bases[0], ast.Name) and cls.bases[0].id == "NamedTuple"):
            self.abort(cls, f"{spec.name} is not a plain 'class {spec.name}(NamedTuple)'")
        names = []
        for b in cls.body:
            if isinstance(b, ast.Expr) and isinstance(b.value, ast.Constant) and isinstance(b.value.value, str):
                continue
            if not (isinstance(b, ast.AnnAssign) and isinstance(b.target, ast.Name) and b.simple and b.value is None):
                self.abort(b, f"statement of the named tuple {spec.name} other than an annotated field without default")
            names.append(b.target.id)
        try:
            fields = {k: norm_type(v, self.extra_names()) for k, v in spec.fields.items()}
        except ValueError as e:
            self.abort(cls, f"unknown declared type {e.args[0]!r} for a field of {spec.name}")
        if names != list(fields) or spec.name in RESERVED or list(eqbs) != names:
            self.abort(cls, f"the fields of {spec.name} are {names}, declared {list(fields)}")
        self.datas[spec.name] = replace(spec, fields=fields)
        self.taken.update({spec.name, "mk_" + spec.name, spec.name + "_eqb"} | {f"{spec.name}_{f}" for f in fields})
        n = spec.name
        test = " ".join(f"(andb ({eqbs[f]} ({n}_{f} a) ({n}_{f} b))" for f in names) + " true" + ")" * len(names)
        return (f"(* named tuple {n}, line {cls.lineno} *)\nRecord {n} : Type := mk_{n} {{ "
                + "; ".join(f"{n}_{f} : {coq_type(t, self.coq_base())}" for f, t in fields.items()) + " }.\n"
                + f"Definition {n}_eqb (a b : {n}) : bool := {test}.")

    def q(self, name: str) -> str:
        """Module qualifier of the Coq names that belong to the declared type `name`."""
        return self.quals[name] + "." if name in self.quals else ""

    def enum(self, name: str) -> str:
        """`class <name>(Enum)` whose members are all `<MEMBER> = auto()` -> an Inductive and its equality."""
        cls = self._unique(self.tree.body, name, ast.ClassDef)
        self.imported("Enum", "enum")
        self.imported("auto", "enum")
        if cls.decorator_list or cls.keywords or len(cls.bases) != 1 or not (isinstance(cls.bases[0], ast.Name)
                                                                             and cls.bases[0].id == "Enum"):
            self.abort(cls, f"{name} is not a plain 'class {name}(Enum)'")
        members = []
        for b in cls.body:
            if isinstance(b, ast.Expr) and isinstance(b.value, ast.Constant) and isinstance(b.value.value, str):
                continue
            if not (isinstance(b, ast.Assign) and len(b.targets) == 1 and isinstance(b.targets[0], ast.Name)
                    and isinstance(b.value, ast.Call) and isinstance(b.value.func, ast.Name) and b.value.func.id == "auto"
                    and not b.value.args and not b.value.keywords) or b.targets[0].id in members \
                    or b.targets[0].id.startswith("_"):
                self.abort(b, f"statement of the enum {name} other than '<MEMBER> = auto()'")
            members.append(b.targets[0].id)
        if not members or name in RESERVED:
            self.abort(cls, f"enum {name} has no member / a reserved name")
        self.enums[name] = members
        rows = [f"  | {name}_{m}, {name}_{m} => true" for m in members] + ["  | _, _ => false"] * (len(members) > 1)
        return "\n".join([f"(* enum {name}, line {cls.lineno} *)",
                          f"Inductive {name} : Set := " + " | ".join(f"{name}_{m}" for m in members) + ".",
                          f"Definition {name}_eqb (a b : {name}) : bool :=", "  match a, b with"] + rows + ["  end."])

    def dataclass(self, spec: DataSpec) -> str:
        """`@dataclass(frozen=True) class <name>` with the declared fields -> a Record (immutable values)."""
        cls = self._unique(self.tree.body, spec.name, ast.ClassDef)
        self.imported("dataclass", "dataclasses")
        d = cls.decorator_list
        if len(d) != 1 or not (isinstance(d[0], ast.Call) and isinstance(d[0].func, ast.Name) and d[0].func.id == "dataclass"
                               and not d[0].args and len(d[0].keywords) == 1 and d[0].keywords[0].arg == "frozen"
                               and isinstance(d[0].keywords[0].value, ast.Constant) and d[0].keywords[0].value.value is True):
            self.abort(cls, f"{spec.name} is not decorated exactly with @dataclass(frozen=True)")
        if cls.keywords or any(not (isinstance(b, ast.Subscript) and isinstance(b.value, ast.Name) and b.value.id == "Generic")
                               for b in cls.bases):
            self.abort(cls, "base class other than Generic[..]")
        names = []
        for b in cls.body:
            if isinstance(b, ast.Expr) and isinstance(b.value, ast.Constant) and isinstance(b.value.value, str):
                continue
            if not (isinstance(b, ast.AnnAssign) and isinstance(b.target, ast.Name) and b.simple
                    and (b.value is None or isinstance(b.value, ast.Constant))):
                self.abort(b, f"statement of the dataclass {spec.name} other than an annotated field")
            names.append(b.target.id)
            if isinstance(b.value, ast.Constant) and b.value.value is None:
                self.data_defaults.setdefault(spec.name, {})[b.target.id] = "None"
        try:
            fields = {k: norm_type(v, self.extra_names()) for k, v in spec.fields.items()}
        except ValueError as e:
            self.abort(cls, f"unknown declared type {e.args[0]!r} for a field of {spec.name}")
        if names != list(fields) or spec.name in RESERVED:
            self.abort(cls, f"the fields of {spec.name} are {names}, declared {list(fields)}")
        self.datas[spec.name] = replace(spec, fields=fields)
        return (f"(* dataclass {spec.name}, line {cls.lineno} *)\nRecord {spec.name} : Type := mk_{spec.name} {{ "
                + "; ".join(f"{spec.name}_{f} : {coq_type(t, self.coq_base())}" for f, t in fields.items()) + " }.")

    def begin_outside(self, insts: Dict[str, tuple]):
        """What follows is translated after the Section was closed: the classes and dataclasses take the
        element type as an argument; `insts`: type-name suffix -> (Coq element type, its equality or None)."""
        self.outside, self.insts = True, dict(insts)

    def abort(self, node, msg):
        raise TranslatorAbort(f"{self.path}:{getattr(node, 'lineno', 0)}: {msg}")

    def _norm(self, node, spec: FunSpec, extra: Dict[str, str] = None) -> FunSpec:
        try:
            types = {k: norm_type(v, self.extra_names()) for k, v in spec.types.items()}
            ret = norm_type(spec.ret, self.extra_names()) if spec.ret else ""
            for v in (extra or {}).values():
                norm_type(v, self.extra_names())
        except ValueError as e:
            self.abort(node, f"unknown declared type {e.args[0]!r} for {spec.name}")
        return replace(spec, types=types, ret=ret)

    def _unique(self, body, name, kind):
        """The one definition of `name` among the statements `body`, which nothing rebinds."""
        scope = ast.Module(body=body, type_ignores=[])
        defs = [n for n in ast.walk(scope) if isinstance(n, (ast.FunctionDef, ast.AsyncFunctionDef, ast.ClassDef))
                and n.name == name]
        stores = [n for n in ast.walk(self.tree) if isinstance(n.__dict__.get("ctx"), (ast.Store, ast.Del))
                  and (isinstance(n, ast.Name) and n.id == name or isinstance(n, ast.Attribute) and n.attr == name
                       and not (isinstance(n.value, ast.Name) and n.value.id == "self"))]
        if body is not self.tree.body and self.extended:
            # a method: typing stubs (`@overload def m(..): <docstring>`) placed before the definition are replaced
            # by it when the class body runs; a variable of another function cannot rebind the method
            stubs = [d for d in defs if isinstance(d, ast.FunctionDef) and d in body and len(d.decorator_list) == 1
                     and isinstance(d.decorator_list[0], ast.Name) and d.decorator_list[0].id == "overload"
                     and all(isinstance(b, ast.Pass) or isinstance(b, ast.Expr) and isinstance(b.value, ast.Constant)
                             for b in d.body)]
            real = [d for d in defs if d not in stubs]
            if stubs and len(real) == 1 and real[0] in body and all(body.index(d) < body.index(real[0]) for d in stubs):
                self.imported("overload", "typing")
                defs = real
            direct = {id(x) for b in body if not isinstance(b, (ast.FunctionDef, ast.AsyncFunctionDef, ast.ClassDef))
                      for x in ast.walk(b)}      # a name is (re)bound in the class only by its own statements
            stores = [n for n in stores if not isinstance(n, ast.Name) or id(n) in direct]
        if len(defs) != 1 or not isinstance(defs[0], kind) or defs[0] not in body or stores:
            where = (defs + stores + [self.tree])[0]
            self.abort(where, f"{name!r} is not defined exactly once, at the expected level, as a definition that is never rebound")
        return defs[0]

    def function(self, spec: FunSpec) -> str:
        fn = self._unique(self.tree.body, spec.name, ast.FunctionDef)
        spec = self._norm(fn, spec)
        fn2 = copy.deepcopy(fn)
        if self.seventh and self.kwparams:
            kw = dict(self.kwparams)
            kw.update({n: list(d.fields) for n, d in self.datas.items() if n not in kw})
            # a frozen dataclass kept as a Record of this file (`record_class`): the fields in the declared order
            kw.update({n: list(self.classes[n].fields) for n in getattr(self, "records", ()) if n not in kw})
            fn2 = _KwNormalizer(kw, set(spec.types)).visit(fn2)
        fun = _Fun(self.path, fn2, spec, self.prefix, unit=self)
        text = fun.translate()
        if self.tables:
            self.method_uses_vars[spec.name] = set(fun.uses_vars)
            self.method_uses_eqb[spec.name] = fun.uses_eqb
        self.functions[spec.name] = spec
        self.params[spec.name] = [x.arg for x in fn.args.args]
        if spec.mutates:
            self.mutates[spec.name] = tuple(spec.mutates)
        if fun.fun_defaults:
            self.fun_defaults[spec.name] = fun.fun_defaults
        return text

    def klass(self, cspec: ClassSpec) -> str:
        cls = self._unique(self.tree.body, cspec.name, ast.ClassDef)
        if cspec.frozen:
            return self._frozen(cls, cspec)
        if cls.decorator_list or cls.keywords:
            self.abort(cls, "decorated class / class with keywords (metaclass)")
        for b in cls.bases:
            if not (isinstance(b, ast.Name) and b.id == "object" or isinstance(b, ast.Subscript)
                    and isinstance(b.value, ast.Name) and b.value.id == "Generic"):
                self.abort(b, "base class other than object / Generic[..] (it could change what attribute access means)")
        for i, b in enumerate(cls.body):
            doc = isinstance(b, ast.Expr) and isinstance(b.value, ast.Constant) and isinstance(b.value.value, str)
            if self.extended and isinstance(b, ast.Assign) and len(b.targets) == 1 and isinstance(b.targets[0], ast.Attribute) \
                    and b.targets[0].attr == "__doc__" and isinstance(b.targets[0].value, ast.Name) \
                    and any(isinstance(d, ast.FunctionDef) and d.name == b.targets[0].value.id for d in cls.body[:i]) \
                    and all(isinstance(x, (ast.Attribute, ast.Name, ast.Load)) for x in ast.walk(b.value)):
                continue                      # <method>.__doc__ = <a dotted name>: only sets a docstring
            if not (isinstance(b, (ast.FunctionDef, ast.Pass)) or doc):
                self.abort(b, "class body statement other than a method definition")
            if isinstance(b, ast.FunctionDef) and (b.name in FORBIDDEN_METHODS or b.name in cspec.fields):
                self.abort(b, f"the class defines {b.name!r}, which changes what attribute access means")
        try:
            fields = {k: norm_type(v, self.extra_names()) for k, v in cspec.fields.items()}
        except ValueError as e:
            self.abort(cls, f"unknown declared type {e.args[0]!r} for an attribute of {cspec.name}")
        for f in fields:
            if f in RESERVED or not f.isascii() or not f.isidentifier():
                self.abort(cls, f"attribute name {f!r} collides with the generated Coq text")
        if self.extended:                      # the class itself is a declared type of the unit
            self.classes[cspec.name] = replace(cspec, fields=fields, methods=[])
        cspec = replace(cspec, fields=fields, methods=[self._norm(cls, m) for m in cspec.methods])
        if self.extended:
            self.classes[cspec.name] = cspec
        st = f"{cspec.short}_state"
        parts = [f"(* class {cspec.name}, line {cls.lineno} *)\nRecord {st} : Type := mk_{cspec.short} {{ "
                 + "; ".join(f"{cspec.short}_{f} : {coq_type(t, self.coq_base())}" for f, t in fields.items()) + " }."]
        self.done_methods[cspec.name] = []
        for m in cspec.methods:
            parts.append(self._method(cls, cspec, m))
        return "\n\n".join(parts)

    def _frozen(self, cls: ast.ClassDef, cspec: ClassSpec) -> str:
        """`@dataclass(frozen=True[, repr=False]) class <name>[(<base>)]` with methods: the fields are the annotated
        attributes (those of the base class first), no method can assign one (every method is `pure`), the methods
        of the base class are inherited (`FunSpec.owner`) -- translated again, for the fields of this class."""
        self.imported("dataclass", "dataclasses")
        if not self.extended:
            self.abort(cls, "frozen classes need an extended unit")
        d = cls.decorator_list
        kws = {k.arg: k.value for k in d[0].keywords} if len(d) == 1 and isinstance(d[0], ast.Call) else None
        if kws is None or not (isinstance(d[0].func, ast.Name) and d[0].func.id == "dataclass" and not d[0].args) \
                or set(kws) - {"frozen", "repr"} or "frozen" not in kws \
                or not (isinstance(kws["frozen"], ast.Constant) and kws["frozen"].value is True) \
                or any(not isinstance(v, ast.Constant) for v in kws.values()):
            self.abort(cls, f"{cspec.name} is not decorated exactly with @dataclass(frozen=True[, repr=..])")
        base = None
        if cspec.base is not None:
            base = self.classes.get(cspec.base)
            if base is None or not base.frozen:
                self.abort(cls, f"base class {cspec.base} is not a frozen class translated before")
        if cls.keywords or [b.id if isinstance(b, ast.Name) else None for b in cls.bases] != [cspec.base] * (base is not None):
            self.abort(cls, f"the bases of {cspec.name} are not exactly the declared one")
        own = []
        for b in cls.body:
            if isinstance(b, ast.Expr) and isinstance(b.value, ast.Constant) and isinstance(b.value.value, str):
                continue
            if isinstance(b, ast.FunctionDef):
                if b.name in FORBIDDEN_METHODS or b.name in cspec.fields or b.name in ("__post_init__", "__init__", "__new__"):
                    self.abort(b, f"the class defines {b.name!r}, which changes what attribute access / construction means")
                continue
            dflt = isinstance(b, ast.AnnAssign) and (b.value is None or isinstance(b.value, ast.Constant) or (
                isinstance(b.value, ast.Call) and isinstance(b.value.func, ast.Name) and b.value.func.id == "field"
                and not b.value.args and [k.arg for k in b.value.keywords] == ["default_factory"]
                and isinstance(b.value.keywords[0].value, ast.Name)))
            if not (dflt and isinstance(b.target, ast.Name) and b.simple) or b.target.id in own:
                self.abort(b, f"statement of the frozen class {cspec.name} other than an annotated field or a method")
            if isinstance(b.value, ast.Call):
                self.imported("field", "dataclasses")
            own.append(b.target.id)
        names = list(base.fields) if base is not None else []
        names += [n for n in own if n not in names]
        try:
            fields = {k: norm_type(v, self.extra_names() | {cspec.name}) for k, v in cspec.fields.items()}
        except ValueError as e:
            self.abort(cls, f"unknown declared type {e.args[0]!r} for an attribute of {cspec.name}")
        if names != list(fields) or cspec.name in RESERVED:
            self.abort(cls, f"the fields of {cspec.name} are {names}, declared {list(fields)}")
        for f in fields:
            if f in RESERVED or not f.isascii() or not f.isidentifier():
                self.abort(cls, f"attribute name {f!r} collides with the generated Coq text")
        for m in cspec.methods:
            if not m.pure or m.name == "__init__":
                self.abort(cls, f"{cspec.name}.{m.name}: every translated method of a frozen class is declared pure")
        self.classes[cspec.name] = replace(cspec, fields=fields, methods=[])
        cspec = replace(cspec, fields=fields, methods=[self._norm(cls, m) for m in cspec.methods])
        self.classes[cspec.name] = cspec
        st = f"{cspec.short}_state"
        self.taken.update({st, "mk_" + cspec.short} | {f"{cspec.short}_{f}" for f in fields})
        parts = [f"(* frozen dataclass {cspec.name}, line {cls.lineno} *)\nRecord {st} : Type := mk_{cspec.short} {{ "
                 + "; ".join(f"{cspec.short}_{f} : {coq_type(t, self.coq_base())}" for f, t in fields.items()) + " }."]
        self.done_methods[cspec.name] = []
        for m in cspec.methods:
            parts.append(self._method(cls, cspec, m))
        return "\n\n".join(parts)

    def _method(self, cls: ast.ClassDef, cspec: ClassSpec, m: FunSpec) -> str:
        body = cls.body
        if m.owner is not None:
            # an inherited method: defined by the declared base class; the class itself may define the name again
            # (the inherited definition is then what `super().<name>(..)` reaches)
            if not cspec.frozen or m.owner != cspec.base:
                self.abort(cls, f"{cspec.name}.{m.name}: the owner of an inherited method must be the declared base of a frozen class")
            body = self._unique(self.tree.body, m.owner, ast.ClassDef).body
            if m.alias is None or any(o is not m and (o.alias or o.name) == m.alias for o in cspec.methods):
                self.abort(cls, f"{cspec.name}.{m.name}: an inherited method needs a name of its own (alias)")
        key = _mkey(m)
        fn = self._unique(body, m.name, ast.FunctionDef)
        self.params[(cspec.name, key)] = [x.arg for x in fn.args.args][1:]
        if self.extended:
            self.params[(cspec.name, key)] = [p for p in self.params[(cspec.name, key)] if m.types.get(p) != "none"]
            if fn.args.vararg:
                self.varargs[(cspec.name, key)] = fn.args.vararg.arg
        fun = _Fun(self.path, copy.deepcopy(fn), m, self.prefix, unit=self, cls=cspec)
        text = fun.translate()
        if self.tables:
            self.method_uses_vars[(cspec.name, key)] = set(fun.uses_vars)
            if fun.enum_defaults:
                self.method_defaults[(cspec.name, key)] = dict(fun.enum_defaults)
            if cspec.name in self.quals:
                self.local_methods.add((cspec.name, key))
        if m.owner is not None:
            text = text.replace(f"(* {cspec.name}.{fn.name}, line", f"(* {cspec.name}.{fn.name} inherited from {m.owner}, line", 1)
        self.method_uses_eqb[(cspec.name, key)] = fun.uses_eqb
        self.done_methods[cspec.name].append(m)
        return text

    def method(self, cname: str, m: FunSpec, other: "Unit" = None) -> str:
        """One more method of the class `cname` translated earlier (used after `begin_outside`).  `other` (seventh extension):
        the unit -- imported with `import_unit` -- whose source file holds the class."""
        cspec = self.classes.get(cname)
        if cspec is None:
            self.abort(self.tree, f"class {cname} is not translated yet")
        if other is not None and not (self.seventh and cname in self.quals and cname in other.classes):
            self.abort(self.tree, f"class {cname} is not a class imported from the given unit")
        cls = self._unique((other or self).tree.body, cname, ast.ClassDef)
        m = self._norm(cls, m)
        self.classes[cname] = cspec = replace(cspec, methods=cspec.methods + [m])
        return self._method(cls, cspec, m)

    def prelude(self) -> str:
        """Error/result types (with the error constructors used) and the helper functions used."""
        extra = [e for e in EXTRA_ERRORS if e in self.errors]
        text = PRELUDE.replace("IndexError | OutOfFuel.", " | ".join(["IndexError", "OutOfFuel"] + extra) + ".")
        need = set()
        for hname in self.helpers:
            need.add(hname)
            need.update(HELPER_DEPS.get(hname, []))
        return text + "".join("\n" + HELPERS[k] + "\n" for k in HELPERS if k in need)

    def nodedict(self, name: str, tree: str, value: str, eqb: str):
        """A local dictionary keyed by the nodes of the tree type `tree` (created by a display `{node: e}`, read with
        `d[node]` -- KeyError when absent --, updated with `d[node] = e`): the list of its stores, newest first, keyed
        by node identifiers compared with the Coq function `eqb`."""
        if (tree not in self.trees and tree not in self.ntrees) or name in RESERVED or name in self.extra_names():
            self.abort(self.tree, f"dictionary type {name!r}: unknown tree type {tree!r} / name in use")
        try:
            self.nodedicts[name] = (tree, norm_type(value, self.extra_names()), eqb)
        except ValueError as e:
            self.abort(self.tree, f"unknown declared type {e.args[0]!r} for the values of {name}")
        self.taken.add(eqb)

    def section_defs(self) -> str:
        """Definitions to place inside the Section, after its Context (they use `ltb`)."""
        return (PY_MIN + "\n" if "py_min" in self.helpers else "") + (SET_DEFS if "set_add" in self.helpers else "") \
            + (SET_DEFS2 if "set_of_list" in self.helpers else "") \
            + "".join(v for k, v in SEQ_DEFS.items() if k in self.helpers)
