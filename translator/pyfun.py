"""Fail-closed translator from a small imperative Python subset to Gallina (state passing).

Handled (everything else raises `TranslatorAbort` with file:line):

* a module-level, undecorated `def` with plain positional parameters, ending in `return e`;
* statements: `x = e`, `x op= e` (`|= &= += -= <<= >>=`), `xs.append(e)`, `if/elif/else`,
  `for x in range(e)`, `for i, v in enumerate(xs)`, `while e`, `break`, `return e`, `pass`;
* expressions: int/bool literals, `-literal`, names, `<< >> & | + -`, one comparison
  `== != < <= > >=`, `not/and/or`, `len(xs)`, `e.bit_length()`, `xs[i]`, truthiness of ints.

Every variable has a type declared by the caller (`FunSpec.types`): `N` (int known to be
>= 0), `Z` (int), `bool`, `elem` (sequence element, compared with the section's `eqb`),
`list` (sequence of elements).  Nothing is guessed: an undeclared name aborts, `-` is only
done in `Z`, a `Z` value never flows into an `N` variable, shift counts and indexes are `N`.

Shape of the output.  Python variables keep their names; an assignment is a shadowing `let`.
The statements after an `if` become a local continuation `k'n` over the variables the
branches assign.  Each loop becomes its own `Fixpoint` returning
`flow S R = Next s | Ret r | Fail e` (`s` = the variables assigned in the body, `Ret` = a
`return` inside the loop, `Fail` = IndexError / OutOfFuel); the body calls the Fixpoint in tail
position, `break` is `Next s`.  `for` recurses on the iterated list / on a `nat` count fixed at
loop entry, `while` on explicit fuel (term supplied by the caller; `Fail OutOfFuel` when it runs
out while the condition still holds).  `xs[i]` is `nth_error`, `None` -> `IndexError`.  A variable
first assigned inside a branch or loop body is local to it (reading it afterwards aborts).
The function itself returns `res R = Ok r | Err e`.
"""
from __future__ import annotations

import ast
from dataclasses import dataclass, field, replace
from pathlib import Path
from typing import Callable, Dict, List, Optional

try:
    from harness.core import TranslatorAbort
except ImportError:  # stand-alone use
    class TranslatorAbort(RuntimeError):
        pass

PRELUDE = """\
Inductive err : Set := IndexError | OutOfFuel.
Inductive res (R : Type) : Type := Ok (r : R) | Err (e : err).
Inductive flow (S R : Type) : Type := Next (s : S) | Ret (r : R) | Fail (e : err).
Arguments Ok {R} r.  Arguments Err {R} e.
Arguments Next {S R} s.  Arguments Ret {S R} r.  Arguments Fail {S R} e.
"""
COQ_TYPE = {"N": "N", "Z": "Z", "bool": "bool", "elem": "A", "list": "list A"}
RESERVED = set("""A N Z S O nat bool list unit tt true false nil cons app length nth_error negb andb orb eqb
    Next Ret Fail Ok Err IndexError OutOfFuel res flow err Some None fun let in match with end if then else fix cofix
    forall exists Type Prop Set struct as at return using where mod IF _""".split())
BINOPS = {ast.Add: "add", ast.Sub: "sub", ast.BitAnd: "land", ast.BitOr: "lor",
          ast.LShift: "shiftl", ast.RShift: "shiftr"}
CMPOPS = {ast.Eq: ("eqb", False, False), ast.NotEq: ("eqb", False, True), ast.Lt: ("ltb", False, False),
          ast.LtE: ("leb", False, False), ast.Gt: ("ltb", True, False), ast.GtE: ("leb", True, False)}  # (fn, swap, negate)


@dataclass
class FunSpec:
    name: str
    types: Dict[str, str]                 # every parameter, local and loop variable -> N|Z|bool|elem|list
    ret: str                              # type of the returned value
    fuel: Dict[int, str] = field(default_factory=dict)  # n-th loop of the function (from 1) -> Coq `nat` term


@dataclass
class _Ctx:
    ret: Callable[[str], str]             # what `return e` becomes
    fail: Callable[[str], str]            # what an error becomes
    fall: Optional[str]                   # what reaching the end of the block becomes
    brk: Optional[str] = None             # what `break` becomes


def _ind(lines: List[str]) -> List[str]:
    return ["  " + l for l in lines]


def _assigned(stmts) -> set:
    out = set()
    for s in stmts:
        for n in ast.walk(s):
            if isinstance(n, ast.Name) and isinstance(n.ctx, ast.Store):
                out.add(n.id)
            elif isinstance(n, ast.Call) and isinstance(n.func, ast.Attribute) and n.func.attr == "append" \
                    and isinstance(n.func.value, ast.Name):
                out.add(n.func.value.id)
    return out


def _names(nodes) -> set:
    return {n.id for s in nodes for n in ast.walk(s) if isinstance(n, ast.Name)}


class _Fun:
    def __init__(self, path: Path, fn: ast.FunctionDef, spec: FunSpec, prefix: str):
        self.path, self.fn, self.spec, self.prefix = path, fn, spec, prefix
        self.fixpoints: List[str] = []
        self.nloop = self.nk = self.nt = 0
        self.R = COQ_TYPE[spec.ret]

    def abort(self, node, msg: str):
        raise TranslatorAbort(f"{self.path}:{getattr(node, 'lineno', 0)}: in {self.fn.name}: {msg}")

    def ty(self, node, name: str) -> str:
        if name in RESERVED or "'" in name or not name.isascii():
            self.abort(node, f"the name {name!r} collides with a name used by the generated Coq text")
        if name not in self.spec.types:
            self.abort(node, f"no declared type for variable {name!r}")
        return self.spec.types[name]

    def binder(self, node, name: str) -> str:
        return f"({name} : {COQ_TYPE[self.ty(node, name)]})"

    # ---------------------------------------------------------------- expressions
    def join(self, node, a: str, b: str) -> str:
        if a not in ("N", "Z", "lit") or b not in ("N", "Z", "lit"):
            self.abort(node, f"integer operator applied to operands of type {a} and {b}")
        return "Z" if "Z" in (a, b) else "N" if "N" in (a, b) else "lit"

    def ntype(self, e, env) -> str:
        """Natural type of an expression: N, Z, bool, elem, list, or lit (int literal: adapts)."""
        if isinstance(e, ast.Constant):
            if isinstance(e.value, bool):
                return "bool"
            if isinstance(e.value, int):
                return "lit"
        elif isinstance(e, ast.Name) and isinstance(e.ctx, ast.Load):
            t = self.ty(e, e.id)
            if e.id not in env:
                self.abort(e, f"variable {e.id!r} is not definitely assigned here (or is a loop variable read after its loop)")
            return t
        elif isinstance(e, ast.UnaryOp) and isinstance(e.op, ast.Not):
            return "bool"
        elif isinstance(e, ast.UnaryOp) and isinstance(e.op, ast.USub) and isinstance(e.operand, ast.Constant) \
                and type(e.operand.value) is int:
            return "Z"
        elif isinstance(e, ast.BinOp) and type(e.op) in BINOPS:
            if isinstance(e.op, (ast.LShift, ast.RShift)):
                return self.join(e, self.ntype(e.left, env), "lit")
            t = self.join(e, self.ntype(e.left, env), self.ntype(e.right, env))
            return "Z" if isinstance(e.op, ast.Sub) else t
        elif isinstance(e, (ast.Compare, ast.BoolOp)):
            return "bool"
        elif isinstance(e, ast.Call):
            return "N"          # only len(...) and .bit_length() get through raw()
        elif isinstance(e, ast.Subscript):
            return "elem"
        elif isinstance(e, ast.List) and not e.elts:
            return "list"
        self.abort(e, f"expression outside the handled subset: {ast.dump(e)[:80]}")

    def expr(self, e, want: str, env, hoist) -> str:
        """Coq term of type `want` for `e`; index expressions are appended to `hoist`."""
        t = self.ntype(e, env)
        if want == "bool" and t in ("N", "Z", "lit"):        # truthiness of an int
            t = "Z" if t == "lit" else t
            return f"(negb ({t}.eqb {self.raw(e, t, env, hoist)} 0%{t}))"
        if t == "lit":
            if want not in ("N", "Z"):
                self.abort(e, f"integer literal where a value of type {want} is expected")
            t = want
        if t == "N" and want == "Z":
            return f"(Z.of_N {self.raw(e, 'N', env, hoist)})"
        if t != want:
            self.abort(e, f"expression of type {t} where type {want} is expected")
        return self.raw(e, t, env, hoist)

    def raw(self, e, t: str, env, hoist) -> str:
        if isinstance(e, ast.Constant):
            if t == "bool":
                return "true" if e.value else "false"
            if e.value < 0 or t not in ("N", "Z"):
                self.abort(e, "literal outside the handled subset")
            return f"{e.value}%{t}"
        if isinstance(e, ast.Name):
            return e.id
        if isinstance(e, ast.UnaryOp) and isinstance(e.op, ast.USub):
            return f"(-{e.operand.value})%Z"
        if isinstance(e, ast.UnaryOp):
            return f"(negb {self.expr(e.operand, 'bool', env, hoist)})"
        if isinstance(e, ast.BinOp):
            op = BINOPS[type(e.op)]
            if op == "sub" and t != "Z":
                self.abort(e, "subtraction is only translated in Z (an N result could be negative in Python)")
            if op in ("shiftl", "shiftr"):
                cnt = self.expr(e.right, "N", env, hoist)
                return f"({t}.{op} {self.expr(e.left, t, env, hoist)} {cnt if t == 'N' else '(Z.of_N ' + cnt + ')'})"
            return f"({t}.{op} {self.expr(e.left, t, env, hoist)} {self.expr(e.right, t, env, hoist)})"
        if isinstance(e, ast.Compare):
            if len(e.ops) != 1 or type(e.ops[0]) not in CMPOPS:
                self.abort(e, "only a single comparison == != < <= > >= is handled")
            fn, swap, neg = CMPOPS[type(e.ops[0])]
            lt, rt = self.ntype(e.left, env), self.ntype(e.comparators[0], env)
            if lt == rt == "elem" and fn == "eqb":
                a, b, f = self.expr(e.left, "elem", env, hoist), self.expr(e.comparators[0], "elem", env, hoist), "eqb"
            else:
                ct = self.join(e, lt, rt)
                ct = "Z" if ct == "lit" else ct
                a, b, f = self.expr(e.left, ct, env, hoist), self.expr(e.comparators[0], ct, env, hoist), f"{ct}.{fn}"
            a, b = (b, a) if swap else (a, b)
            return f"(negb ({f} {a} {b}))" if neg else f"({f} {a} {b})"
        if isinstance(e, ast.BoolOp):
            parts = []
            for i, v in enumerate(e.values):
                sub: list = []
                parts.append(self.expr(v, "bool", env, sub))
                if sub and i > 0:
                    self.abort(v, "indexing in a short-circuited operand of and/or")
                hoist.extend(sub)
            f = "andb" if isinstance(e.op, ast.And) else "orb"
            out = parts[-1]
            for p in reversed(parts[:-1]):
                out = f"({f} {p} {out})"
            return out
        if isinstance(e, ast.Call) and not e.keywords:
            if isinstance(e.func, ast.Name) and e.func.id == "len" and len(e.args) == 1 \
                    and isinstance(e.args[0], ast.Name) and self.ntype(e.args[0], env) == "list":
                return f"(N.of_nat (length {e.args[0].id}))"
            if isinstance(e.func, ast.Attribute) and e.func.attr == "bit_length" and not e.args:
                if self.ntype(e.func.value, env) != "N":
                    self.abort(e, "bit_length() is only translated for values declared N")
                return f"(N.size {self.raw(e.func.value, 'N', env, hoist)})"
            self.abort(e, "call outside the handled subset (len(xs), e.bit_length())")
        if isinstance(e, ast.Subscript):
            if not isinstance(e.value, ast.Name) or self.ntype(e.value, env) != "list" or isinstance(e.slice, ast.Slice):
                self.abort(e, "only xs[i] with xs a declared sequence variable is handled")
            if self.ntype(e.slice, env) not in ("N", "lit"):
                self.abort(e, "index must be of declared type N (a negative index counts from the end in Python)")
            self.nt += 1
            hoist.append((f"t'{self.nt}", e.value.id, self.expr(e.slice, "N", env, [])))
            if any(isinstance(n, ast.Subscript) for n in ast.walk(e.slice)):
                self.abort(e, "nested indexing")
            return f"t'{self.nt}"
        if isinstance(e, ast.List):
            return "(@nil A)"
        self.abort(e, "expression outside the handled subset")

    def hoisted(self, hoist, lines: List[str], ctx: _Ctx) -> List[str]:
        for tmp, seq, idx in reversed(hoist):
            lines = [f"match nth_error {seq} (N.to_nat {idx}) with", f"| None => {ctx.fail('IndexError')}",
                     f"| Some {tmp} =>"] + _ind(lines) + ["end"]
        return lines

    # ---------------------------------------------------------------- statements
    def block(self, stmts, env: List[str], ctx: _Ctx) -> List[str]:
        if not stmts:
            if ctx.fall is None:
                self.abort(self.fn, "the function can reach its end without a return")
            return [ctx.fall]
        s, rest = stmts[0], stmts[1:]
        h: list = []
        if isinstance(s, (ast.Return, ast.Break)) and rest:
            self.abort(rest[0], "statement after return/break")
        if isinstance(s, ast.Return):
            if s.value is None:
                self.abort(s, "return without a value")
            return self.hoisted(h, [ctx.ret(self.expr(s.value, self.spec.ret, env, h))], ctx)
        if isinstance(s, ast.Break):
            if ctx.brk is None:
                self.abort(s, "break outside a loop")
            return [ctx.brk]
        if isinstance(s, ast.Pass) or (isinstance(s, ast.Expr) and isinstance(s.value, ast.Constant)
                                       and isinstance(s.value.value, str) and s is self.fn.body[0]):
            return self.block(rest, env, ctx)
        if isinstance(s, ast.Expr):
            c = s.value
            if not (isinstance(c, ast.Call) and isinstance(c.func, ast.Attribute) and c.func.attr == "append"
                    and isinstance(c.func.value, ast.Name) and len(c.args) == 1 and not c.keywords):
                self.abort(s, "expression statement outside the handled subset (xs.append(e))")
            x = c.func.value.id
            if self.ntype(c.func.value, env) != "list" or x in self.params:
                self.abort(s, "append is only handled on a local sequence variable (a parameter would be mutated for the caller)")
            term = f"({x} ++ cons {self.expr(c.args[0], 'elem', env, h)} nil)"
            return self.hoisted(h, [f"let {x} := {term} in"] + self.block(rest, env, ctx), ctx)
        if isinstance(s, ast.Assign):
            if len(s.targets) != 1 or not isinstance(s.targets[0], ast.Name):
                self.abort(s, "only 'name = expression' assignments are handled")
            x = s.targets[0].id
            if self.ty(s, x) == "list" and not isinstance(s.value, ast.List):
                self.abort(s, "a sequence variable may only be assigned [] (anything else could alias another list)")
            term = self.expr(s.value, self.ty(s, x), env, h)
            return self.hoisted(h, [f"let {x} := {term} in"] + self.block(rest, env + [x] * (x not in env), ctx), ctx)
        if isinstance(s, ast.AugAssign):
            if not isinstance(s.target, ast.Name) or type(s.op) not in BINOPS:
                self.abort(s, "augmented assignment outside the handled subset")
            x = s.target.id
            load = ast.copy_location(ast.Name(id=x, ctx=ast.Load()), s)
            term = self.expr(ast.copy_location(ast.BinOp(left=load, op=s.op, right=s.value), s), self.ty(s, x), env, h)
            return self.hoisted(h, [f"let {x} := {term} in"] + self.block(rest, env, ctx), ctx)
        if isinstance(s, ast.If):
            inner, lines = ctx, []
            if rest:
                mod = [v for v in env if v in _assigned(s.body + s.orelse)]
                self.nk += 1
                k = f"k'{self.nk}"
                lines = [f"let {k} := fun {' '.join(self.binder(s, v) for v in mod) or '(_ : unit)'} =>"] \
                    + _ind(self.block(rest, env, ctx)) + ["in"]
                inner = replace(ctx, fall=f"{k} {' '.join(mod) or 'tt'}")
            test = self.expr(s.test, "bool", env, h)
            return lines + self.hoisted(h, [f"if {test} then ("] + _ind(self.block(s.body, env, inner)) + [") else ("]
                                        + _ind(self.block(s.orelse, env, inner)) + [")"], ctx)
        if isinstance(s, (ast.For, ast.While)):
            if s.orelse:
                self.abort(s, "loop with an else clause")
            call, state = self.loop(s, env, h)
            pat = "_" if not state else state[0] if len(state) == 1 else "(" + ", ".join(state) + ")"
            return self.hoisted(h, [f"match {call} with", f"| Next {pat} =>"] + _ind(self.block(rest, env, ctx))
                                + ["| Ret r' => " + ctx.ret("r'"), "| Fail e' => " + ctx.fail("e'"), "end"], ctx)
        self.abort(s, f"statement outside the handled subset: {type(s).__name__}")

    def loop(self, s, env: List[str], h: list):
        """Emit the Fixpoint of loop `s`; return (call term at loop entry, state variables)."""
        self.nloop += 1
        n = self.nloop
        targets: List[str] = []
        if isinstance(s, ast.For):
            it = s.iter
            if not (isinstance(it, ast.Call) and isinstance(it.func, ast.Name) and len(it.args) == 1 and not it.keywords):
                self.abort(s, "for loop outside the handled subset (range(e), enumerate(xs))")
            if it.func.id == "range" and isinstance(s.target, ast.Name):
                kind, targets = "range", [s.target.id] * (s.target.id != "_")
            elif it.func.id == "enumerate" and isinstance(s.target, ast.Tuple) and len(s.target.elts) == 2 \
                    and all(isinstance(x, ast.Name) for x in s.target.elts) and isinstance(it.args[0], ast.Name):
                kind, targets = "enum", [x.id for x in s.target.elts]
            else:
                self.abort(s, "for loop outside the handled subset (range(e), enumerate(xs))")
        else:
            kind = "while"
        mutated = _assigned(s.body)
        for x in targets:
            if x in env or x in mutated or len(set(targets)) != len(targets):
                self.abort(s, f"loop variable {x!r} is also assigned elsewhere")
        state = [v for v in env if v in mutated]
        used = _names(s.body + ([s.test] if kind == "while" else []))
        ro = [v for v in env if v not in state and v in used]
        name = f"{self.prefix}{self.fn.name}_{'while' if kind == 'while' else 'for'}{n}"
        tup = "tt" if not state else state[0] if len(state) == 1 else "(" + ", ".join(state) + ")"
        sty = " * ".join(COQ_TYPE[self.ty(s, v)] for v in state) or "unit"
        ctx = _Ctx(ret=lambda e: f"Ret {e}", fail=lambda e: f"Fail {e}", fall=None, brk=f"Next {tup}")
        args = lambda mid: " ".join([name] + ro + mid + state)
        sig = lambda mid, struct: " ".join(
            [f"Fixpoint {name}"] + [self.binder(s, v) for v in ro] + [mid] + [self.binder(s, v) for v in state]
            + [f"{{struct {struct}}} : flow ({sty}) ({self.R}) :="])
        inner_env = [v for v in env if v in ro or v in state]
        if kind == "enum":
            seq = it.args[0].id
            if self.ntype(it.args[0], env) != "list" or seq in mutated:
                self.abort(s, "enumerate() must iterate a sequence variable the loop does not modify")
            if self.ty(s, targets[0]) != "N" or self.ty(s, targets[1]) != "elem":
                self.abort(s, "enumerate() targets must be declared (N, elem)")
            ctx.fall = args(["it''", "(N.succ idx')"])
            body = self.block(s.body, inner_env + targets, ctx)
            fix = [sig("(it' : list A) (idx' : N)", "it'"), "  match it' with", f"  | nil => Next {tup}",
                   f"  | cons {targets[1]} it'' =>", f"    let {targets[0]} := idx' in"] + _ind(_ind(body)) + ["  end."]
            call = args([seq, "0%N"])
        elif kind == "range":
            if self.ntype(it.args[0], env) not in ("N", "lit"):
                self.abort(s, "range(e) is only translated for e of declared type N")
            count = self.expr(it.args[0], "N", env, h)
            if targets and self.ty(s, targets[0]) != "N":
                self.abort(s, "range() target must be declared N")
            ctx.fall = args(["cnt''"] + ["(N.succ idx')"] * len(targets))
            body = self.block(s.body, inner_env + targets, ctx)
            fix = [sig("(cnt' : nat)" + " (idx' : N)" * len(targets), "cnt'"), "  match cnt' with", f"  | O => Next {tup}",
                   "  | S cnt'' =>"] + [f"    let {x} := idx' in" for x in targets] + _ind(_ind(body)) + ["  end."]
            call = args([f"(N.to_nat {count})"] + ["0%N"] * len(targets))
        else:
            if n not in self.spec.fuel:
                self.abort(s, f"while loop number {n} has no declared fuel measure")
            ctx.fall = args(["fuel''"])
            hc: list = []
            test = self.expr(s.test, "bool", inner_env, hc)
            body = self.block(s.body, inner_env, ctx)
            fix = [sig("(fuel' : nat)", "fuel'")] + _ind(self.hoisted(hc, [
                f"if {test} then (", "  match fuel' with", "  | O => Fail OutOfFuel", "  | S fuel'' =>"] + _ind(_ind(body))
                + ["  end", f") else Next {tup}"], ctx))
            fix[-1] += "."
            call = args([f"({self.spec.fuel[n]})"])
        self.fixpoints.append("\n".join(fix))
        return call, state

    def translate(self) -> str:
        fn, a = self.fn, self.fn.args
        if fn.decorator_list:
            self.abort(fn, "decorated function")
        if a.posonlyargs or a.vararg or a.kwonlyargs or a.kwarg or a.defaults or a.kw_defaults:
            self.abort(fn, "only plain positional parameters without defaults are handled")
        self.params = [x.arg for x in a.args]
        if len(set(self.params)) != len(self.params):
            self.abort(fn, "duplicate parameter")
        binders = " ".join(self.binder(fn, p) for p in self.params)
        ctx = _Ctx(ret=lambda e: f"Ok {e}", fail=lambda e: f"Err {e}", fall=None)
        body = self.block(fn.body, list(self.params), ctx)
        head = f"(* {fn.name}, line {fn.lineno} *)\n"
        return head + "\n\n".join(self.fixpoints + [
            f"Definition {self.prefix}{fn.name} {binders} : res ({self.R}) :=\n" + "\n".join(_ind(body)) + "."])


def translate_function(path: Path, fn: ast.FunctionDef, spec: FunSpec, prefix: str = "gen_") -> str:
    """Gallina text (loop Fixpoints, then the Definition) for one function; uses `A` and `eqb` of the enclosing Section."""
    for t in list(spec.types.values()) + [spec.ret]:
        if t not in COQ_TYPE:
            raise TranslatorAbort(f"{path}:{fn.lineno}: unknown declared type {t!r} for {fn.name}")
    return _Fun(path, fn, spec, prefix).translate()
