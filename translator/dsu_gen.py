"""Fail-closed translator: `$VERIF_REPO/src/superrec2/utils/disjoint_set.py` -> `coq/Gen/DsuGen.v`.

The methods `__init__` (generated name `gen_dsu_init`), `find` (`gen_dsu_find`), `unite`
(`gen_dsu_unite`), `__len__` (`gen_dsu_len`), `to_list` (`gen_dsu_to_list`) and `binary`
(`gen_dsu_binary`, with its local function `_binary` as `gen_dsu_binary_aux`) of the class
`DisjointSet` are translated statement by statement by `translator/pyfun.py` (see its docstring
for the handled subset and the shape of the output); `__repr__` is not translated.
The object is the record `dsu_state` of its attributes `parent`, `rank`, `groups`; `__init__`
returns `res dsu_state`, every other method `res (dsu_state * result)`.  This driver only supplies
what cannot be read off the source: the type of every variable and attribute, and the fuel of the
recursion of `find` on itself.  `coq/Proofs/DsuGenProofs.v` proves the generated functions equal
to the hand-written model `coq/Model/DisjointSet.v` for all states and arguments
(`coq/Proofs/DsuBinaryGenProofs.v` for `binary`).  Any construct
outside the subset, a definition missing or made twice, or a variable without a declared type
raises `TranslatorAbort` with file:line.  The output file is rewritten only when its content changes.

Declared types (the assumptions of the tie): `count` and the elements (`element`, `first`,
`second`, the representatives, the loop counter) are non-negative ints (`N`; a negative index
would count from the end in Python, the model takes naturals too); `parent`, `rank` are lists of
such ints; `groups` is an int (`Z`, it is decremented); `unite` returns a bool.
Fuel of `find`: one more than the largest rank -- the measure `Model/DisjointSet.v` uses, so the
equality with the model is unconditional and `Proofs/DisjointSetProofs.v` (ranks strictly increase
towards the roots on every reachable state) shows `OutOfFuel` is never returned there.

`binary` (pyfun's ninth extension; emitted after the other methods, in a Section `Binary`, so that the
text before it is unchanged): `_binary` takes a `DisjointSet` (objects are values: the record),
`groups: list N`, `first` / `second: option N` and returns a newly built `list DisjointSet`; its fuel is
`S (length groups)` (it calls itself on `groups[1:]`; the proof shows this never runs out).
`deepcopy(partition)` is the value `partition` (a `DisjointSet` holds two lists of ints and an int, and
defines no `__deepcopy__` / `__copy__` / `__reduce__`: the class body is checked to consist of method
definitions none of which changes attribute access -- ASSUMPTION: `copy.deepcopy` of such an object is an
object with equal attributes sharing nothing with it).  The order of
`list(set(self.find(i) for i in range(len(self.parent))))` is the Section variable
`ord : list N -> list N`, applied to the list of the representatives found, in order, duplicates
included: CPython's set iteration order is a function of the inserted sequence; the theorems hold for
every `ord`.  The list returned holds the objects by value, as they are when `binary` returns.
"""
from __future__ import annotations

import ast
import os
import sys
from pathlib import Path
from typing import Optional

sys.path.insert(0, str(Path(__file__).resolve().parent.parent))
from translator.pyfun import ClassSpec, FunSpec, TranslatorAbort, Unit  # noqa: E402

VERIF = Path(__file__).resolve().parent.parent
OUT = VERIF / "coq" / "Gen" / "DsuGen.v"
SOURCE = ("src", "superrec2", "utils", "disjoint_set.py")

DSU = ClassSpec("DisjointSet", "dsu", {"parent": "list N", "rank": "list N", "groups": "Z"}, [
    FunSpec("__init__", {"count": "N"}, "", alias="dsu_init"),
    FunSpec("find", {"element": "N"}, "N", alias="dsu_find",
            rec_fuel="S (list_max (map N.to_nat (dsu_rank self)))"),
    FunSpec("unite", {"first": "N", "second": "N", "rep_first": "N", "rep_second": "N"}, "bool", alias="dsu_unite"),
    FunSpec("__len__", {}, "Z", alias="dsu_len"),
    FunSpec("to_list", {"result": "list (list N)", "i": "N", "group": "list N"}, "list (list N)", alias="dsu_to_list"),
])


BINARY_AUX = FunSpec("_binary", {"partition": "DisjointSet", "groups": "list N", "first": "option N", "second": "option N",
                                 "part_1": "DisjointSet", "part_2": "DisjointSet",
                                 "results_1": "list DisjointSet", "results_2": "list DisjointSet"},
                     "list DisjointSet", alias="dsu_binary_aux", rec_fuel="S (length groups)", fresh=True)
BINARY = FunSpec("binary", {"i": "N"}, "list DisjointSet", alias="dsu_binary")


def build(repo: Path):
    """(the translation unit, the text of the generated file)"""
    path = repo.joinpath(*SOURCE)
    if not path.is_file():
        raise TranslatorAbort(f"{path}:0: source file not found")
    try:
        tree = ast.parse(path.read_text(encoding="utf8"), filename=str(path))
    except SyntaxError as e:
        raise TranslatorAbort(f"{path}:{e.lineno}: syntax error: {e.msg}")
    unit = Unit(path, tree, extended=True)
    unit.use_containers()
    unit.use_tables(section_vars=["ord"])
    unit.use_seventh()
    unit.use_ninth({"list N": "ord"})
    parts = [unit.klass(DSU)]
    parts.append("Section Binary.\n\n(* the order in which Python iterates the set built from the given items (inserted in list order) *)\n"
                 "Variable ord : list N -> list N.")
    parts.append(unit.local_function("DisjointSet", "binary", BINARY_AUX))
    parts.append(unit.method("DisjointSet", BINARY))
    parts.append("End Binary.")
    return unit, "\n".join([
        "(* GENERATED by translator/dsu_gen.py (via translator/pyfun.py) from",
        "   src/superrec2/utils/disjoint_set.py -- do not edit.  Statement-by-statement translation:",
        "   an assignment is a shadowing [let], the statements after an [if] are a continuation [k'n],",
        "   each loop is a [Fixpoint] returning [flow] ([Next] state / [Ret] early return / [Fail] error);",
        "   the object is the record [dsu_state], [self.f] is the variable [self'f], a call [self.m(..)]",
        "   passes the record and binds the attributes again from the state it returns; [find] calling",
        "   itself is a [Fixpoint] on fuel ([OutOfFuel]); [xs[i]] is [nth_error], [xs[i] = e] is [nset],",
        "   [None] -> [IndexError].  Proofs/DsuGenProofs.v proves these functions equal to",
        "   Model/DisjointSet.v. *)",
        "From Coq Require Import List Bool ZArith NArith.",
        "",
        unit.prelude(),
        "\n\n".join(parts),
    ]) + "\n"


def render(repo: Path) -> str:
    return build(repo)[1]


def regenerate(repo: Optional[Path] = None, out: Path = OUT) -> bool:
    """Translate and (re)write `out` if its content changed.  Returns True when written."""
    repo = Path(repo if repo is not None else os.environ.get("VERIF_REPO", "/repo"))
    text = render(repo)
    if out.exists() and out.read_text() == text:
        return False
    out.parent.mkdir(parents=True, exist_ok=True)
    tmp = out.with_suffix(".v.tmp")
    tmp.write_text(text)
    tmp.replace(out)
    return True


if __name__ == "__main__":
    try:
        target = Path(sys.argv[2]) if len(sys.argv) > 2 else OUT
        changed = regenerate(Path(sys.argv[1]) if len(sys.argv) > 1 else None, target)
    except TranslatorAbort as e:
        print("TranslatorAbort:", e, file=sys.stderr)
        sys.exit(2)
    print("written" if changed else "unchanged", target)
