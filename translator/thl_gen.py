"""Fail-closed translator: `$VERIF_REPO/src/superrec2/compute/reconciliation.py` -> `coq/Gen/ThlGen.v`.

The general DTL solver -- `_compute_thl_try_speciation`, `_compute_thl_try_duplication_transfer`, `_compute_thl_table`,
`_decode_thl_table`, `reconcile_thl` -- and `reconcile_lca` are translated statement by statement by `translator/pyfun.py` (see its
docstring, sixth extension).  The table, its proxies and the entries are the code of `Gen/TableGen.v` and `Gen/EntryGen.v`
(imported); the object tree, `ReconciliationInput`, the cost dictionary and the event enums are those of `Gen/EvalGen.v`, whose
evaluator computes `output.cost()`.  `coq/Proofs/ThlGenProofs.v` proves the generated functions, instantiated at root paths, equal to
the model `coq/Model/Thl.v` run with the enumeration orders of the code, and that model equal to `Model/Thl.v` itself up to the
order of tags / results.  Any construct outside the subset, a definition missing or made twice, an import that is not the expected
one, or a variable without a declared type raises `TranslatorAbort` with file:line.  The output file is rewritten only when its
content changes.

What this driver supplies, i.e. the assumptions of the tie:

* everything `table_gen.py`, `entry_gen.py` and `eval_gen.py` assume; the three generated files are re-derived from the source
  under translation (same text, or abort) so that the imported declarations are those of the files on disk;
* species: the species tree is the inductive `STree` (a leaf or a node with two subtrees, an identifier of the Section's type `sp`
  at every node: the identity of the ete3 node, compared with `sp_eqb`).  Where a species node is used as a tag, as a key or as an
  argument of the LCA structure, its identifier is meant (`STree_id`).  `species_lca` is a value of an opaque type; `is_ancestor_of`,
  `distance`, the call `species_lca(a, b)` and the attribute `tree` are the Section's `lca_is_ancestor_of`, `lca_distance`, `lca_call`,
  `lca_tree` (that the Euler-tour structure computes them is property C17);
* `x.traverse()` is ete3's default LEVEL ORDER (`STree_levelorder`: by increasing depth, left to right), `traverse("postorder")`
  the two subtrees then the node; both trees are binary (`a, b = x.children`: ValueError on a leaf);
* the table has the tag type `MappingInfo` (a NamedTuple -> Record, fields `option sp`: a candidate's `info` may be `None`) and the
  keys `node_id + sp` (`inl`: an object node, `inr`: a species), compared with `key_eqb`; `table.entry()` is `gen_table_entry2`, the
  entry of another tag type (species), as the code uses it for its aggregators; the table is updated in place: the three table
  functions take it and return it (`mutates`);
* `info.left` / `info.right` where a species is needed: the error `NoneValue` when the field is `None` (the translation does not follow
  what Python would then do; the proofs show that every tag of the table holds two species);
* the local functions `spe_combinator`, `dup_combinator`, `hgt_combinator` are Coq `fun`s; `+` with an `ext` operand is `ext_add`;
* `_decode_thl_table` is a generator: the list of what it yields, with the table it has read (reading creates dictionary items);
  `product(g1, g2)` is `list_prod` of the two lists; the set `infos()` of the cell is iterated in the order `infos_order`, a Section
  parameter (Python fixes none; the theorems need it to return a permutation of its argument);
* `ReconciliationOutput(rec_input, d)`: a Record of this file (`tout_state`) holding the input and the dictionary as the list of its
  stores, newest first (`{k: v, **l, **r}` is `r ++ l ++ [(k, v)]`: looking a key up sees the later stores first); `output.cost()`
  is `gen_output_cost`: the evaluator of `Gen/EvalGen.v` on the dictionary read as a function, a key that is absent answering the
  Section's `missing` (Python: KeyError; the evaluator only looks up nodes of the object tree, which are all keys).  `==` / hashing of
  outputs (the result entry keeps a set of them) is the Section's `output_eqb`; the theorems assume it decides whether two outputs
  denote the same reconciliation;
* in `_compute_thl_table` the name `root_species` is two variables (the species of a leaf: an identifier; the loop variable: a
  node), never live at the same time: the loop variable is spelled `root_species_`.
"""
from __future__ import annotations

import ast
import os
import sys
from dataclasses import replace
from pathlib import Path
from typing import Optional

sys.path.insert(0, str(Path(__file__).resolve().parent.parent))
from translator.pyfun import ClassSpec, DataSpec, FunSpec, TranslatorAbort, Unit  # noqa: E402
from translator import eval_gen, table_gen  # noqa: E402

VERIF = Path(__file__).resolve().parent.parent
OUT = VERIF / "coq" / "Gen" / "ThlGen.v"
SOURCE = ("src", "superrec2", "compute", "reconciliation.py")
DP = "..utils.dynamic_programming"

LCA_METHODS = {
    "is_ancestor_of": (["sp", "sp"], "bool", "lca_is_ancestor_of"),
    "distance": (["sp", "sp"], "Z", "lca_distance"),
}
LCA_CALL = (["sp", "sp"], "sp", "lca_call")
EVAL_ARGS = "sp lca node_id"
EVAL_FUNS = "sp_eqb lca_is_ancestor_of lca_is_strict_ancestor_of lca_is_comparable lca_call lca_distance"
MAPPING_INFO = DataSpec("MappingInfo", {"left": "option elem", "right": "option elem"})
STEP_VARS = {
    "species_lca": "LowestCommonAncestor", "root_species": "STree", "root_node": "TreeNode", "table": "Table2",
    "costs": "CostValues", "loss_cost": "Z", "left_node": "TreeNode", "right_node": "TreeNode", "dist_cost": "Z",
    "left": "Candidate", "right": "Candidate"}
COMB = "Candidate -> Candidate -> Candidate2"
SPECIATION = FunSpec("_compute_thl_try_speciation", dict(
    STEP_VARS, spe_cost="Z", left_species="STree", right_species="STree", min_ltl="Entry", min_rtl="Entry", min_ltr="Entry",
    min_rtr="Entry", left_child="STree", right_child="STree", spe_combinator=COMB), "unit",
    alias="compute_thl_try_speciation", mutates=("table",))
DUP_TRANSFER = FunSpec("_compute_thl_try_duplication_transfer", dict(
    STEP_VARS, dup_cost="Z", hgt_cost="ext", min_ltc="Entry", min_lts="Entry", min_rtc="Entry", min_rts="Entry",
    other_species="STree", dup_combinator=COMB, hgt_combinator=COMB), "unit",
    alias="compute_thl_try_duplication_transfer", mutates=("table",))


RIN = "ReconciliationInput"
ROUT = "ReconciliationOutput"
TABLE_FUN = FunSpec("_compute_thl_table", {
    "rec_input": RIN, "retention_policy": "RetentionPolicy", "table": "Table2", "root_node": "TreeNode", "root_species": "sp",
    "root_species@for": "STree"}, "Table2", alias="compute_thl_table", fresh=True)
DECODE = FunSpec("_decode_thl_table", {
    "root_object": "TreeNode", "root_species": "elem", "rec_input": RIN, "table": "Table2", "info": "MappingInfo",
    "left_object": "TreeNode", "right_object": "TreeNode", "mappings": f"list (pair {ROUT} {ROUT})", "map_left": ROUT,
    "map_right": ROUT}, f"list {ROUT}", alias="decode_thl_table", generator=True, rec_on="root_object", mutates=("table",))
RECONCILE = FunSpec("reconcile_thl", {
    "rec_input": RIN, "policy": "RetentionPolicy", "table": "Table2", "root_object": "TreeNode", "results": "Entry3",
    "root_species": "STree", "output": ROUT}, "set3", alias="reconcile_thl")
LCA_REC = FunSpec("reconcile_lca", {
    "rec_input": RIN, "rec": "SpeciesDict", "node": "TreeNode", "species": "sp", "left": "TreeNode", "right": "TreeNode"},
    ROUT, alias="reconcile_lca")
OUTPUT_COST = FunSpec("cost", {}, "ext")


def _parse(path: Path) -> ast.Module:
    if not path.is_file():
        raise TranslatorAbort(f"{path}:0: source file not found")
    try:
        return ast.parse(path.read_text(encoding="utf8"), filename=str(path))
    except SyntaxError as e:
        raise TranslatorAbort(f"{path}:{e.lineno}: syntax error: {e.msg}")


def eval_unit(repo: Path) -> Unit:
    """The translation unit of `Gen/EvalGen.v`, built again from `repo` with the declarations of `eval_gen.py`, after checking
    that every piece is part of the text `eval_gen.py` generates."""
    text = eval_gen.render(repo)
    path = repo.joinpath(*eval_gen.SOURCE)
    unit = Unit(path, _parse(path), extended=True)
    unit.products = unit.bool_asserts = unit.passed_defaults = unit.set_ops = True
    unit.opaque("ext", "ext", eqb="ext_eqb", ltb="ext_ltb", leb="ext_leb")
    unit.numbers("ext", add="ext_add", of_Z="Fin")
    unit.constant("inf", "infinity", "ext", "PInf", neg="NInf")
    unit.opaque("sp", "sp", eqb="sp_eqb")
    unit.opaque("LowestCommonAncestor", "lca")
    unit.methods_of("LowestCommonAncestor", eval_gen.LCA_METHODS, call=eval_gen.LCA_CALL)
    pieces = [unit.enum("NodeEvent"), unit.enum("EdgeEvent"), unit.bintree("TreeNode", "node_id")]
    unit.mapping("TreeMapping", "TreeNode", "sp")
    pieces.append(unit.enumdict("CostValues", eval_gen.COSTS))
    unit.mapping("SyntenyMapping", "TreeNode", "list")
    unit.nodedict("MaskDict", "TreeNode", "N", eqb="node_id_eqb")
    unit.external("subseq_complete", eval_gen.SUBSEQ, ["list"], "N", "(@subseq_complete A)")
    unit.external("mask_from_subseq", eval_gen.SUBSEQ, ["list", "list"], "N", "(mask_from_subseq eqb)")
    unit.external("subseq_segment_dist", eval_gen.SUBSEQ, ["N", "N", "bool"], "Z", "seg_dist")
    pieces += [unit.klass(eval_gen.INPUT), unit.klass(eval_gen.OUTPUT), unit.klass(eval_gen.SINPUT), unit.klass(eval_gen.SOUTPUT)]
    for piece in pieces:
        if piece not in text:
            raise TranslatorAbort(f"{path}:0: the evaluator does not translate to the text of Gen/EvalGen.v")
    return unit


def build(repo: Path):
    path = repo.joinpath(*SOURCE)
    entries = table_gen.entry_unit(repo)
    tables, _ = table_gen.build(repo)
    evals = eval_unit(repo)
    unit = Unit(path, _parse(path), truthy_elem=True, extended=True)
    unit.products = True
    unit.use_tables()
    unit.insts = {"": ("sp", "sp_eqb"), "2": ("MappingInfo", "MappingInfo_eqb"), "3": ("tout_state", "output_eqb")}
    unit.use_product()
    unit.unwrap_none = True
    unit.set_orders["2"] = "infos_order"
    unit.opaque("ext", "ext", eqb="ext_eqb", ltb="ext_ltb", leb="ext_leb")
    unit.numbers("ext", add="ext_add", of_Z="Fin")
    unit.opaque("sp", "sp", eqb="sp_eqb")
    unit.opaque("K", "key", eqb="key_eqb")
    unit.opaque("LowestCommonAncestor", "lca")
    lifts = [unit.import_unit(entries, "EntryGen", "entry_res", {"Candidate": "{A}", "Entry": "{A}"},
                              heads={("Entry", "combine"): "(@EntryGen.gen_entry_combine {A} {A2} {eqb2})"})]
    for name in ("Candidate", "MergePolicy", "RetentionPolicy", "Entry", "Table", "DictDimension"):
        unit.imported(name, DP)
    kA = "key {A}"
    lifts.append(unit.import_unit(
        tables, "TableGen", "table_res",
        {"Table": kA, "EntryProxy": kA, "TableProxy": kA, "Proxy": kA, "Cell": kA, "Combined": kA + " sp", "DictDimension": ""},
        heads={("Table", "entry"): "(@TableGen.gen_table_entry2 key {A} sp)"},
        var_terms={"keqb": "key_eqb", "eqb2": "MappingInfo_eqb"},
        choose={("Table", "entry"): "table_entry2"}, rets={("Table", "entry"): "Entry"}))
    lifts.append(unit.import_unit(
        evals, "EvalGen", "eval_res",
        {"TreeNode": "node_id", "ReconciliationInput": EVAL_ARGS},
        skip=("ReconciliationOutput", "SuperReconciliationInput", "SuperReconciliationOutput")))
    for name in ("ReconciliationInput", "NodeEvent", "EdgeEvent", "CostValues"):
        unit.imported(name, "..model.reconciliation")
    stree = unit.bintree("STree", "sp")
    unit.methods_of("LowestCommonAncestor", LCA_METHODS, call=LCA_CALL)
    unit.attrs_of("LowestCommonAncestor", {"tree": ("STree", "lca_tree")})
    for src, fmt in (("STree", "STree_id {}"),):
        unit.coercion(src, "sp", fmt)
        unit.coercion(src, "elem", fmt)
    unit.coercion("STree", "K", "inr (STree_id {})")
    unit.coercion("sp", "K", "inr {}")
    unit.coercion("elem", "K", "inr {}")
    unit.coercion("TreeNode", "K", "inl (EvalGen.TreeNode_id {})")
    info = unit.namedtuple(MAPPING_INFO, {"left": "(option_eqb sp_eqb)", "right": "(option_eqb sp_eqb)"})
    unit.same_type("elem2", "MappingInfo")
    unit.same_type("elem", "sp")
    unit.nodedict("SpeciesDict", "TreeNode", "sp", eqb="node_id_eqb")
    output = unit.record_class(ROUT, "..model.reconciliation", "tout", {"input": RIN, "object_species": "SpeciesDict"},
                               [(OUTPUT_COST, "gen_output_cost")])
    unit.same_type("elem3", ROUT)
    parts = [unit.function(SPECIATION), unit.function(DUP_TRANSFER), unit.function(TABLE_FUN), unit.function(DECODE),
             unit.function(RECONCILE), unit.function(LCA_REC)]
    travs = [unit.traversal_defs("STree"), unit.traversal_defs("TreeNode")]
    text = "\n".join([
        "(* GENERATED by translator/thl_gen.py (via translator/pyfun.py) from",
        "   src/superrec2/compute/reconciliation.py -- do not edit.  Statement-by-statement translation of the general",
        "   DTL solver and of [reconcile_lca]: an assignment is a shadowing [let], the statements after an [if] a",
        "   continuation [k'n], each loop a [Fixpoint] returning [flow]; the table ([Gen/TableGen.v]) is updated in",
        "   place: the functions that take it return it, a chain [table[a][b].m(..)] goes through the proxies and",
        "   reads the table back from the last one; the aggregators are entries of [Gen/EntryGen.v]; the species",
        "   tree is the inductive [STree], [traverse()] its level order, [traverse(\"postorder\")] its post-order;",
        "   the combinators are [fun]s; [_decode_thl_table] (a generator) is the list of what it yields, a",
        "   structural [Fixpoint] on the object tree whose loop over the tags is a local [fix]; an output is the",
        "   record [tout_state] (the dictionary: the list of its stores, newest first), its cost the evaluator of",
        "   [Gen/EvalGen.v] ([gen_output_cost]).  Proofs/ThlGenProofs.v proves these functions, at root paths, equal to",
        "   Model/Thl.v. *)",
        "From Coq Require Import List Bool ZArith NArith.",
        "From SR Require Import Base.Ext.",
        "From SR Require Gen.EntryGen Gen.TableGen Gen.EvalGen.",
        "Module EntryGen := SR.Gen.EntryGen.",
        "Module TableGen := SR.Gen.TableGen.",
        "Module EvalGen := SR.Gen.EvalGen.",
        "",
        unit.prelude(),
        "\n".join(lifts),
        "",
        "(* a == b on two optional values *)",
        "Definition option_eqb {X : Type} (f : X -> X -> bool) (a b : option X) : bool :=",
        "  match a, b with Some x, Some y => f x y | None, None => true | _, _ => false end.",
        "",
        "Section Gen.",
        "Context {sp lca node_id : Type} (sp_eqb : sp -> sp -> bool) (node_id_eqb : node_id -> node_id -> bool).",
        "Context (lca_is_ancestor_of lca_is_strict_ancestor_of lca_is_comparable : lca -> sp -> sp -> bool)",
        "        (lca_call : lca -> sp -> sp -> sp) (lca_distance : lca -> sp -> sp -> Z).",
        "",
        "(* a key of the table: an object node (its identifier) in the first dimension, a species in the second *)",
        "Definition key : Type := (node_id + sp)%type.",
        "Definition key_eqb (a b : key) : bool :=",
        "  match a, b with inl x, inl y => node_id_eqb x y | inr x, inr y => sp_eqb x y | _, _ => false end.",
        "",
        stree,
        "Context (lca_tree : lca -> STree).",
        "",
        "\n\n".join(travs),
        "",
        info,
        "",
        output,
        "Context (output_eqb : tout_state -> tout_state -> bool) (missing : node_id -> sp)",
        "        (infos_order : list MappingInfo -> list MappingInfo).",
        "",
        "(* output.cost(): the evaluator of Gen/EvalGen.v on the dictionary read as a function (a key that is absent -- a",
        "   KeyError in Python -- answers [missing]; the evaluator only looks up the nodes of the object tree) *)",
        "Definition dict_fun (d : list (node_id * sp)) (i : node_id) : sp :=",
        "  match dict_get node_id_eqb d i with Some s => s | None => missing i end.",
        "Definition gen_output_cost (o : tout_state) : res (tout_state * ext) :=",
        f"  match eval_res (@EvalGen.gen_cost {EVAL_ARGS} {EVAL_FUNS}",
        "                    (EvalGen.mk_rout (tout_input o) (dict_fun (tout_object_species o)))) with",
        "  | Err e => Err e",
        "  | Ok (_, c) => Ok (o, c)",
        "  end.",
        "",
        "\n\n".join(parts),
        "",
        "End Gen.",
        "Arguments STree : clear implicits.",
        "Arguments MappingInfo : clear implicits.",
        "Arguments tout_state : clear implicits.",
    ]) + "\n"
    return unit, text


def render(repo: Path) -> str:
    return build(repo)[1]


def regenerate(repo: Optional[Path] = None, out: Path = OUT) -> bool:
    """Translate and (re)write `out` if its content changed.  Returns True when written."""
    repo = Path(repo if repo is not None else os.environ.get("VERIF_REPO", "/repo"))
    text = render(repo)
    if out.exists() and out.read_text() == text:
        return False
    out.parent.mkdir(parents=True, exist_ok=True)
    tmp = out.with_suffix(".v.tmp")
    tmp.write_text(text)
    tmp.replace(out)
    return True


if __name__ == "__main__":
    try:
        target = Path(sys.argv[2]) if len(sys.argv) > 2 else OUT
        changed = regenerate(Path(sys.argv[1]) if len(sys.argv) > 1 else None, target)
    except TranslatorAbort as e:
        print("TranslatorAbort:", e, file=sys.stderr)
        sys.exit(2)
    print("written" if changed else "unchanged", target)
