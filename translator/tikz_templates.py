"""Fail-closed translator: `$VERIF_REPO/src/superrec2/render/tikz.py` -> `coq/Gen/TikzTemplates.v`.

Every string that becomes part of the output of `tikz.render` / `measure_nodes` (appended to
`layers[...]`, to `result`, to `boxes`, returned by `get_tikz_definitions` or `get_color`) is
evaluated symbolically to a template `list (Lit s | Nl | Hole kind)`.  The five functions are
walked path-sensitively: an `if` forks the state (test -> guard atom, table `ATOMS`), constant
assignments (`fork_links`, `bend_out`, `node_type`, `color_prefix`) are propagated, and each
template is recorded with the guards common to all paths reaching its source position.  The
order of `result.append/extend` calls in `render` becomes `skeleton`.  Any statement,
expression, test or printed value outside the handled shapes raises `TranslatorAbort` with
file:line.  The output file is rewritten only when its content changes.
"""
from __future__ import annotations

import ast
import os
import textwrap
from pathlib import Path
from typing import NamedTuple

try:
    from harness.core import TranslatorAbort
except ImportError:  # stand-alone use
    class TranslatorAbort(RuntimeError):
        pass

VERIF = Path(__file__).resolve().parent.parent
OUT = VERIF / "coq" / "Gen" / "TikzTemplates.v"
FUNCS = ("get_tikz_definitions", "measure_nodes", "_tikz_draw_fork", "_tikz_draw_branches", "render")
ATOMS = {"params.orientation == Orientation.VERTICAL": "AVertical", "species_node.is_leaf()": "ASpeciesLeaf",
         "root_gene in layout.anchors": "AAnchored", "right_gene is None": "ARightNone",
         "branch_pos.x < foreign_pos.x": "AXLess", "branch_pos.y > foreign_pos.y": "AYGreater",
         "params.species_label_width is not None": "AWrapSpecies", "html in colors": "AInterned"}
KINDS = {"NodeEvent.LEAF": "KLeaf", "NodeEvent.SPECIATION": "KSpe", "NodeEvent.DUPLICATION": "KDup",
         "NodeEvent.HORIZONTAL_TRANSFER": "KTr", "EdgeEvent.FULL_LOSS": "KLoss"}
LOOPS = {"nodes": ("Opaque", "Label"), "enumerate(colors)": ("ColourIndex", "ColourHtml"),
         "layers.items()": ("LayerName", "Opaque")}
PRINTED = {"branch.name": "Label", "get_color(branch.color)": "ColourName",
           "colors.index(html)": "ColourIndex", "len(colors) - 1": "ColourIndex"}
LABEL_SOURCES = ("tex.escape(species_node.name)",
                 "balanced_wrap(species_name, params.species_label_width).replace('\\n', '\\\\\\\\')")
OPAQUE = ("Opaque",)


class Hole(NamedTuple):
    kind: str
    info: str = ""


def _sent(tpl):  # template -> string with one private-use character per hole
    holes = [p for p in tpl if isinstance(p, Hole)]
    it = iter(range(len(holes)))
    return "".join(p if isinstance(p, str) else chr(0xE000 + next(it)) for p in tpl), holes


def _unsent(text, holes):
    out, cur = [], ""
    for ch in text:
        if 0xE000 <= ord(ch) < 0xE000 + len(holes):
            out += [cur, holes[ord(ch) - 0xE000]]; cur = ""
        else:
            cur += ch
    return tuple(p for p in out + [cur] if p != "")


def _map(tpl, f):
    text, holes = _sent(tpl)
    return _unsent(f(text), holes)


class Walker:
    def __init__(self, path: Path):
        self.path, self.recs, self.skel, self.layers, self.joiner, self.loop = path, {}, [], [], None, []

    def abort(self, node, msg):
        raise TranslatorAbort(f"{self.path}:{getattr(node, 'lineno', 0)}: {msg}: {ast.unparse(node)[:80]!r}")

    # ---- expressions -> templates -------------------------------------------------
    def ev(self, e, env):
        if isinstance(e, ast.Constant) and isinstance(e.value, str):
            return (e.value,) if e.value else ()
        if isinstance(e, ast.JoinedStr):
            out = ()
            for v in e.values:
                out += self.ev(v, env) if isinstance(v, ast.Constant) else self.hole(v, env)
            return _unsent(*_sent(out))  # merges adjacent literals
        if isinstance(e, ast.Name) and isinstance(env.get(e.id), tuple) and env[e.id] != OPAQUE:
            return env[e.id]
        if isinstance(e, ast.Call) and isinstance(e.func, ast.Attribute):
            f, src = e.func, ast.unparse(e.func)
            if src == "textwrap.dedent" and len(e.args) == 1 and not e.keywords:
                return _map(self.ev(e.args[0], env), textwrap.dedent)
            if src == "textwrap.indent" and len(e.args) == 2 and not e.keywords:
                pre = e.args[1]
                if not (isinstance(pre, ast.BinOp) and isinstance(pre.op, ast.Mult) and isinstance(pre.left, ast.Constant)
                        and isinstance(pre.right, ast.Constant) and isinstance(pre.right.value, int)):
                    self.abort(e, "indent prefix")
                return _map(self.ev(e.args[0], env), lambda t: textwrap.indent(t, pre.left.value * pre.right.value))
            if f.attr in ("strip", "lstrip") and not e.args and not e.keywords:
                return _map(self.ev(f.value, env), lambda t: getattr(t, f.attr)())
        self.abort(e, "string expression outside the handled subset")

    def hole(self, v, env):
        if v.conversion != -1:
            self.abort(v, "conversion in f-string")
        src = ast.unparse(v.value)
        if v.format_spec is not None:
            spec = [x for x in v.format_spec.values if not (isinstance(x, ast.Constant) and not str(x.value).strip())]
            if len(spec) != 1 or not isinstance(spec[0], ast.FormattedValue) or ast.unparse(spec[0].value) != "MAX_DIGITS":
                self.abort(v, "format spec")
            return (Hole("Coord", src),)
        if src in PRINTED:
            return (Hole(PRINTED[src]),)
        if isinstance(v.value, ast.Attribute) and ast.unparse(v.value.value) == "params":
            return (Hole("Param", v.value.attr),)
        if isinstance(v.value, ast.Subscript) and isinstance(v.value.value, ast.Name) and isinstance(v.value.slice, ast.Constant):
            tup = env.get(v.value.value.id)
            if isinstance(tup, list) and isinstance(v.value.slice.value, int) and v.value.slice.value < len(tup):
                return (tup[v.value.slice.value],)
        return self.ev(v.value, env)

    # ---- statements ---------------------------------------------------------------
    def run(self, stmts, states, fn):
        for s in stmts:
            states = [o for st in states for o in self.stmt(s, st, fn)]
        return states

    def atom(self, test):
        pol = True
        if isinstance(test, ast.UnaryOp) and isinstance(test.op, ast.Not):
            test, pol = test.operand, False
        src = ast.unparse(test)
        if src in ATOMS:
            return ATOMS[src], pol
        if isinstance(test, ast.Compare) and len(test.ops) == 1 and isinstance(test.ops[0], ast.Eq) \
                and ast.unparse(test.left) in ("kind", "branch.kind") and ast.unparse(test.comparators[0]) in KINDS:
            return "AKind " + KINDS[ast.unparse(test.comparators[0])], pol
        self.abort(test, "test outside the guard table")

    def record(self, node, fn, site, tpl, conds):
        rec = self.recs.setdefault((node.lineno, node.col_offset, tpl), {"fn": fn, "site": site, "paths": []})
        rec["paths"].append(conds)

    def stmt(self, s, st, fn):
        conds, env = st
        if isinstance(s, (ast.Assert, ast.Pass)) or (isinstance(s, ast.Expr) and isinstance(s.value, ast.Constant)):
            return [st]
        if isinstance(s, ast.Raise):
            return []
        if isinstance(s, ast.FunctionDef) and fn == "render" and s.name == "get_color" and [a.arg for a in s.args.args] == ["html"]:
            self.run(s.body, [((), dict(env))], "get_color")
            return [st]
        if isinstance(s, ast.Return):
            src = ast.unparse(s.value) if s.value else ""
            if fn == "get_tikz_definitions":
                self.record(s, fn, "SDefs", self.ev(s.value, env), conds)
            elif fn == "get_color":
                self.record(s.value, fn, "SColourName", self.ev(s.value, env), ())
            elif fn == "render" and src == "'\\n'.join(result)":
                self.joiner = "\n"
            elif not (fn == "measure_nodes" and src.startswith("tex.measure(boxes, preamble=")):
                self.abort(s, "return")
            return []
        if isinstance(s, ast.If):
            a, pol = self.atom(s.test)
            sides = {pol: s.body, (not pol): s.orelse}
            known = dict(conds).get(a)
            if known is not None:
                return self.run(sides[known], [st], fn)
            outs = {b: self.run(sides[b], [(conds + ((a, b),), dict(env))], fn) for b in (True, False)}
            if all(len(outs[b]) == 1 and outs[b][0][0] == conds + ((a, b),) for b in outs) and outs[True][0][1] == outs[False][0][1]:
                return [(conds, outs[True][0][1])]
            return outs[True] + outs[False]
        if isinstance(s, ast.For) and not s.orelse:
            names = [t.id for t in (s.target.elts if isinstance(s.target, ast.Tuple) else [s.target]) if isinstance(t, ast.Name)]
            kinds = LOOPS.get(ast.unparse(s.iter), ("Opaque",) * len(names))
            if len(kinds) != len(names):
                self.abort(s, "loop target")
            benv = dict(env)
            benv.update({n: OPAQUE if k == "Opaque" else (Hole(k),) for n, k in zip(names, kinds)})
            self.loop.append(ast.unparse(s.iter)); mark = len(self.skel)
            self.run(s.body, [(conds, benv)], fn)
            it = self.loop.pop()
            if len(self.skel) > mark:
                body = self.skel[mark:]; del self.skel[mark:]
                self.skel.append(("SkEachColour" if it == "enumerate(colors)" else "SkEachLayer", body))
            return [st]
        if isinstance(s, (ast.Assign, ast.AnnAssign)) and s.value is not None:
            tgt = s.targets[0] if isinstance(s, ast.Assign) and len(s.targets) == 1 else getattr(s, "target", None)
            names = [t.id for t in (tgt.elts if isinstance(tgt, ast.Tuple) else [tgt]) if isinstance(t, ast.Name)]
            if not names or len(names) != (len(tgt.elts) if isinstance(tgt, ast.Tuple) else 1):
                self.abort(s, "assignment target")
            env, v, src = dict(env), s.value, ast.unparse(s.value)
            if len(names) > 1:
                env.update({n: OPAQUE for n in names})
            elif isinstance(v, ast.JoinedStr) or (isinstance(v, ast.Constant) and isinstance(v.value, str)) or src.startswith("textwrap.dedent("):
                env[names[0]] = self.ev(v, env)
            elif isinstance(v, ast.Tuple) and all(isinstance(x, ast.Constant) and isinstance(x.value, str) for x in v.elts):
                env[names[0]] = [x.value for x in v.elts]
            elif src in LABEL_SOURCES:
                env[names[0]] = (Hole("Label"),)
            elif isinstance(v, ast.BoolOp) and isinstance(v.op, ast.Or) and len(v.values) == 2 and ast.unparse(v.values[0]) == "branch.name":
                e2 = dict(env); env[names[0]] = (Hole("Label"),); e2[names[0]] = self.ev(v.values[1], env)
                return [(conds + (("ANameEmpty", False),), env), (conds + (("ANameEmpty", True),), e2)]
            else:
                if names[0] == "layers" and isinstance(v, ast.Dict):
                    self.layers = [k.value for k in v.keys]
                if names[0] == "result":
                    if src != "[get_tikz_definitions(params)]":
                        self.abort(s, "initial value of result")
                    self.skel.append(("SkSite", "SDefs"))
                env[names[0]] = OPAQUE
            return [(conds, env)]
        if isinstance(s, ast.Expr) and isinstance(s.value, ast.Call) and not s.value.keywords:
            c, src = s.value, ast.unparse(s.value.func)
            if fn == "render" and src in ("_tikz_draw_fork", "_tikz_draw_branches"):
                return [st]
            if fn == "get_color" and ast.unparse(c) == "colors.append(html)":
                return [st]
            if src == "result.extend" and ast.unparse(c.args[0]) == "layer" and self.loop[-1:] == ["layers.items()"]:
                self.skel.append(("SkLayerBody", "")); return [st]
            if src.endswith(".append") and len(c.args) == 1:
                tpl, box = self.ev(c.args[0], env), c.func.value
                if src == "boxes.append":
                    self.record(c, fn, "SMeasure", tpl, conds)
                elif src == "result.append" and self.loop in ([], ["enumerate(colors)"], ["layers.items()"]):
                    site = {"\\begin{tikzpicture}": "SBegin", "\\end{tikzpicture}": "SEnd", "": "STrailer"}.get("".join(map(str, tpl))) \
                        or ("SColourDef" if self.loop == ["enumerate(colors)"] else "SComment" if self.loop else None)
                    if site is None:
                        self.abort(s, "unclassified output line")
                    self.record(c, fn, site, tpl, conds); self.skel.append(("SkSite", site))
                elif isinstance(box, ast.Subscript) and ast.unparse(box.value) == "layers" and isinstance(box.slice, ast.Constant) and box.slice.value in self.layers_known:
                    self.record(c, fn, "SLayer " + cstr(box.slice.value), tpl, conds)
                else:
                    self.abort(s, "append to an unknown list")
                return [st]
        self.abort(s, "statement outside the handled subset")


def cstr(s: str) -> str:
    return '"' + s.replace('"', '""') + '"'


def extract(src_path: Path):
    tree = ast.parse(src_path.read_text(), filename=str(src_path))
    w = Walker(src_path)
    fns, env = {}, {}
    for s in tree.body:
        if isinstance(s, ast.FunctionDef) and s.name in FUNCS and not s.decorator_list:
            fns[s.name] = s
        elif isinstance(s, ast.Assign) and ast.unparse(s) == "MAX_DIGITS = 4":
            pass
        elif not (isinstance(s, (ast.Import, ast.ImportFrom)) or (isinstance(s, ast.Expr) and isinstance(s.value, ast.Constant))):
            w.abort(s, "top-level statement outside the handled subset")
    if set(fns) != set(FUNCS):
        raise TranslatorAbort(f"{src_path}:1: expected exactly the functions {FUNCS}")
    rdict = [s for s in ast.walk(fns["render"]) if isinstance(s, ast.AnnAssign) and ast.unparse(s.target) == "layers" and isinstance(s.value, ast.Dict)]
    w.layers_known = [k.value for k in rdict[0].value.keys] if len(rdict) == 1 else []
    for name in FUNCS:
        w.run(fns[name].body, [((), dict(env))], name)
    if w.joiner != "\n" or w.layers != w.layers_known or not w.layers:
        raise TranslatorAbort(f"{src_path}:{fns['render'].lineno}: render does not end in the expected join over the declared layers")
    entries = []
    for (line, col, tpl), rec in sorted(w.recs.items(), key=lambda kv: kv[0][:2]):
        guards = [g for g in rec["paths"][0] if all(g in p for p in rec["paths"])]
        entries.append({"id": len(entries), "fn": rec["fn"], "site": rec["site"], "line": line, "guards": guards, "items": list(tpl)})
    names = [e for e in entries if e["site"] == "SColourName"]
    if not names or any(e["items"] != names[0]["items"] for e in names):
        raise TranslatorAbort(f"{src_path}: get_color returns differently built names")
    entries = [e for e in entries if e["site"] != "SColourName" or e is names[0]]
    for k, e in enumerate(entries):
        e["id"] = k
    return {"entries": entries, "skeleton": w.skel, "layers": w.layers}


def _items(tpl) -> str:
    out = []
    for p in tpl:
        if isinstance(p, Hole):
            out.append(f"Hole H{p.kind}")
        else:
            for k, line in enumerate(p.split("\n")):
                out += (["Nl"] if k else []) + ([f"Lit {cstr(line)}"] if line else [])
    return "[" + "; ".join(out) + "]"


def _skel(items) -> str:
    def one(k, v):
        if k == "SkSite":
            return f"SkSite {v}"
        if k == "SkEachColour" and all(x[0] == "SkSite" for x in v):
            return "SkEachColour [" + "; ".join(x[1] for x in v) + "]"
        if k == "SkEachLayer" and all(x[0] in ("SkSite", "SkLayerBody") for x in v):
            return "SkEachLayer [" + "; ".join("LBody" if x[0] == "SkLayerBody" else f"LSite {x[1]}" for x in v) + "]"
        raise TranslatorAbort("render: result is assembled in a shape outside the handled subset")
    return "[" + "; ".join(one(k, v) for k, v in items) + "]"


def render_coq(data, rel: str) -> str:
    for e in data["entries"]:
        for p in e["items"]:
            if isinstance(p, str) and not all(ch == "\n" or 32 <= ord(ch) < 127 for ch in p):
                raise TranslatorAbort(f"{rel}:{e['line']}: non-ASCII character in an output literal")
    lines = [f"(* GENERATED by translator/tikz_templates.py from {rel} -- do not edit. *)",
             "From Coq Require Import String List.", "From SR Require Import Model.Tikz.",
             "Import ListNotations.", "Local Open Scope string_scope.", "",
             "Definition layer_names : list string := [" + "; ".join(map(cstr, data["layers"])) + "].", "",
             "Definition templates : list entry := ["]
    rows = []
    for e in data["entries"]:
        guards = "[" + "; ".join(f"({a}, {'true' if b else 'false'})" for a, b in e["guards"]) + "]"
        rows.append(f"  (* line {e['line']} *) mkEntry {e['id']} {cstr(e['fn'])} ({e['site']}) {guards}\n    {_items(e['items'])}")
    lines += [";\n".join(rows), "].", "", "Definition skeleton : list skel := " + _skel(data["skeleton"]) + ".", ""]
    return "\n".join(lines)


def generate(repo=None) -> bool:
    repo = Path(repo or os.environ.get("VERIF_REPO", "/repo"))
    rel = "src/superrec2/render/tikz.py"
    text = render_coq(extract(repo / rel), rel)
    if OUT.exists() and OUT.read_text() == text:
        return False
    OUT.parent.mkdir(exist_ok=True)
    OUT.write_text(text)
    return True


if __name__ == "__main__":
    print("rewritten" if generate() else "unchanged", OUT)
