"""Fail-closed translator: `$VERIF_REPO/src/superrec2/utils/dynamic_programming.py` -> `coq/Gen/TableGen.v`.

The dynamic-programming table and its proxies: `_generate_table` (generated name `gen_generate_table`), of `Table` the methods
`__init__`, `entry` (twice: `gen_table_entry` for entries with the tag type of the table, `gen_table_entry2` for entries with
another tag type -- `reconcile_thl` builds its aggregators that way), `__getitem__`, `__setitem__`; of `EntryProxy` `__init__`,
`_get_real`, `is_infinite`, `value`, `infos`, `update`, `combine`; of `TableProxy` `__init__`, `__getitem__`, `__setitem__`; and
`Entry.__iter__` (`gen_entry_iter`, which `Gen/EntryGen.v` lacks) are translated statement by statement by `translator/pyfun.py`
(see its docstring, sixth extension, for the handled subset and the shape of the output).  `Entry`, `Candidate` and the two policy
enums are those of `Gen/EntryGen.v` (imported, not translated again).  `Table.keys`, `__iter__`, `TableProxy.keys`, `__iter__`,
`EntryProxy.info`, `__eq__`, `__iter__`, `__len__`, `ListDimension` are not translated.  `coq/Proofs/TableGenProofs.v` proves the
generated functions equal to the table model of `coq/Model/Entry.v` (`read`, `write`) for every number of dictionary dimensions.
Any construct outside the subset, a definition missing or made twice, an import that is not the expected one, or a variable
without a declared type raises `TranslatorAbort` with file:line.  The output file is rewritten only when its content changes.

What this driver supplies, i.e. the assumptions of the tie:

* everything `translator/entry_gen.py` assumes about entries (values are `ext`, a tag set is a duplicate-free list in insertion
  order, tags are truthy); `Entry.combine` is declared as only reading its object (translated once more that way: same text as
  `Gen/EntryGen.v`, or abort);
* `dimensions` is a tuple of `DictDimension()` (a class without attributes): `isinstance(dim, ListDimension)` is then false and
  `isinstance(dim, DictDimension)` true by the declared type, the list branch and the final `raise` are not translated (a table
  with a list dimension is outside the tie);
* keys are values of the Section's type `K` compared with its `keqb` (hashable = decidable equality; the proofs assume `keqb`
  decides equality); a full key is the tuple of the keys of a chain of subscripts;
* `_table` is a tree of `defaultdict`s that nothing else references: a cell (`Cell`) is `None`, an entry, or a dictionary kept as
  the argument of its factory `lambda: _generate_table(rem)` and its items in insertion order; reading a missing key through
  `entry[item]` calls the factory and stores the result, exactly as `defaultdict.__getitem__` does; a local variable that walks
  the structure (`entry = entry[item]`) is the list of the keys followed; `_get_real` hands back a copy of the entry it finds,
  which its callers only read;
* a proxy (`TableProxy`, `EntryProxy`) refers to its table: the generated record holds the table as it is when the proxy is
  built; proxies are temporaries (built and used within one chain of subscripts / method calls), the table is read back from the
  last proxy of the chain.  `TableProxy.__getitem__` returns an object of either class: the type `Proxy`, whose methods dispatch
  on the class (`AttributeError` / `TypeError` when the class lacks the method); `EntryProxy.combine` returns the proxy itself or
  an entry: the type `Combined`;
* `update(*candidates)` takes the candidates as one list; `other` in `combine` is an `Entry`.
"""
from __future__ import annotations

import ast
import os
import sys
from dataclasses import replace
from pathlib import Path
from typing import Optional

sys.path.insert(0, str(Path(__file__).resolve().parent.parent))
from translator.pyfun import ClassSpec, FunSpec, TranslatorAbort, Unit  # noqa: E402
from translator import entry_gen  # noqa: E402

VERIF = Path(__file__).resolve().parent.parent
OUT = VERIF / "coq" / "Gen" / "TableGen.v"
SOURCE = entry_gen.SOURCE

DIMS = "tuple DictDimension"
KEY = "tuple K"
GENTABLE = FunSpec("_generate_table", {"dimensions": DIMS, "dim": "DictDimension", "rem": DIMS}, "Cell", alias="generate_table")
TABLE = ClassSpec("Table", "table", {"merge_policy": "MergePolicy", "retention_policy": "RetentionPolicy",
                                      "dimensions": DIMS, "_table": "Cell"}, [
    FunSpec("__init__", {"dimensions": DIMS, "merge_policy": "MergePolicy", "retention_policy": "RetentionPolicy"}, "",
            alias="table_init"),
    FunSpec("entry", {"value": "none", "infos": "none"}, "Entry", alias="table_entry", pure=True, fresh=True),
])
EPROXY = ClassSpec("EntryProxy", "eproxy", {"_parent": "Table", "_key": KEY}, [
    FunSpec("__init__", {"parent": "Table", "key": KEY}, "", alias="eproxy_init"),
    FunSpec("_get_real", {"entry": "cursor", "item": "K"}, "option Entry", alias="eproxy_get_real"),
    FunSpec("is_infinite", {"real": "option Entry"}, "bool", alias="eproxy_is_infinite"),
    FunSpec("value", {"real": "option Entry"}, "ext", alias="eproxy_value"),
    FunSpec("infos", {"real": "option Entry"}, "set", alias="eproxy_infos"),
    FunSpec("update", {"candidates": "list Candidate", "candidate": "Candidate", "entry": "cursor", "item": "K"}, "unit",
            alias="eproxy_update"),
], views={"_parent": "Table"})
TPROXY = ClassSpec("TableProxy", "tproxy", {"parent": "Table", "prefix": KEY}, [
    FunSpec("__init__", {"parent": "Table", "prefix": KEY}, "", alias="tproxy_init"),
], views={"parent": "Table"})
TP_GET = FunSpec("__getitem__", {"key": "K", "entry": "cursor", "item": "K"}, "Proxy", alias="tproxy_getitem")
TP_SET = FunSpec("__setitem__", {"key": "K", "candidate": "Candidate"}, "unit", alias="tproxy_setitem")
T_GET = FunSpec("__getitem__", {"key": "K"}, "Proxy", alias="table_getitem")
T_SET = FunSpec("__setitem__", {"key": "K", "candidate": "Candidate"}, "unit", alias="table_setitem")
ENTRY2 = FunSpec("entry", {"value": "none", "infos": "none"}, "Entry2", alias="table_entry2", pure=True, fresh=True)
ENTRY_ITER = FunSpec("__iter__", {"info": "elem"}, "list Candidate", alias="entry_iter", pure=True, generator=True)
EP_COMBINE = FunSpec("combine", {"other": "Entry", "combinator": "Candidate -> Candidate -> Candidate2", "real": "option Entry"},
                     "Combined", alias="eproxy_combine")
PROXY_METHODS = [
    FunSpec("__getitem__", {"key": "K"}, "Proxy"),
    FunSpec("__setitem__", {"key": "K", "candidate": "Candidate"}, "unit"),
    FunSpec("is_infinite", {}, "bool"),
    FunSpec("value", {}, "ext"),
    FunSpec("infos", {}, "set"),
    FunSpec("update", {"candidates": "list Candidate"}, "unit"),
]


def _parse(path: Path) -> ast.Module:
    if not path.is_file():
        raise TranslatorAbort(f"{path}:0: source file not found")
    try:
        return ast.parse(path.read_text(encoding="utf8"), filename=str(path))
    except SyntaxError as e:
        raise TranslatorAbort(f"{path}:{e.lineno}: syntax error: {e.msg}")


def declare_values(unit: Unit):
    unit.opaque("ext", "ext", eqb="ext_eqb", ltb="ext_ltb", leb="ext_leb")
    unit.constant("inf", "infinity", "ext", "PInf", neg="NInf")
    unit.external("is_infinite", "infinity", ["ext"], "bool", "ext_is_inf")


def entry_unit(repo: Path) -> Unit:
    """The translation unit of `Gen/EntryGen.v`, built again from `repo` with the specifications of `entry_gen.py`
    (`combine` declared as only reading its object and returning a new one: same text, or abort), after checking that
    every piece is part of the text `entry_gen.py` generates."""
    text = entry_gen.render(repo)
    path = repo.joinpath(*entry_gen.SOURCE)
    unit = Unit(path, _parse(path), truthy_elem=True, extended=True)
    declare_values(unit)
    unit.use_product()
    pieces = [unit.enum("MergePolicy"), unit.enum("RetentionPolicy"), unit.dataclass(entry_gen.CANDIDATE),
              unit.klass(entry_gen.ENTRY)]
    unit.begin_outside({"": ("A", None), "2": ("U", "eqb2")})
    pieces.append(unit.method("Entry", replace(entry_gen.COMBINE, pure=True)))
    for piece in pieces:
        if piece not in text:
            raise TranslatorAbort(f"{path}:0: Entry does not translate to the text of Gen/EntryGen.v when combine is declared "
                                  "as only reading its object")
    unit.outside, unit.insts = False, {"": ("A", "eqb")}
    return unit


def build(repo: Path):
    """(unit, text) of Gen/TableGen.v"""
    path = repo.joinpath(*SOURCE)
    other = entry_unit(repo)
    unit = Unit(path, _parse(path), truthy_elem=True, extended=True)
    unit.raises = True
    declare_values(unit)
    unit.use_tables(section_vars=["keqb", "eqb", "eqb2"])
    unit.insts = {"": ("A", "eqb"), "2": ("U", "eqb2")}
    unit.opaque("K", "K", eqb="keqb")
    lift = unit.import_unit(other, "EntryGen", "entry_res", {"Candidate": "{A}", "Entry": "{A}"},
                            heads={("Entry", "combine"): "(@EntryGen.gen_entry_combine {A} {A2} {eqb2})"})
    marker = unit.marker("DictDimension")
    cell = unit.cells("Cell", "K", "keqb", "Entry", "_generate_table", DIMS)
    parts = [unit.method("Entry", ENTRY_ITER), cell, unit.function(GENTABLE), unit.cell_helpers(), unit.klass(TABLE),
             unit.method("Table", ENTRY2), unit.klass(EPROXY), unit.union("Combined", ["EntryProxy", "Entry2"]), unit.method("EntryProxy", EP_COMBINE),
             unit.klass(TPROXY),
             unit.union("Proxy", ["TableProxy", "EntryProxy"]), unit.method("TableProxy", TP_GET),
             unit.method("TableProxy", TP_SET), unit.method("Table", T_GET), unit.method("Table", T_SET),
             unit.union_methods("Proxy", PROXY_METHODS)]
    section_defs = unit.section_defs()
    text = "\n".join([
        "(* GENERATED by translator/table_gen.py (via translator/pyfun.py) from",
        "   src/superrec2/utils/dynamic_programming.py -- do not edit.  Statement-by-statement translation of",
        "   [_generate_table], [Table], [EntryProxy], [TableProxy] (and [Entry.__iter__]); entries, candidates and",
        "   policies are those of Gen/EntryGen.v.  [_table] is a [Cell]: None, an entry, or a defaultdict -- the",
        "   argument of its factory and its items in insertion order; a variable that walks the nested dictionaries",
        "   is the list of the keys followed ([Cell_touch]: what reading r[k] does to a defaultdict, [Cell_get],",
        "   [Cell_store]).  A proxy holds the table as it is when the proxy is built ([self.parent.f] is the",
        "   variable [self'parent'f]); proxies are temporaries: after a chain of subscripts / method calls the table",
        "   is read back from the last proxy.  [Proxy] / [Combined]: an object of one of two classes, with the",
        "   dispatch of its methods.  Proofs/TableGenProofs.v proves these functions equal to the table model of",
        "   Model/Entry.v. *)",
        "From Coq Require Import List Bool ZArith NArith.",
        "From SR Require Import Base.Ext.",
        "From SR Require Gen.EntryGen.",
        "Module EntryGen := SR.Gen.EntryGen.",
        "",
        unit.prelude(),
        lift,
        "",
        marker,
        "",
        "Section Gen.",
        "Context {K A U : Type} (keqb : K -> K -> bool) (eqb : A -> A -> bool) (eqb2 : U -> U -> bool).",
        "",
        section_defs,
        "\n\n".join(parts),
        "",
        "End Gen.",
        "Arguments Cell : clear implicits.",
        "Arguments table_state : clear implicits.",
        "Arguments eproxy_state : clear implicits.",
        "Arguments tproxy_state : clear implicits.",
        "Arguments Proxy : clear implicits.",
        "Arguments Combined : clear implicits.",
    ]) + "\n"
    return unit, text


def render(repo: Path) -> str:
    return build(repo)[1]


def regenerate(repo: Optional[Path] = None, out: Path = OUT) -> bool:
    """Translate and (re)write `out` if its content changed.  Returns True when written."""
    repo = Path(repo if repo is not None else os.environ.get("VERIF_REPO", "/repo"))
    text = render(repo)
    if out.exists() and out.read_text() == text:
        return False
    out.parent.mkdir(parents=True, exist_ok=True)
    tmp = out.with_suffix(".v.tmp")
    tmp.write_text(text)
    tmp.replace(out)
    return True


if __name__ == "__main__":
    try:
        target = Path(sys.argv[2]) if len(sys.argv) > 2 else OUT
        changed = regenerate(Path(sys.argv[1]) if len(sys.argv) > 1 else None, target)
    except TranslatorAbort as e:
        print("TranslatorAbort:", e, file=sys.stderr)
        sys.exit(2)
    print("written" if changed else "unchanged", target)
