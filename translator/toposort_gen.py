"""Fail-closed translator: `$VERIF_REPO/src/superrec2/utils/toposort.py` -> `coq/Gen/ToposortGen.v`.

The functions `toposort`, `_toposort_all_bt` and `toposort_all` are translated statement by statement by
`translator/pyfun.py` (see its docstring -- fifth extension -- for the handled subset and the shape of the output);
`find_cycle` is not translated.  `coq/Proofs/ToposortGenProofs.v` proves the generated functions equal to the hand-written
model `coq/Model/Toposort.v` (`gen_toposort_eq`: for every graph; `gen_toposort_all_eq`: for every graph and every set order
on which the model does not run out of fuel -- which `Proofs/ToposortProofs.v` excludes for every well-formed graph --,
errors included).  Any construct outside the subset, a definition missing or made twice, or a variable without a declared
type raises `TranslatorAbort` with file:line.  The output file is rewritten only when its content changes.

What this driver supplies, i.e. the assumptions of the tie:

* nodes are values of the Section's type `A`, compared (`==`, hashing) by the Section's `eqb`;
* `graph` (type `Graph`) is a dict from nodes to sets of nodes that the translated code only reads: the association list
  `list (A * list A)` of its items in the dict's iteration order (= insertion order, which Python guarantees); each
  successor set (type `seqset`: a set that nothing updates) is the list of its elements in the set's iteration order, an
  input like the graph itself (the harness records both orders from the running implementation); iterating the same
  unmodified set twice gives the same order;
* `indeg` (type `Indeg`) is a dict from nodes to ints (`Z`), an association list in insertion order too: `indeg[k]` is
  `adict_get` (`KeyError` for a node that is not a key -- a successor that is not a key of the graph), `indeg[k] += 1` replaces
  the value where the key stands (`adict_set`).  `_toposort_all_bt` updates the dictionary it is given: the generated
  function returns the final dictionary together with its result, and each call binds `indeg` again;
* `starts` in `toposort` is a `deque`: the list of its items, left to right (`popleft` takes the head, `append` adds at the
  end, `remove` drops the first occurrence, `ValueError` when there is none, `IndexError` for `popleft` on an empty deque);
* the sets `starts` / `next_starts` of `toposort_all` / `_toposort_all_bt` are duplicate-free lists in insertion order
  (`set(graph)`: the keys; `set(starts)`: a copy; `add`: append unless present; `remove`: `KeyError` when absent; `discard`).
  Python fixes no iteration order for them: `for node_from in starts` iterates `ord starts`, where `ord : list A -> list A`
  is a parameter of the Section; the theorems hold for every `ord` (the model's theorems need it to return a permutation);
* recursion: `_toposort_all_bt` calls itself; the generated function is a `Fixpoint` on fuel, started with `S (length graph)`
  (each level of the recursion places one more node, and the innermost call -- on an empty set -- needs one unit too);
  `OutOfFuel` is an error value that the proofs show is never returned on a graph with distinct keys all of whose successors
  are keys.  The `while` loop of `toposort` runs on fuel `length graph` (one node leaves the deque per iteration), as the
  model's does;
* lists (`result`, `results`, `subresult`) are Coq lists; `subresult` in `toposort_all` is `results[idx']`, updated in place
  by `reverse()`: the new value is stored back into `results` at once; in `_toposort_all_bt` the sub-results are items of the
  list returned by the recursive call, which nothing else names: `subresult.append(..)` is a rebinding, and
  `results.append(subresult)` is the last statement of the loop body; ints are `Z` (in-degrees) or `N` (lengths).
"""
from __future__ import annotations

import ast
import os
import sys
from pathlib import Path
from typing import Optional

sys.path.insert(0, str(Path(__file__).resolve().parent.parent))
from translator.pyfun import FunSpec, TranslatorAbort, Unit  # noqa: E402

VERIF = Path(__file__).resolve().parent.parent
OUT = VERIF / "coq" / "Gen" / "ToposortGen.v"
SOURCE = ("src", "superrec2", "utils", "toposort.py")

ORDERINGS = "list (list elem)"
TOPOSORT = FunSpec("toposort", {
    "graph": "Graph", "starts": "deque", "indeg": "Indeg", "result": "list", "node": "elem", "succs": "seqset",
    "succ": "elem", "node_from": "elem", "node_to": "elem"}, "option (list elem)", fuel={3: "length graph"})
BACKTRACK = FunSpec("_toposort_all_bt", {
    "starts": "set", "graph": "Graph", "indeg": "Indeg", "results": ORDERINGS, "node_from": "elem", "next_starts": "set",
    "node_to": "elem", "subresult": "list"}, ORDERINGS, rec_fuel="S (length graph)", mutates=("indeg",))
TOPOSORT_ALL = FunSpec("toposort_all", {
    "graph": "Graph", "starts": "set", "indeg": "Indeg", "node": "elem", "succs": "seqset", "succ": "elem",
    "results": ORDERINGS, "subresult": "list"}, ORDERINGS)


def render(repo: Path) -> str:
    path = repo.joinpath(*SOURCE)
    if not path.is_file():
        raise TranslatorAbort(f"{path}:0: source file not found")
    try:
        tree = ast.parse(path.read_text(encoding="utf8"), filename=str(path))
    except SyntaxError as e:
        raise TranslatorAbort(f"{path}:{e.lineno}: syntax error: {e.msg}")
    unit = Unit(path, tree)
    unit.use_containers(set_order="ord")
    unit.imported("deque", "collections")
    for builtin in ("set", "len"):
        if unit.rebinds(builtin):
            raise TranslatorAbort(f"{path}:0: the module binds the name {builtin!r}")
    unit.elemdict("Graph", "seqset")
    unit.elemdict("Indeg", "Z")
    parts = [unit.function(TOPOSORT), unit.function(BACKTRACK), unit.function(TOPOSORT_ALL)]
    return "\n".join([
        "(* GENERATED by translator/toposort_gen.py (via translator/pyfun.py) from",
        "   src/superrec2/utils/toposort.py -- do not edit.  Statement-by-statement translation of [toposort],",
        "   [_toposort_all_bt] and [toposort_all]: an assignment is a shadowing [let], the statements after an [if] are",
        "   a continuation [k'n], each loop is a [Fixpoint] returning [flow] ([Next] state / [Ret] early return /",
        "   [Fail] error).  A dict is the list of its items in insertion order ([adict_get], [None] -> [KeyError];",
        "   [adict_set]); the successor sets of the graph are lists in their iteration order; a deque is the list of",
        "   its items ([popleft]: the head, [IndexError] when empty; [remove]: [seq_remove], [None] -> [ValueError]);",
        "   a set built by the code is a duplicate-free list in insertion order ([set_add], [seq_remove]: [None] ->",
        "   [KeyError], [set_discard]) and [for x in s] iterates [ord s], [ord] being the Section's parameter for",
        "   the iteration order of sets, which Python leaves unspecified.  [_toposort_all_bt] updates [indeg] in",
        "   place: it returns the final dictionary with its result; calling itself, it is a [Fixpoint] on fuel",
        "   ([OutOfFuel]) whose loop over [starts] is a local [fix].  Proofs/ToposortGenProofs.v proves these",
        "   functions equal to Model/Toposort.v. *)",
        "From Coq Require Import List Bool ZArith NArith.",
        "",
        unit.prelude(),
        "Section Gen.",
        "Context {A : Type} (eqb : A -> A -> bool) (ord : list A -> list A).",
        "",
        unit.section_defs(),
        "\n\n".join(parts),
        "",
        "End Gen.",
    ]) + "\n"


def regenerate(repo: Optional[Path] = None, out: Path = OUT) -> bool:
    """Translate and (re)write `out` if its content changed.  Returns True when written."""
    repo = Path(repo if repo is not None else os.environ.get("VERIF_REPO", "/repo"))
    text = render(repo)
    if out.exists() and out.read_text() == text:
        return False
    out.parent.mkdir(parents=True, exist_ok=True)
    tmp = out.with_suffix(".v.tmp")
    tmp.write_text(text)
    tmp.replace(out)
    return True


if __name__ == "__main__":
    try:
        target = Path(sys.argv[2]) if len(sys.argv) > 2 else OUT
        changed = regenerate(Path(sys.argv[1]) if len(sys.argv) > 1 else None, target)
    except TranslatorAbort as e:
        print("TranslatorAbort:", e, file=sys.stderr)
        sys.exit(2)
    print("written" if changed else "unchanged", target)
