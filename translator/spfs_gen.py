"""Fail-closed translator: `$VERIF_REPO/src/superrec2/compute/super_reconciliation.py` -> `coq/Gen/SpfsGen.v`.

Every function of the module -- `_make_prec_graph` (in `Module Prec`, a unit of its own with the element type `A`),
`_make_event_combinator`, `_compute_spfs_entry`, `_compute_spfs_table`, `_decode_spfs_table`, `_spfs`, `sreconcile_base_spfs`,
`sreconcile_extended_spfs`, and the methods `TableProxy.keys` / `TableProxy.__iter__` of `utils/dynamic_programming.py` that
`for x in table[a][b]` runs -- is translated statement by statement by `translator/pyfun.py` (see its docstring, seventh
extension).  The table, its proxies and the entries are the code of `Gen/TableGen.v` and `Gen/EntryGen.v` (imported); the object
tree, `SuperReconciliationInput`, the cost dictionary and the event enums are those of `Gen/EvalGen.v`, whose evaluator computes
`output.cost()`; `toposort_all` is `Gen/ToposortGen.v`'s, `reconcile_lca` `Gen/ThlGen.v`'s, the subsequence functions
`Model/Subseq.v`'s.  Any construct outside the subset, a definition missing or made twice, an import that is not the expected
one, or a variable without a declared type raises `TranslatorAbort` with file:line.  The output file is rewritten only when
its content changes.

THE TEXT UP TO `gen_compute_spfs_table` IS FROZEN (theorems are being stated about it): the error type `err`, the helpers of
the prelude, the `Require` lines and the first two `Context` lines cannot change.  What the later functions need in addition
(two more LCA predicates, the helpers `is_empty` / `dict_get`, the lifts) is therefore
emitted after `gen_compute_spfs_table`, inside the Section, and the
driver aborts if a later function needs an error the frozen `err` does not have.

What this driver supplies, i.e. the assumptions of the tie:

* everything `table_gen.py`, `entry_gen.py`, `eval_gen.py` assume; the three generated files are re-derived from the source under
  translation (same text, or abort) so that the imported declarations are those of the files on disk; everything `thl_gen.py`
  says about species (the inductive `STree`, a node where its identifier `STree_id` is meant, the opaque `species_lca` with
  `lca_is_ancestor_of` / `lca_distance` / `lca_call` / `lca_tree`), about `traverse()` (ete3's level order) and
  `traverse("postorder")`, about binary trees (`a, b = x.children`: ValueError on a leaf), about the table being updated in
  place (`mutates`), about generators, `product`, `infos()` iterated in the order `infos_order` (a Section parameter; the theorems
  need a permutation), about output objects as Records of this file and `==` / hashing of outputs being `output_eqb`;

Stage 1 (`Module Prec`, `_make_prec_graph`):
* `Syntenies` (the `SyntenyMapping` `leaf_syntenies`) is the list of the items of the dictionary in iteration order, of which
  only the values are used (`for .. in leaf_syntenies.values()`); the key component has the type `A` too (a quirk: nothing reads
  it); `prec` is a `dict` keyed by gene families: the association list of its items in insertion order, its values sets
  (duplicate-free lists in insertion order); `d[k] = set()`, `d[k].add(e)` (KeyError when k is absent), `k not in d`,
  `zip(xs[0:-1], xs[1:])` (the pairs of neighbours), `xs[-1]` (IndexError on an empty synteny);

Stages 2-3 (`_make_event_combinator`, `_compute_spfs_entry`, `_compute_spfs_table`):
* the keys of the table are `node_id + sp + N` (`inl (inl _)`: an object node, `inl (inr _)`: a species, `inr _`: a synteny mask),
  compared with `key_eqb`; the tags are `ChildrenAssignment` (NamedTuple -> Record, fields `option ObjectAssignment`: a
  candidate's `info` may be `None`), those of the aggregators `ObjectAssignment`; `MappingChoices` is a Record of five entries;
* `subprobs = tuple(MappingChoices._make(table.entry() for _ in range(len(MappingChoices._fields))) for _ in range(2))` is
  `repeat (mk_MappingChoices e e e e e) 2` with `e = table.entry()` evaluated ONCE: `Table.entry` is declared (and checked)
  pure and returning a new object, so that every evaluation gives the same value or the same error; the ten entries are distinct
  objects in Python and distinct positions here;
* `subprobs[i].f.m(..)` (a statement): the item is read (IndexError), the method run on the entry of its field, the entry put
  back into the item and the item into the tuple; reads `subprobs[<literal>].f` inside a statement are hoisted before it, in
  the order of their first occurrence: reading has no effect, so that this can change WHICH error is reported when a later step
  of the statement fails too, never whether one is;
* `for child_synteny in table[a][b]`: `iter()` of the proxy, i.e. `TableProxy.__iter__` -> `keys()`, translated in this file
  from `dynamic_programming.py` for the instance of the table; the keys are taken when the loop is entered
  (`snapshot_iteration`): the body adds no key to the iterated dictionary (it only reads `table[a][b][child_synteny]`, an
  existing key) -- else Python raises RuntimeError; a key that is not a mask (`inr m`) is the error TypeError (Python would go
  on and fail in `subseq_segment_dist`: the proofs show the third dimension only holds masks); in `keys`,
  `isinstance(cursor, list)` is false (every dimension is a `DictDimension`);
* `tqdm(xs, desc=.., total=.., ascii=.., leave=..)` yields the items of `xs` in order (the progress bar is not modelled); the
  keyword values are evaluated and dropped (the translator checks that they cannot raise); `sum(1 for _ in xs)` is the number of
  items of `xs`; keyword arguments at a call are normalised to positional ones only when they are exactly the next
  parameters, in order (the evaluation order is then unchanged; the parameter names are read from the callee's source);
  `continue`; `root_object.children[i]` (IndexError on a leaf and for i >= 2); `return lambda ..` / `x = f(..)` of a function
  type (pure total Coq functions); `allowed_species` / `allowed_syntenies` are parameters of function type (the annotations
  of `_spfs`, which give them one argument, are ignored: they are called with two);
* `mask_from_subseq`, `subseq_complete`, `subseq_segment_dist` are `Model/Subseq.v`'s total functions (as in `eval_gen.py`);

Stage 4 (`_decode_spfs_table`, `_spfs`, the two entry points):
* `subseq_from_mask(m, l)` is `Model/Subseq.v`'s `subseq_from_mask : N -> list A -> option (list A)`, `None` being the IndexError
  Python raises (`gen_subseq_from_mask`); the list it returns is newly built (`fresh`);
* `if root_object.is_leaf() and not table[..][..][..].is_infinite(): ..` is the nested `if` it abbreviates (the table is read
  only when the object is a leaf);
* `info.left.species`: AttributeError when `info.left` is `None` (what Python raises: `None` has no attribute `species`; each
  of `info.left.species`, `info.left.synteny` evaluates `info.left` again).  Unlike `thl_gen.py` no `NoneValue` is needed;
* `SuperReconciliationOutput(input=.., object_species=.., syntenies=.., ordered=True)`: the Record `spout_state` of this file,
  the two dictionaries as the lists of their stores, newest first (`{k: v, **l, **r}` is `r ++ l ++ [(k, v)]`); the fields
  are declared in the positional order of the dataclass (those of `ReconciliationOutput` first), which is what the keyword
  call is normalised against; `output.cost()` is `gen_soutput_cost`: `EvalGen.gen_super_cost` on the dictionaries read as
  functions, an absent key answering the Section's `missing` / `missing_syn` (Python: KeyError; the evaluator only looks up
  nodes of the object tree, which are all keys);
* `_decode_spfs_table` is consumed at once by `*map(lambda output: Candidate(output.cost(), output), ..)`: all the outputs are
  produced, then their costs computed, whereas Python interleaves the two (which error is reported may differ when both the
  decoding and a cost fail, never whether one is);
* BINARY INPUTS ONLY: `srec_input.binarize()` is the one-item sequence `[srec_input]` (`Unit.singleton_methods`): the object
  tree is already binary (the type `TreeNode` has no other trees) and `binarize` then yields the input itself, once;
  `srec_input_bin.label_internal()` only names internal nodes that have no name -- nothing the translation models -- and cannot
  raise: no statement (`Unit.noop_methods`);
* `synteny_tree not in leaf_syntenies`: a `SyntenyMapping` is a total function from node identifiers in `Gen/EvalGen.v`, so that
  membership is the Section parameter `syn_mem`, and the items of the dictionary, which `_make_prec_graph` iterates, the Section
  parameter `syn_items` (the theorems instantiate both from one dictionary); `_make_prec_graph(leaf_syntenies)` is
  `Prec.gen_make_prec_graph fam_eqb (syn_items leaf_syntenies)`, `toposort_all(prec_graph)` `ToposortGen.gen_toposort_all fam_eqb
  set_order (graph_of_prec prec_graph)` -- `graph_of_prec` gives each successor set the order in which Python iterates it,
  `set_order` is `Gen/ToposortGen.v`'s order parameter (the theorems need permutations) --, both with their errors lifted;
  the value of `toposort_all` (a list of lists) and the tuple `(leaf_syntenies[synteny_tree],)` are only truth-tested and
  iterated: `root_orderings` is declared an immutable sequence (`tuple (list fam)`);
* `if not root_orderings: cycle = find_cycle(prec_graph); if cycle: print(.., file=sys.stderr)` has no effect on the result:
  `find_cycle` is a pure total function (Section parameter `find_cycle_fn`; `None` and the empty list are both falsy: a list),
  the `print` to `sys.stderr` a statement without modelled effect whose message -- an f-string over `', '.join(cycle)` -- cannot
  raise because gene families are strings;
* `obj == srec_input.object_tree` on ete3 nodes is the identity of the objects: `node_id_eqb` on the identifiers;
  `range(2 ** len(ordering))`, `(subseq_complete(ordering),)`, `species.traverse("postorder")` as the values of the lambdas: the
  lists of the items they yield (`_compute_spfs_table` only iterates them, through `product`);
* `reconcile_lca(srec_input)` (base variant) is `ThlGen.gen_reconcile_lca` on the four fields a `SuperReconciliationInput`
  shares with a `ReconciliationInput` (the function only reads those), of whose output the dictionary `object_species` is kept;
  `ThlGen.NoneValue`, which that function never produces, is lifted to AttributeError (the error type is frozen);
* DEVIATION (base variant): `lambda _, obj: [rec_output.object_species[obj]]` is `fun _ obj => base_species <species tree>
  rec_output obj`, a TOTAL function: where Python raises KeyError (`obj` is not a key of the dictionary) it answers NO ALLOWED
  SPECIES (the empty list) instead of an error -- a closure of the translated subset cannot raise; the proofs about the base
  variant must show that case unreachable (`reconcile_lca` maps every node of the object tree).  A species (an identifier of
  type `sp` in `Gen/ThlGen.v`'s output) is identified with the node of the species tree carrying that identifier (the first
  one in post-order; none: the empty list as well).
"""
from __future__ import annotations

import ast
import os
import sys
from pathlib import Path
from typing import Optional

sys.path.insert(0, str(Path(__file__).resolve().parent.parent))
from translator.pyfun import ClassSpec, DataSpec, FunSpec, TranslatorAbort, Unit  # noqa: E402

VERIF = Path(__file__).resolve().parent.parent
OUT = VERIF / "coq" / "Gen" / "SpfsGen.v"
SOURCE = ("src", "superrec2", "compute", "super_reconciliation.py")

PREC = FunSpec("_make_prec_graph", {
    "leaf_syntenies": "Syntenies", "prec": "PrecGraph", "leaf_synteny": "list", "gene_1": "elem", "gene_2": "elem"},
    "PrecGraph", alias="make_prec_graph")


def _parse(path: Path) -> ast.Module:
    if not path.is_file():
        raise TranslatorAbort(f"{path}:0: source file not found")
    try:
        return ast.parse(path.read_text(encoding="utf8"), filename=str(path))
    except SyntaxError as e:
        raise TranslatorAbort(f"{path}:{e.lineno}: syntax error: {e.msg}")


def prec_part(repo: Path) -> str:
    path = repo.joinpath(*SOURCE)
    unit = Unit(path, _parse(path))
    unit.use_containers()
    unit.use_seventh()
    for builtin in ("set", "zip"):
        if unit.rebinds(builtin):
            raise TranslatorAbort(f"{path}:0: the module binds the name {builtin!r}")
    unit.elemdict("Syntenies", "list")
    unit.elemdict("PrecGraph", "set")
    fun = unit.function(PREC)
    return "\n".join([
        "Module Prec.",
        unit.prelude(),
        "Section Gen.",
        "Context {A : Type} (eqb : A -> A -> bool).",
        "",
        unit.section_defs(),
        fun,
        "",
        "End Gen.",
        "End Prec.",
    ])


from translator import eval_gen, table_gen, thl_gen  # noqa: E402

DP = "..utils.dynamic_programming"
LCA_METHODS = thl_gen.LCA_METHODS
OBJ_ASSIGN = DataSpec("ObjectAssignment", {"species": "sp", "synteny": "N"})
CHILD_ASSIGN = DataSpec("ChildrenAssignment", {"left": "option elem", "right": "option elem"})
CHOICES = DataSpec("MappingChoices", {"left": "Entry", "right": "Entry", "conserved": "Entry", "segment": "Entry",
                                      "separate": "Entry"})
COMB = "Candidate -> Candidate -> Candidate2"
COMBINATOR = FunSpec("_make_event_combinator", {"event_cost": "ext", "left": "Candidate", "right": "Candidate"}, COMB,
                     alias="make_event_combinator")
ENTRY_FUN = FunSpec("_compute_spfs_entry", {
    "species_lca": "LowestCommonAncestor", "root_species": "STree", "root_synteny": "N", "root_object": "TreeNode",
    "table": "Table2", "costs": "CostValues", "sloss_cost": "Z", "floss_cost": "Z", "subprobs": "tuple MappingChoices",
    "child_index": "N", "child_object": "TreeNode", "desc_species": "STree", "child_synteny": "N", "conserv_segments": "Z",
    "conserv_dist": "Z", "segment_dist": "Z", "sub_cost": "ext", "assignment": "ObjectAssignment", "above_species_dist": "Z",
    "left_species": "STree", "right_species": "STree", "is_left_desc": "bool", "is_right_desc": "bool", "species_dist": "Z",
    "spe_comb": COMB, "dup_comb": COMB, "hgt_comb": COMB}, "unit", alias="compute_spfs_entry", mutates=("table",))


TP_KEYS = FunSpec("keys", {"entry": "cursor", "item": "K"}, "list K", alias="tproxy_keys", generator=True)
TP_ITER = FunSpec("__iter__", {}, "list K", alias="tproxy_iter")


SUBSEQ_SOURCE = ("src", "superrec2", "utils", "subsequences.py")


def param_names(repo: Path, source, name: str):
    """The parameter names of the module-level function `name` of another source file (for keyword arguments)."""
    path = repo.joinpath(*source)
    defs = [n for n in _parse(path).body if isinstance(n, ast.FunctionDef) and n.name == name]
    if len(defs) != 1 or defs[0].args.vararg or defs[0].args.kwarg or defs[0].args.kwonlyargs or defs[0].args.posonlyargs:
        raise TranslatorAbort(f"{path}:0: {name} is not defined exactly once with plain parameters")
    return [a.arg for a in defs[0].args.args]


SIN = "SuperReconciliationInput"
TABLE_FUN = FunSpec("_compute_spfs_table", {
    "srec_input": SIN, "root_ordering": "list fam", "allowed_species": "STree -> TreeNode -> list STree",
    "allowed_syntenies": "list fam -> TreeNode -> list N", "retention_policy": "RetentionPolicy", "table": "Table2",
    "root_object": "TreeNode", "synteny": "N", "species": "sp", "options_count": "N", "root_species": "STree",
    "root_synteny": "N"}, "Table2", alias="compute_spfs_table", fresh=True)


SOUT = "SuperReconciliationOutput"
DECODE = FunSpec("_decode_spfs_table", {
    "root_ordering": "list fam", "root_object": "TreeNode", "root_species": "sp", "root_synteny": "N", "srec_input": SIN,
    "table": "Table2", "resolv_synteny": "list fam", "info": "ChildrenAssignment", "left_object": "TreeNode",
    "right_object": "TreeNode", "mappings": f"list (pair {SOUT} {SOUT})", "map_left": SOUT, "map_right": SOUT},
    f"list {SOUT}", alias="decode_spfs_table", generator=True, rec_on="root_object", mutates=("table",))
OUTPUT_COST = FunSpec("cost", {}, "ext")
EVAL_FUNS = "fam_eqb node_id_eqb " + thl_gen.EVAL_FUNS


SPFS = FunSpec("_spfs", {
    "srec_input": SIN, "policy": "RetentionPolicy", "allowed_species": "STree -> TreeNode -> list STree",
    "allowed_syntenies": "list fam -> TreeNode -> list N", "results": "Entry3", "srec_input_bin": SIN,
    "synteny_tree": "TreeNode", "leaf_syntenies": "SyntenyMapping", "prec_graph": "PrecGraph",
    "root_orderings": "tuple (list fam)", "cycle": "tuple fam", "root_ordering": "list fam", "table": "Table2",
    "root_species": "STree", "output": SOUT}, "set3", alias="spfs")


EXT = FunSpec("sreconcile_extended_spfs", {
    "srec_input": SIN, "policy": "RetentionPolicy", "species": "STree", "_": "TreeNode", "ordering": "list fam",
    "obj": "TreeNode"}, "set3", alias="sreconcile_extended_spfs")


BASE = FunSpec("sreconcile_base_spfs", {
    "srec_input": SIN, "policy": "RetentionPolicy", "rec_output": "LcaOutput", "_": "STree", "obj": "TreeNode",
    "ordering": "list fam"}, "set3", alias="sreconcile_base_spfs")
SUPER_COST_ARGS = "fam sp lca node_id fam_eqb node_id_eqb sp_eqb lca_is_ancestor_of lca_is_strict_ancestor_of lca_is_comparable lca_call lca_distance"


def _lift(alias: str, name: str, errs, renamed=None) -> str:
    """A driver-written conversion of the results of another generated file / module (same style as `entry_res`)."""
    renamed = renamed or {}
    return "\n".join(
        [f"Definition {name}_err (e : {alias}.err) : err :=", "  match e with"]
        + [f"  | {alias}.{c} => {renamed.get(c, c)}" for c in errs]
        + ["  end.",
           f"Definition {name}_res {{X : Type}} (r : {alias}.res X) : res X :=",
           f"  match r with {alias}.Ok x => Ok x | {alias}.Err e => Err ({name}_err e) end."])


def late_part(repo: Path, unit: Unit) -> str:
    """The functions after `_compute_spfs_table` (stage 4), with the declarations they need.  The text before it is frozen
    (theorems are stated about it): the error type, the helpers of the prelude, the `Require`s and the first `Context`
    lines cannot change any more, so that what stage 4 needs in addition is emitted here, inside the Section."""
    unit.insts = dict(unit.insts, **{"3": ("spout_state", "output_eqb")})
    unit.nodedict("SpeciesDict", "TreeNode", "sp", eqb="node_id_eqb")
    unit.nodedict("SyntenyDict", "TreeNode", "list fam", eqb="node_id_eqb")
    output = unit.record_class(SOUT, "..model.reconciliation", "spout",
                               {"input": SIN, "object_species": "SpeciesDict", "syntenies": "SyntenyDict", "ordered": "bool"},
                               [(OUTPUT_COST, "gen_soutput_cost")])
    unit.same_type("elem3", SOUT)
    unit.external_res("subseq_from_mask", eval_gen.SUBSEQ, ["N", "list fam"], "list fam", "gen_subseq_from_mask", fresh=True)
    helpers0 = set(unit.helpers)
    decode = unit.function(DECODE)
    # _spfs
    unit.opaque("PrecGraph", "(list (fam * list fam))")
    unit.external_res("_make_prec_graph", None, ["SyntenyMapping"], "PrecGraph", "gen_make_prec_graph_syn")
    unit.external_res("toposort_all", "..utils.toposort", ["PrecGraph"], "tuple (list fam)", "gen_toposort_all_prec")
    unit.external("find_cycle", "..utils.toposort", ["PrecGraph"], "tuple fam", "find_cycle_fn")
    unit.mapping_mem["SyntenyMapping"] = "syn_mem"
    unit.singleton_methods.add((SIN, "binarize"))
    unit.noop_methods.add((SIN, "label_internal"))
    unit.stderr_print = True
    spfs = unit.function(SPFS)
    # the two entry points
    unit.kwparams["_spfs"] = param_names(repo, SOURCE, "_spfs")
    unit.tree_eqb["TreeNode"] = "node_id_eqb"
    unit.opaque("LcaOutput", "(list (node_id * sp))")
    unit.attrs_of("LcaOutput", {"object_species": ("SpeciesDict", "lca_object_species")})
    unit.external_res("reconcile_lca", ".reconciliation", [SIN], "LcaOutput", "gen_reconcile_lca_super")
    unit.lookup_lists[("SpeciesDict", "list STree")] = "base_species (lca_tree (EvalGen.sin_species_lca srec_input)) {d} {k}"
    base = unit.function(BASE)
    ext = unit.function(EXT)
    unit.helpers.add("dict_get")
    from translator.pyfun import HELPERS, HELPER_DEPS
    late = set()
    for h in unit.helpers - helpers0:
        late.add(h)
        late.update(HELPER_DEPS.get(h, []))
    late -= helpers0
    late_helpers = [HELPERS[k] for k in HELPERS if k in late]
    if len(late_helpers) != len(late):
        raise TranslatorAbort(f"{repo.joinpath(*SOURCE)}:0: a helper the later functions need cannot be emitted inside the Section: {sorted(late)}")
    return "\n".join([
        "(* ---------------------------------------------------------------------------------------------------------------",
        "   _decode_spfs_table, _spfs, sreconcile_base_spfs, sreconcile_extended_spfs.  The text above is frozen (theorems",
        "   are stated about it); what these functions need in addition is declared here. *)",
        "Context (lca_is_strict_ancestor_of lca_is_comparable : lca -> sp -> sp -> bool).",
        "",
        "\n\n".join(late_helpers),
        "",
        "(* the results of Module Prec (above), of Gen/ToposortGen.v and of Gen/ThlGen.v in the result type of this file: an",
        "   error is the error of the same name.  [ThlGen.NoneValue] has no counterpart here (the error type of this file",
        "   is frozen); [gen_reconcile_lca], the only function of Gen/ThlGen.v called, has no site that produces it *)",
        _lift("Prec", "prec", ["IndexError", "OutOfFuel", "KeyError"]),
        _lift("SR.Gen.ToposortGen", "toposort", ["IndexError", "OutOfFuel", "ValueError", "KeyError"]),
        _lift("SR.Gen.ThlGen", "thl", ["IndexError", "OutOfFuel", "AssertionError", "TypeError", "ValueError", "KeyError",
                                       "AttributeError", "NoneValue"], {"NoneValue": "AttributeError"}),
        "",
        "(* subseq_from_mask (utils/subsequences.py) is Model/Subseq.v's function; None is the IndexError of parent[parent_i] *)",
        "Definition gen_subseq_from_mask (m : N) (l : list fam) : res (list fam) :=",
        "  match subseq_from_mask m l with Some y => Ok y | None => Err IndexError end.",
        "",
        output,
        "Context (output_eqb : spout_state -> spout_state -> bool) (missing : node_id -> sp) (missing_syn : node_id -> list fam)",
        "        (infos_order : list ChildrenAssignment -> list ChildrenAssignment).",
        "(* leaf_syntenies as a dictionary: membership of a node, its items in iteration order (the key component is not used:",
        "   Module Prec only reads the values); the iteration orders of the sets handled by toposort_all; find_cycle *)",
        "Context (syn_mem : (node_id -> list fam) -> node_id -> bool) (syn_items : (node_id -> list fam) -> list (fam * list fam))",
        "        (set_order : list fam -> list fam) (graph_of_prec : list (fam * list fam) -> list (fam * list fam))",
        "        (find_cycle_fn : list (fam * list fam) -> list fam).",
        "",
        "(* output.cost(): the evaluator of Gen/EvalGen.v on the two dictionaries read as functions (a key that is absent -- a",
        "   KeyError in Python -- answers [missing] / [missing_syn]; the evaluator only looks up the nodes of the object tree) *)",
        "Definition dict_fun (d : list (node_id * sp)) (i : node_id) : sp :=",
        "  match dict_get node_id_eqb d i with Some s => s | None => missing i end.",
        "Definition dict_fun_syn (d : list (node_id * list fam)) (i : node_id) : list fam :=",
        "  match dict_get node_id_eqb d i with Some s => s | None => missing_syn i end.",
        "Definition gen_soutput_cost (o : spout_state) : res (spout_state * ext) :=",
        f"  match eval_res (@EvalGen.gen_super_cost {SUPER_COST_ARGS}",
        "                    (EvalGen.mk_sout (spout_input o) (dict_fun (spout_object_species o))",
        "                                     (dict_fun_syn (spout_syntenies o)) (spout_ordered o))) with",
        "  | Err e => Err e",
        "  | Ok (_, c) => Ok (o, c)",
        "  end.",
        "",
        "(* _make_prec_graph(leaf_syntenies): the function of Module Prec on the items of the dictionary *)",
        "Definition gen_make_prec_graph_syn (d : node_id -> list fam) : res (list (fam * list fam)) :=",
        "  prec_res (@Prec.gen_make_prec_graph fam fam_eqb (syn_items d)).",
        "(* toposort_all(prec_graph): the function of Gen/ToposortGen.v; [graph_of_prec] gives each successor set the order in",
        "   which Python iterates it *)",
        "Definition gen_toposort_all_prec (g : list (fam * list fam)) : res (list (list fam)) :=",
        "  toposort_res (@SR.Gen.ToposortGen.gen_toposort_all fam fam_eqb set_order (graph_of_prec g)).",
        "(* reconcile_lca(srec_input): the function of Gen/ThlGen.v on the four fields a SuperReconciliationInput shares with a",
        "   ReconciliationInput; of its output only the dictionary object_species is kept *)",
        "Definition gen_reconcile_lca_super (i : EvalGen.sin_state fam sp lca node_id) : res (list (node_id * sp)) :=",
        "  match thl_res (@SR.Gen.ThlGen.gen_reconcile_lca sp lca node_id node_id_eqb lca_call",
        "                   (EvalGen.mk_rin (EvalGen.sin_object_tree i) (EvalGen.sin_species_lca i)",
        "                                   (EvalGen.sin_leaf_object_species i) (EvalGen.sin_costs i))) with",
        "  | Err e => Err e",
        "  | Ok o => Ok (SR.Gen.ThlGen.tout_object_species o)",
        "  end.",
        "Definition lca_object_species (d : list (node_id * sp)) : list (node_id * sp) := d.",
        "(* [rec_output.object_species[obj]] in sreconcile_base_spfs: the species node carrying the identifier the dictionary",
        "   holds for obj.  DEVIATION: total -- no allowed species where Python raises KeyError (obj is not a key) *)",
        "Definition base_species (t : STree) (d : list (node_id * sp)) (obj : EvalGen.TreeNode node_id) : list STree :=",
        "  match dict_get node_id_eqb d (EvalGen.TreeNode_id obj) with",
        "  | Some s => match find (fun n => sp_eqb (STree_id n) s) (STree_postorder t) with Some n => cons n nil | None => nil end",
        "  | None => nil",
        "  end.",
        "",
        decode,
        "",
        spfs,
        "",
        base,
        "",
        ext,
    ])


def solver_part(repo: Path):
    path = repo.joinpath(*SOURCE)
    entries = table_gen.entry_unit(repo)
    tables, _ = table_gen.build(repo)
    evals = thl_gen.eval_unit(repo)
    unit = Unit(path, _parse(path), truthy_elem=True, extended=True)
    unit.products = True
    unit.use_tables()
    unit.use_seventh()
    unit.insts = {"": ("ObjectAssignment", "ObjectAssignment_eqb"), "2": ("ChildrenAssignment", "ChildrenAssignment_eqb")}
    unit.use_product()
    unit.unwrap_none = True
    unit.set_orders["2"] = "infos_order"
    unit.opaque("ext", "ext", eqb="ext_eqb", ltb="ext_ltb", leb="ext_leb")
    unit.numbers("ext", add="ext_add", of_Z="Fin")
    unit.opaque("sp", "sp", eqb="sp_eqb")
    unit.opaque("K", "key", eqb="key_eqb")
    unit.opaque("fam", "fam", eqb="fam_eqb")
    unit.opaque("LowestCommonAncestor", "lca")
    lifts = [unit.import_unit(entries, "EntryGen", "entry_res", {"Candidate": "{A}", "Entry": "{A}"},
                              heads={("Entry", "combine"): "(@EntryGen.gen_entry_combine {A} {A2} {eqb2})"})]
    for name in ("Candidate", "MergePolicy", "RetentionPolicy", "Entry", "Table", "DictDimension"):
        unit.imported(name, DP)
    kA = "key {A}"
    lifts.append(unit.import_unit(
        tables, "TableGen", "table_res",
        {"Table": kA, "EntryProxy": kA, "TableProxy": kA, "Proxy": kA, "Cell": kA, "Combined": kA + " ObjectAssignment", "DictDimension": ""},
        heads={("Table", "entry"): "(@TableGen.gen_table_entry2 key {A} ObjectAssignment)"},
        var_terms={"keqb": "key_eqb", "eqb2": "ChildrenAssignment_eqb"},
        choose={("Table", "entry"): "table_entry2"}, rets={("Table", "entry"): "Entry"}))
    lifts.append(unit.import_unit(
        evals, "EvalGen", "eval_res",
        {"TreeNode": "node_id", "ReconciliationInput": thl_gen.EVAL_ARGS, "SuperReconciliationInput": "fam " + thl_gen.EVAL_ARGS},
        skip=("ReconciliationOutput", "SuperReconciliationOutput")))
    # the leaf syntenies are lists of gene families (the element type A of Gen/EvalGen.v, here [fam])
    unit.mappings["SyntenyMapping"] = ("TreeNode", "list fam")
    for name in ("SuperReconciliationInput", "NodeEvent", "EdgeEvent", "CostValues"):
        unit.imported(name, "..model.reconciliation")
    stree = unit.bintree("STree", "sp")
    unit.methods_of("LowestCommonAncestor", LCA_METHODS, call=thl_gen.LCA_CALL)
    unit.attrs_of("LowestCommonAncestor", {"tree": ("STree", "lca_tree")})
    unit.coercion("STree", "sp", "STree_id {}")
    unit.coercion("STree", "K", "inl (inr (STree_id {}))")
    unit.coercion("sp", "K", "inl (inr {})")
    unit.coercion("TreeNode", "K", "inl (inl (EvalGen.TreeNode_id {}))")
    unit.coercion("N", "K", "inr {}")
    unit.snapshot_iteration = True
    unit.narrowings[("K", "N")] = ("inr {}", "TypeError")
    oa = unit.namedtuple(OBJ_ASSIGN, {"species": "sp_eqb", "synteny": "N.eqb"})
    unit.same_type("elem", "ObjectAssignment")
    ca = unit.namedtuple(CHILD_ASSIGN, {"left": "(option_eqb ObjectAssignment_eqb)", "right": "(option_eqb ObjectAssignment_eqb)"})
    unit.same_type("elem2", "ChildrenAssignment")
    mc = unit.namedtuple(CHOICES, {k: "(fun _ _ => true)" for k in CHOICES.fields})
    unit.external("subseq_segment_dist", eval_gen.SUBSEQ, ["N", "N", "bool"], "Z", "seg_dist")
    unit.kwparams["subseq_segment_dist"] = param_names(repo, SUBSEQ_SOURCE, "subseq_segment_dist")
    # the methods added to TableProxy / Proxy are translated for the instance of the table (tags: ChildrenAssignment)
    saved = unit.insts
    unit.insts = {"": saved["2"]}
    keys = [unit.method("TableProxy", TP_KEYS, other=tables), unit.method("TableProxy", TP_ITER, other=tables),
            unit.union_methods("Proxy", [FunSpec("__iter__", {}, "list K")], extend=True)]
    unit.insts = saved
    for k in (("TableProxy", "keys"), ("TableProxy", "__iter__"), ("Proxy", "__iter__")):
        unit.local_sfx[k] = "2"
    unit.external("mask_from_subseq", eval_gen.SUBSEQ, ["list fam", "list fam"], "N", "(mask_from_subseq fam_eqb)")
    unit.external("subseq_complete", eval_gen.SUBSEQ, ["list fam"], "N", "(@subseq_complete fam)")
    unit.use_tqdm()
    parts = keys + [unit.function(COMBINATOR), unit.function(ENTRY_FUN), unit.function(TABLE_FUN)]
    travs = [unit.traversal_defs("STree"), unit.traversal_defs("TreeNode")]
    prelude = unit.prelude()        # the error type and the helpers are those of stages 1-3 (theorems are stated about them)
    frozen_errors = set(unit.errors)
    late = late_part(repo, unit)
    if set(unit.errors) != frozen_errors:
        raise TranslatorAbort(f"{path}:0: the later functions need the errors {sorted(set(unit.errors) - frozen_errors)}, "
                              "which the error type of this file does not have")
    text = "\n".join([
        "From SR Require Import Base.Ext Model.Subseq.",
        "From SR Require Gen.EntryGen Gen.TableGen Gen.EvalGen Gen.ThlGen Gen.ToposortGen.",
        "Module EntryGen := SR.Gen.EntryGen.",
        "Module TableGen := SR.Gen.TableGen.",
        "Module EvalGen := SR.Gen.EvalGen.",
        "",
        prelude,
        "\n".join(lifts),
        "",
        "(* a == b on two optional values *)",
        "Definition option_eqb {X : Type} (f : X -> X -> bool) (a b : option X) : bool :=",
        "  match a, b with Some x, Some y => f x y | None, None => true | _, _ => false end.",
        "",
        "Section Gen.",
        "Context {fam sp lca node_id : Type} (fam_eqb : fam -> fam -> bool) (sp_eqb : sp -> sp -> bool) (node_id_eqb : node_id -> node_id -> bool).",
        "Context (lca_is_ancestor_of : lca -> sp -> sp -> bool) (lca_call : lca -> sp -> sp -> sp) (lca_distance : lca -> sp -> sp -> Z).",
        "",
        "Definition key : Type := (node_id + sp + N)%type.",
        "Definition key_eqb (a b : key) : bool :=",
        "  match a, b with",
        "  | inl (inl x), inl (inl y) => node_id_eqb x y | inl (inr x), inl (inr y) => sp_eqb x y | inr x, inr y => N.eqb x y",
        "  | _, _ => false end.",
        "",
        stree,
        "Context (lca_tree : lca -> STree).",
        "",
        "\n\n".join(travs),
        "",
        oa, "", ca, "", mc, "",
        "\n\n".join(parts),
        "",
        late,
        "",
        "End Gen.",
    ])
    return unit, text


def render(repo: Path) -> str:
    return "\n".join([
        "(* GENERATED by translator/spfs_gen.py (via translator/pyfun.py) from",
        "   src/superrec2/compute/super_reconciliation.py (and, for TableProxy.keys / __iter__, from",
        "   src/superrec2/utils/dynamic_programming.py) -- do not edit.  Statement-by-statement translation of the ordered",
        "   super-reconciliation solvers: [Module Prec]: [_make_prec_graph] (a dict of sets: the association list of its items",
        "   in insertion order); [Section Gen]: [_make_event_combinator], [_compute_spfs_entry], [_compute_spfs_table],",
        "   [_decode_spfs_table] (a generator: the list of what it yields), [_spfs], [sreconcile_base_spfs],",
        "   [sreconcile_extended_spfs].  An assignment is a shadowing [let], the statements after an [if] a continuation",
        "   [k'n], each loop a [Fixpoint] returning [flow]; the table ([Gen/TableGen.v], three dictionary dimensions: object",
        "   node, species, synteny mask) is updated in place: the functions that take it return it.  The assumptions of the",
        "   translation are listed in the docstring of translator/spfs_gen.py.  Proofs/SpfsGenProofs.v proves these functions,",
        "   at root paths, equal to Model/Spfs.v. *)",
        "From Coq Require Import List Bool ZArith NArith.",
        "",
        prec_part(repo),
        "",
        solver_part(repo)[1],
    ]) + "\n"


def regenerate(repo: Optional[Path] = None, out: Path = OUT) -> bool:
    repo = Path(repo if repo is not None else os.environ.get("VERIF_REPO", "/repo"))
    text = render(repo)
    if out.exists() and out.read_text() == text:
        return False
    out.parent.mkdir(parents=True, exist_ok=True)
    tmp = out.with_suffix(".v.tmp")
    tmp.write_text(text)
    tmp.replace(out)
    return True


if __name__ == "__main__":
    try:
        target = Path(sys.argv[2]) if len(sys.argv) > 2 else OUT
        changed = regenerate(Path(sys.argv[1]) if len(sys.argv) > 1 else None, target)
    except TranslatorAbort as e:
        print("TranslatorAbort:", e, file=sys.stderr)
        sys.exit(2)
    print("written" if changed else "unchanged", target)
