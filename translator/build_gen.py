"""Fail-closed translator: `tree_from_triples` and `all_trees_from_triples` of `$VERIF_REPO/src/superrec2/utils/trees.py`
-> `coq/Gen/BuildGen.v`.

The function (BUILD / OneTree of [Ng and Wormald, 1996]) is translated statement by statement by `translator/pyfun.py` (see
its docstring -- ninth extension -- for the handled subset and the shape of the output) as `gen_tree_from_triples`, a
`Fixpoint` on fuel `S (length leaves)`; the `DisjointSet` it uses is the generated class of `Gen/DsuGen.v`
(`translator/dsu_gen.py`, imported with `Unit.import_unit`: `DisjointSet(n)`, `unite`, `__len__`, `to_list` are calls of
`DsuGen.gen_dsu_*`, their errors the errors of the same name).  `coq/Proofs/BuildGenProofs.v` proves the generated function
equal to the hand-written model `coq/Model/Triples.v` (`tree_from_triples`, i.e. `build`).  Any construct outside the subset,
a definition missing or made twice, or a variable without a declared type raises `TranslatorAbort` with file:line.  The
output file is rewritten only when its content changes.

Declared types (the assumptions of the tie):
* leaf names (`str` in Python) are the element type `A` of the Section, compared with `eqb` (`==`; nothing else is done
  with a name); `leaves: list A`; a triple is a 3-tuple of names (`Triple = (A * A * A)`), `triples: list Triple`;
* `leaf_index` is a dictionary from names to positions (`LeafIndex`: the list of its items in insertion order; a name that
  occurs again keeps its place and takes the later position; `leaf_index[x]` on a missing name is `KeyError`);
* `group` is a list of non-negative ints (what `DisjointSet.to_list` yields), `partition` a `DisjointSet`;
* ete3 nodes: `Tree` (= `TreeNode`, `from ete3 import Tree`) values are only BUILT: `Tree()` / `Tree(name=x)` is a new node
  without children (`Tree_node None nil` / `Tree_node (Some x) nil`: the name given, `None` when none is given -- ete3 then
  stores its default name ''), `root.add_child(t)` appends `t` to the children of `root`
  (`Tree_add_child`).  The `up` pointer, distances, supports and features of ete3 nodes are not represented: the
  translated code never reads them.  ASSUMPTIONS about ete3 (read off ete3/coretype/tree.py, 3.1.3): `TreeNode.__init__`
  with no newick creates a node without children whose name is the `name` argument; `add_child(child)` appends `child` to
  `children` and returns; `TreeNode.__bool__` returns True, so that `if not subtree` is `if subtree is None`.
  The function returns `option Tree` (`None`: Python's None).
* the recursion `tree_from_triples(group_leaves, group_triples)`: fuel `S (length leaves)`; the proofs show it suffices
  whenever the model's own fuel (`length leaves`) does, in particular for all duplicate-free leaf lists and triples over them.

`all_trees_from_triples` (AllTrees): its local function `_all_trees_from_triples` is `gen_all_trees_aux` (checked closed: it
mentions no variable of the enclosing function; a `Fixpoint` on fuel `S (length leaves)`), the function itself
`gen_all_trees_from_triples`; `coq/Proofs/AllTreesGenProofs.v` proves that it returns exactly the model's list whenever the
model (`all_trees`) returns one.  Further declared types / assumptions: `partition.binary()` is `DsuGen.gen_dsu_binary ord`, `ord`
(a Section variable `list N -> list N`) being the iteration order of the set inside `binary` (see `translator/dsu_gen.py`; the
theorems hold for every `ord`); the partitions it returns are iterated by value (`to_list` on one of them compresses paths in
that object only, which nothing else reads); `groups` is a `list (list N)`, `groups_leaves` a list of lists of names,
`groups_triples` a list of lists of triples; `product(f(..), f(..))` evaluates the two calls in order, then iterates the pairs in
`itertools.product` order (`from itertools import product`, checked); `left_tree.copy()` (ete3: a deep copy) of a built tree is
the same value; the result is the list of the built trees.
"""
from __future__ import annotations

import ast
import os
import sys
from pathlib import Path
from typing import Optional

sys.path.insert(0, str(Path(__file__).resolve().parent.parent))
from translator.pyfun import FunSpec, TranslatorAbort, Unit  # noqa: E402
from translator import dsu_gen  # noqa: E402

VERIF = Path(__file__).resolve().parent.parent
OUT = VERIF / "coq" / "Gen" / "BuildGen.v"
SOURCE = ("src", "superrec2", "utils", "trees.py")

BUILD = FunSpec("tree_from_triples", {
    "leaves": "list", "triples": "list Triple", "root": "Tree", "partition": "DisjointSet", "leaf_index": "LeafIndex",
    "leaf": "elem", "i": "N", "left": "elem", "right": "elem", "group": "list N", "group_leaves": "list", "item": "N",
    "group_triples": "list Triple", "triple": "Triple", "subtree": "option Tree"},
    "option Tree", rec_fuel="S (length leaves)")


ALL_AUX = FunSpec("_all_trees_from_triples", {
    "leaves": "list", "triples": "list Triple", "root": "Tree", "partition": "DisjointSet", "leaf_index": "LeafIndex",
    "leaf": "elem", "index": "N", "left": "elem", "right": "elem", "results": "list Tree", "bin_partition": "DisjointSet",
    "groups": "list (list N)", "groups_leaves": "list (list elem)", "group": "list N", "item": "N",
    "groups_triples": "list (list Triple)", "triple": "Triple", "group_leaves": "list", "left_tree": "Tree",
    "right_tree": "Tree"},
    "list Tree", alias="all_trees_aux", rec_fuel="S (length leaves)", fresh=True)
ALL = FunSpec("all_trees_from_triples", {"leaves": "list", "triples": "list Triple"}, "list Tree")


def build(repo: Path):
    path = repo.joinpath(*SOURCE)
    if not path.is_file():
        raise TranslatorAbort(f"{path}:0: source file not found")
    try:
        tree = ast.parse(path.read_text(encoding="utf8"), filename=str(path))
    except SyntaxError as e:
        raise TranslatorAbort(f"{path}:{e.lineno}: syntax error: {e.msg}")
    dsu, _ = dsu_gen.build(repo)
    unit = Unit(path, tree, extended=True)
    unit.use_containers()
    unit.use_tables()
    unit.use_seventh()
    unit.use_ninth()
    lift = unit.import_unit(dsu, "DsuGen", "dsu_res", {}, var_terms={"ord": "ord"})
    unit.use_product()
    unit.imported("DisjointSet", ".disjoint_set")
    unit.elemdict("LeafIndex", "N")
    unit.tuple9("Triple", ["elem", "elem", "elem"])
    tree_def = unit.buildtree9("Tree", "ete3", "elem")
    fun = unit.function(BUILD)
    all_aux = unit.local_function(None, "all_trees_from_triples", ALL_AUX)
    all_fun = unit.function(ALL)
    text = "\n".join([
        "(* GENERATED by translator/build_gen.py (via translator/pyfun.py) from src/superrec2/utils/trees.py -- do not edit.",
        "   Statement-by-statement translation of [tree_from_triples]: an assignment is a shadowing [let], the statements",
        "   after an [if] a continuation [k'n], each loop a [Fixpoint] / local [fix] returning [flow]; the recursion is a",
        "   [Fixpoint] on fuel; the [DisjointSet] is the generated class of Gen/DsuGen.v; [leaf_index] is the list of its",
        "   items; an ete3 tree under construction is the inductive [Tree] (name, children).  Proofs/BuildGenProofs.v proves",
        "   the function equal to Model/Triples.v; [all_trees_from_triples] and its local function follow",
        "   (Proofs/AllTreesGenProofs.v). *)",
        "From Coq Require Import List Bool ZArith NArith.",
        "From SR Require Gen.DsuGen.",
        "Module DsuGen := SR.Gen.DsuGen.",
        "",
        unit.prelude(),
        lift,
        "",
        "Section Gen.",
        "Context {A : Type} (eqb : A -> A -> bool).",
        "",
        unit.section_defs() + tree_def,
        "",
        fun,
        "",
        "(* the order in which Python iterates the set built from the given items (inserted in list order): see Gen/DsuGen.v *)",
        "Context (ord : list N -> list N).",
        "",
        all_aux,
        "",
        all_fun,
        "",
        "End Gen.",
        "Arguments Tree : clear implicits.",
    ]) + "\n"
    return unit, text


def render(repo: Path) -> str:
    return build(repo)[1]


def regenerate(repo: Optional[Path] = None, out: Path = OUT) -> bool:
    """Translate and (re)write `out` if its content changed.  Returns True when written."""
    repo = Path(repo if repo is not None else os.environ.get("VERIF_REPO", "/repo"))
    text = render(repo)
    if out.exists() and out.read_text() == text:
        return False
    out.parent.mkdir(parents=True, exist_ok=True)
    tmp = out.with_suffix(".v.tmp")
    tmp.write_text(text)
    tmp.replace(out)
    return True


if __name__ == "__main__":
    try:
        target = Path(sys.argv[2]) if len(sys.argv) > 2 else OUT
        changed = regenerate(Path(sys.argv[1]) if len(sys.argv) > 1 else None, target)
    except TranslatorAbort as e:
        print("TranslatorAbort:", e, file=sys.stderr)
        sys.exit(2)
    print("written" if changed else "unchanged", target)
