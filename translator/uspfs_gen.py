"""Fail-closed translator: `$VERIF_REPO/src/superrec2/compute/unordered_super_reconciliation.py` -> `coq/Gen/UspfsGen.v`.

Every function of the module -- `_compute_gain_sets`, `_compute_lca_sets`, `_make_event_combinator`, `_compute_uspfs_entry`,
`_compute_uspfs_table`, `_decode_uspfs_table`, `_uspfs`, `usreconcile_base_uspfs`, `usreconcile_extended_uspfs` -- is translated
statement by statement by `translator/pyfun.py` (see its docstring, eighth extension).  The table, its proxies and the entries are
the code of `Gen/TableGen.v` and `Gen/EntryGen.v` (imported); the object tree, `SuperReconciliationInput`, the cost dictionary and
the event enums are those of `Gen/EvalGen.v`, whose evaluator computes `output.cost()`; `reconcile_lca` is `Gen/ThlGen.v`'s.  Any
construct outside the subset, a definition missing or made twice, an import that is not the expected one, or a variable without a
declared type raises `TranslatorAbort` with file:line.  The output file is rewritten only when its content changes.

THE TEXT UP TO `gen_compute_uspfs_table` IS FROZEN (theorems are stated about it): the error type `err` (always the seven errors
IndexError, OutOfFuel, AssertionError, TypeError, ValueError, KeyError, AttributeError), the helpers of the prelude, the `Require`
lines and the `Context` lines cannot change.  What the later functions need in addition is emitted after
`gen_compute_uspfs_table`, inside the Section, and the driver aborts if a later function needs an error the frozen `err` does not
have.

What this driver supplies, i.e. the assumptions of the tie (everything `spfs_gen.py` says about species -- the inductive `STree`, a
node where its identifier is meant, the opaque `species_lca` with `lca_is_ancestor_of` / `lca_distance` / `lca_call` / `lca_tree`
--, about `traverse()` (ete3's level order) and `traverse("postorder")`, about binary trees, the table updated in place (`mutates`),
generators, `product`, `infos()` iterated in the order `infos_order` (a Section variable; the theorems need a permutation), output
objects as Records and `==` / hashing of outputs being `output_eqb`, `tqdm`, `sum(1 for _ in xs)`, keyword arguments, BINARY INPUTS
ONLY (`binarize()` yields the input itself, once; `label_internal()` is no statement), `reconcile_lca` and the DEVIATION of the base
variant's `lambda _, obj: [rec_output.object_species[obj]]` -- a total function answering no allowed species where Python raises
KeyError -- holds here verbatim; in addition:

Stage 1 (`_compute_gain_sets`, `_compute_lca_sets`):
* SETS of gene families (`UnorderedSynteny`, type `FamSet`) and of object nodes (`NodeSet`) are immutable values: duplicate-free
  lists (`gset_add` appends unless present).  The order of such a list is an artefact: wherever Python ITERATES a set the list
  first goes through an order function of the Section (`fam_order`, `node_order`: the theorems require a permutation): `*leaves`
  in `object_lca(*leaves)`, `sort_synteny(s)`.  `a | b`, `a <= b`, `set(xs)`, `set().union(*..).difference(*..)` are
  `gset_union`, `gset_subset`, `gset_of_list`, folds of `gset_union` / `gset_diff`.  A set is updated in place only through
  `d[k].add(e)` on a dictionary that is the only holder of its sets (`leaves_by_family`: a `defaultdict(set)`; `result`: one
  `set()` per node from the comprehension);
* `srec_input.leaf_syntenies` is a total function from node identifiers in `Gen/EvalGen.v`; its `.items()` is the Section variable
  `syn_items` (the theorems assume: one item per leaf of the object tree, each synteny listing the members of the leaf's synteny
  in any order); a leaf is identified with its identifier (`NodeId8`);
* `LowestCommonAncestor(srec_input.object_tree)` is the opaque value `olca_of tree` and `object_lca(*leaves)` is `olca_call olca
  <the items of leaves>` (Section variables): that the Euler-tour structure computes lowest common ancestors is property C17; the
  theorems assume `olca_call` returns the identifier of the lowest common ancestor of a non-empty list of nodes of the tree
  (`TypeError` on no node and `KeyError` on a foreign node are therefore not modelled: `leaves` is never empty and holds leaves
  of the tree);
* dictionaries keyed by object nodes (`Dict[TreeNode, UnorderedSynteny]`, type `SetDict`) are the lists of their stores, newest
  first, read with `dict_get` (KeyError when absent); `{node: set() for node in tree.traverse()}` stores the nodes in level order;
  `x.children` in `(d[child] for child in object_node.children)` is the list of the two children (none for a leaf);

Stages 2-3 (`_make_event_combinator`, `_compute_uspfs_entry`, `_compute_uspfs_table`):
* the keys of the table are `node_id + sp + SyntenyAssignment` (`inl (inl _)`: an object node, `inl (inr _)`: a species, `inr _`: a
  kind), compared with `key_eqb`; the tags are `ChildrenAssignment` (fields `option ObjectAssignment`), those of the aggregators
  `ObjectAssignment` (a species and a kind); `MappingChoices` is a Record of five entries; `inf` (from `infinity`) is `PInf`;
* `subprobs = tuple(dict((kind, MappingChoices._make(table.entry() for ..)) for kind in SyntenyAssignment) for _ in range(2))` is
  `repeat [(LCA, mc); (INHERIT, mc)] 2` with `mc = mk_MappingChoices e e e e e`, `e = table.entry()` evaluated ONCE (`Table.entry`
  is declared, and checked, pure and returning a new object); `subprobs[i][kind].f.m(..)`: the item is read (IndexError), the
  value of `kind` (KeyError), the method run on the entry of the field, everything put back; reads `subprobs[<literal>][kind].f`
  inside a statement are hoisted before it (which can only change WHICH error is reported); `for kind in SyntenyAssignment`: LCA,
  then INHERIT;
* PROXY ALIAS: `child_entry = table[child_object][desc_species]` evaluates the chain where it stands; each later
  `child_entry[k].value()` is translated as `table[child_object][desc_species][k].value()` evaluated in full.  Assumption: a
  `TableProxy` is a (table, prefix) pair without state of its own, and `Table.__getitem__` / `TableProxy.__getitem__` repeated on
  the same keys have no further effect on the table and return an equal proxy;
* `allowed_species` is a parameter of function type (the annotation of `_uspfs`, which gives it one argument, is ignored: it is
  called with two);

Stage 4 (`_decode_uspfs_table`, `_uspfs`, the two entry points):
* `sort_synteny(s)` (model/synteny.py: `sorted(s, key=..)`) is `sort_synteny8 s = sort_synteny_fn (fam_order s)`, `sort_synteny_fn`
  a Section variable: a pure total function (family names are strings, the key cannot raise); the theorems instantiate families
  with numbers and assume it returns the duplicate-free sorted list of the members (i.e. that the key orders family names as the
  harness numbers them and is injective on them); its result is only stored (declared an immutable sequence, `tuple fam`);
* `ancestor_synteny` (annotated `Optional[..]`) is never `None`: every call passes a set (type `FamSet`);
* the outputs are Records (`spout_state`, `ordered = false`) as in `spfs_gen.py`; `output.cost()` is `gen_soutput_cost`;
* evaluation order, as in `spfs_gen.py`: in `product(_decode_uspfs_table(left_object, info.left.species, ..),
  _decode_uspfs_table(right_object, info.right.species, ..))` the translation evaluates the arguments of the first call, runs that
  generator to its end, then does the same for the second one, whereas Python evaluates the arguments of both calls before either
  generator runs (an `info.right` that is `None` is reported before an error inside the left decoding); and all the outputs of a
  root species are produced before their costs are computed, whereas Python interleaves the two.  Which error is reported may
  differ when two occur, never whether one is; the proofs show that none occurs on the tables `_compute_uspfs_table` builds.
"""
from __future__ import annotations

import ast
import os
import sys
from pathlib import Path
from typing import Optional

sys.path.insert(0, str(Path(__file__).resolve().parent.parent))
from translator.pyfun import ClassSpec, DataSpec, FunSpec, TranslatorAbort, Unit  # noqa: E402
from translator import eval_gen, table_gen, thl_gen  # noqa: E402

VERIF = Path(__file__).resolve().parent.parent
OUT = VERIF / "coq" / "Gen" / "UspfsGen.v"
SOURCE = ("src", "superrec2", "compute", "unordered_super_reconciliation.py")
DP = "..utils.dynamic_programming"
LCA_METHODS = thl_gen.LCA_METHODS
SIN = "SuperReconciliationInput"
KIND = "SyntenyAssignment"

ERRORS = ("AssertionError", "TypeError", "ValueError", "KeyError", "AttributeError")

GAIN = FunSpec("_compute_gain_sets", {
    "srec_input": SIN, "leaves_by_family": "LeavesByFamily", "object_lca": "ObjectLca", "leaf": "NodeId8",
    "synteny": "list fam", "family": "fam", "result": "SetDict", "node": "TreeNode", "leaves": "NodeSet"},
    "SetDict", alias="compute_gain_sets", fresh=True)
LCASETS = FunSpec("_compute_lca_sets", {
    "srec_input": SIN, "gain_sets": "SetDict", "result": "SetDict", "object_node": "TreeNode", "child": "TreeNode"},
    "SetDict", alias="compute_lca_sets", fresh=True)

OBJ_ASSIGN = DataSpec("ObjectAssignment", {"species": "sp", "synteny": KIND})
CHILD_ASSIGN = DataSpec("ChildrenAssignment", {"left": "option elem", "right": "option elem"})
CHOICES = DataSpec("MappingChoices", {"left": "Entry", "right": "Entry", "conserved": "Entry", "segment": "Entry",
                                      "separate": "Entry"})
COMB = "Candidate -> Candidate -> Candidate2"
COMBINATOR = FunSpec("_make_event_combinator", {"event_cost": "ext", "left": "Candidate", "right": "Candidate"}, COMB,
                     alias="make_event_combinator")
ENTRY_FUN = FunSpec("_compute_uspfs_entry", {
    "species_lca": "LowestCommonAncestor", "root_species": "STree", "root_object": "TreeNode", "lca_sets": "SetDict",
    "table": "Table2", "costs": "CostValues", "sloss_cost": "Z", "floss_cost": "Z", "lca": KIND, "inh": KIND,
    "subprobs": "tuple KindChoices", "child_index": "N", "child_object": "TreeNode", "lca_lca_dist": "Z", "lca_inh_dist": "ext",
    "desc_species": "STree", "child_entry": "proxyalias", "lca_cost": "ext", "lca_assign": "ObjectAssignment",
    "inh_cost": "ext", "inh_assign": "ObjectAssignment", "above_species_dist": "Z",
    "left_species": "STree", "right_species": "STree", "species_dist": "Z", "inh_candidates": "tuple Candidate",
    "lca_candidates": "tuple Candidate", "kind": KIND,
    "spe_comb": COMB, "dup_comb": COMB, "hgt_comb": COMB}, "unit", alias="compute_uspfs_entry", mutates=("table",))


TABLE_FUN = FunSpec("_compute_uspfs_table", {
    "srec_input": SIN, "lca_sets": "SetDict", "allowed_species": "STree -> TreeNode -> list STree",
    "retention_policy": "RetentionPolicy", "table": "Table2", "lca": KIND,
    "root_object": "TreeNode", "species": "sp", "root_species": "STree"}, "Table2", alias="compute_uspfs_table", fresh=True)


SOUT = "SuperReconciliationOutput"
DECODE = FunSpec("_decode_uspfs_table", {
    "root_object": "TreeNode", "root_species": "sp", "root_kind": KIND, "ancestor_synteny": "FamSet", "srec_input": SIN,
    "gain_sets": "SetDict", "lca_sets": "SetDict", "table": "Table2", "root_synteny": "tuple fam", "info": "ChildrenAssignment",
    "left_object": "TreeNode", "right_object": "TreeNode", "mappings": f"list (pair {SOUT} {SOUT})", "map_left": SOUT,
    "map_right": SOUT}, f"list {SOUT}", alias="decode_uspfs_table", generator=True, rec_on="root_object", mutates=("table",))
OUTPUT_COST = FunSpec("cost", {}, "ext")
USPFS = FunSpec("_uspfs", {
    "srec_input": SIN, "policy": "RetentionPolicy", "allowed_species": "STree -> TreeNode -> list STree", "results": "Entry3",
    "srec_input_bin": SIN, "gain_sets": "SetDict", "lca_sets": "SetDict", "synteny_tree": "TreeNode", "table": "Table2",
    "root_species": "STree", "output": SOUT}, "set3", alias="uspfs")
EXT = FunSpec("usreconcile_extended_uspfs", {
    "srec_input": SIN, "policy": "RetentionPolicy", "species": "STree", "_": "TreeNode"}, "set3",
    alias="usreconcile_extended_uspfs")
BASE = FunSpec("usreconcile_base_uspfs", {
    "srec_input": SIN, "policy": "RetentionPolicy", "rec_output": "LcaOutput", "_": "STree", "obj": "TreeNode"}, "set3",
    alias="usreconcile_base_uspfs")
SUPER_COST_ARGS = "fam sp lca node_id fam_eqb node_id_eqb sp_eqb lca_is_ancestor_of lca_is_strict_ancestor_of lca_is_comparable lca_call lca_distance"


def _lift(alias: str, name: str, errs, renamed=None) -> str:
    """A driver-written conversion of the results of another generated file (same style as `entry_res`)."""
    renamed = renamed or {}
    return "\n".join(
        [f"Definition {name}_err (e : {alias}.err) : err :=", "  match e with"]
        + [f"  | {alias}.{c} => {renamed.get(c, c)}" for c in errs]
        + ["  end.",
           f"Definition {name}_res {{X : Type}} (r : {alias}.res X) : res X :=",
           f"  match r with {alias}.Ok x => Ok x | {alias}.Err e => Err ({name}_err e) end."])


def late_part(repo: Path, unit: Unit) -> str:
    """The functions after `_compute_uspfs_table` (stage 4), with the declarations they need.  The text before it is frozen
    (theorems are stated about it): the error type, the helpers of the prelude, the `Require`s and the first `Context`
    lines cannot change any more, so that what stage 4 needs in addition is emitted here, inside the Section."""
    unit.insts = dict(unit.insts, **{"3": ("spout_state", "output_eqb")})
    unit.nodedict("SpeciesDict", "TreeNode", "sp", eqb="node_id_eqb")
    unit.nodedict("SyntenyDict", "TreeNode", "tuple fam", eqb="node_id_eqb")
    output = unit.record_class(SOUT, "..model.reconciliation", "spout",
                               {"input": SIN, "object_species": "SpeciesDict", "syntenies": "SyntenyDict", "ordered": "bool"},
                               [(OUTPUT_COST, "gen_soutput_cost")])
    unit.same_type("elem3", SOUT)
    unit.external("sort_synteny", "..model.synteny", ["FamSet"], "tuple fam", "sort_synteny8")
    helpers0 = set(unit.helpers)
    decode = unit.function(DECODE)
    # _uspfs
    unit.singleton_methods.add((SIN, "binarize"))
    unit.noop_methods.add((SIN, "label_internal"))
    uspfs = unit.function(USPFS)
    # the two entry points
    unit.kwparams["_uspfs"] = param_names(repo, SOURCE, "_uspfs")
    unit.opaque("LcaOutput", "(list (node_id * sp))")
    unit.attrs_of("LcaOutput", {"object_species": ("SpeciesDict", "lca_object_species")})
    unit.external_res("reconcile_lca", ".reconciliation", [SIN], "LcaOutput", "gen_reconcile_lca_super")
    unit.lookup_lists[("SpeciesDict", "list STree")] = "base_species (lca_tree (EvalGen.sin_species_lca srec_input)) {d} {k}"
    base = unit.function(BASE)
    ext = unit.function(EXT)
    from translator.pyfun import HELPERS, HELPER_DEPS
    late = set()
    for h in unit.helpers - helpers0:
        late.add(h)
        late.update(HELPER_DEPS.get(h, []))
    late -= helpers0
    late_helpers = [HELPERS[k] for k in HELPERS if k in late]
    if len(late_helpers) != len(late):
        raise TranslatorAbort(f"{repo.joinpath(*SOURCE)}:0: a helper the later functions need cannot be emitted inside the Section: {sorted(late)}")
    return "\n".join([
        "(* ---------------------------------------------------------------------------------------------------------------",
        "   _decode_uspfs_table, _uspfs, usreconcile_base_uspfs, usreconcile_extended_uspfs.  The text above is frozen (theorems",
        "   are stated about it); what these functions need in addition is declared here. *)",
        "Context (lca_is_strict_ancestor_of lca_is_comparable : lca -> sp -> sp -> bool).",
        "",
        "\n\n".join(late_helpers),
        "",
        "(* the results of Gen/ThlGen.v in the result type of this file: an error is the error of the same name.",
        "   [ThlGen.NoneValue] has no counterpart here (the error type of this file is frozen); [gen_reconcile_lca], the only",
        "   function of Gen/ThlGen.v called, has no site that produces it *)",
        _lift("SR.Gen.ThlGen", "thl", ["IndexError", "OutOfFuel", "AssertionError", "TypeError", "ValueError", "KeyError",
                                       "AttributeError", "NoneValue"], {"NoneValue": "AttributeError"}),
        "",
        output,
        "Context (output_eqb : spout_state -> spout_state -> bool) (missing : node_id -> sp) (missing_syn : node_id -> list fam)",
        "        (infos_order : list ChildrenAssignment -> list ChildrenAssignment)",
        "        (sort_synteny_fn : list fam -> list fam).",
        "",
        "(* sort_synteny(s) (model/synteny.py: sorted(s, key=..)) on a set: the function [sort_synteny_fn] on the items of the set",
        "   in the order Python iterates them *)",
        "Definition sort_synteny8 (s : list fam) : list fam := sort_synteny_fn (fam_order s).",
        "",
        "(* output.cost(): the evaluator of Gen/EvalGen.v on the two dictionaries read as functions (a key that is absent -- a",
        "   KeyError in Python -- answers [missing] / [missing_syn]; the evaluator only looks up the nodes of the object tree) *)",
        "Definition dict_fun (d : list (node_id * sp)) (i : node_id) : sp :=",
        "  match dict_get node_id_eqb d i with Some s => s | None => missing i end.",
        "Definition dict_fun_syn (d : list (node_id * list fam)) (i : node_id) : list fam :=",
        "  match dict_get node_id_eqb d i with Some s => s | None => missing_syn i end.",
        "Definition gen_soutput_cost (o : spout_state) : res (spout_state * ext) :=",
        f"  match eval_res (@EvalGen.gen_super_cost {SUPER_COST_ARGS}",
        "                    (EvalGen.mk_sout (spout_input o) (dict_fun (spout_object_species o))",
        "                                     (dict_fun_syn (spout_syntenies o)) (spout_ordered o))) with",
        "  | Err e => Err e",
        "  | Ok (_, c) => Ok (o, c)",
        "  end.",
        "",
        "(* reconcile_lca(srec_input): the function of Gen/ThlGen.v on the four fields a SuperReconciliationInput shares with a",
        "   ReconciliationInput; of its output only the dictionary object_species is kept *)",
        "Definition gen_reconcile_lca_super (i : EvalGen.sin_state fam sp lca node_id) : res (list (node_id * sp)) :=",
        "  match thl_res (@SR.Gen.ThlGen.gen_reconcile_lca sp lca node_id node_id_eqb lca_call",
        "                   (EvalGen.mk_rin (EvalGen.sin_object_tree i) (EvalGen.sin_species_lca i)",
        "                                   (EvalGen.sin_leaf_object_species i) (EvalGen.sin_costs i))) with",
        "  | Err e => Err e",
        "  | Ok o => Ok (SR.Gen.ThlGen.tout_object_species o)",
        "  end.",
        "Definition lca_object_species (d : list (node_id * sp)) : list (node_id * sp) := d.",
        "(* [rec_output.object_species[obj]] in usreconcile_base_uspfs: the species node carrying the identifier the dictionary",
        "   holds for obj.  DEVIATION: total -- no allowed species where Python raises KeyError (obj is not a key) *)",
        "Definition base_species (t : STree) (d : list (node_id * sp)) (obj : EvalGen.TreeNode node_id) : list STree :=",
        "  match dict_get node_id_eqb d (EvalGen.TreeNode_id obj) with",
        "  | Some s => match find (fun n => sp_eqb (STree_id n) s) (STree_postorder t) with Some n => cons n nil | None => nil end",
        "  | None => nil",
        "  end.",
        "",
        decode,
        "",
        uspfs,
        "",
        base,
        "",
        ext,
    ])


def _parse(path: Path) -> ast.Module:
    if not path.is_file():
        raise TranslatorAbort(f"{path}:0: source file not found")
    try:
        return ast.parse(path.read_text(encoding="utf8"), filename=str(path))
    except SyntaxError as e:
        raise TranslatorAbort(f"{path}:{e.lineno}: syntax error: {e.msg}")


def param_names(repo: Path, source, name: str):
    """The parameter names of the module-level function `name` of a source file (for keyword arguments)."""
    path = repo.joinpath(*source)
    defs = [n for n in _parse(path).body if isinstance(n, ast.FunctionDef) and n.name == name]
    if len(defs) != 1 or defs[0].args.vararg or defs[0].args.kwarg or defs[0].args.kwonlyargs or defs[0].args.posonlyargs:
        raise TranslatorAbort(f"{path}:0: {name} is not defined exactly once with plain parameters")
    return [a.arg for a in defs[0].args.args]


SET_HELPERS = """\
(* Python sets of immutable values (families, object nodes): duplicate-free lists; the order of the list is an artefact of
   the representation -- wherever Python ITERATES a set the list goes through an order function of the Section first *)
Fixpoint gset_mem {X : Type} (xeqb : X -> X -> bool) (x : X) (s : list X) {struct s} : bool :=
  match s with nil => false | cons y s' => orb (xeqb x y) (gset_mem xeqb x s') end.
Definition gset_add {X : Type} (xeqb : X -> X -> bool) (x : X) (s : list X) : list X :=
  if gset_mem xeqb x s then s else s ++ cons x nil.
(* set(xs) *)
Definition gset_of_list {X : Type} (xeqb : X -> X -> bool) (l : list X) : list X :=
  fold_left (fun s x => gset_add xeqb x s) l nil.
(* a | b  /  a.union(b) *)
Definition gset_union {X : Type} (xeqb : X -> X -> bool) (a b : list X) : list X :=
  fold_left (fun s x => gset_add xeqb x s) b a.
(* a - b  /  a.difference(b) *)
Definition gset_diff {X : Type} (xeqb : X -> X -> bool) (a b : list X) : list X :=
  filter (fun x => negb (gset_mem xeqb x b)) a.
(* a <= b *)
Definition gset_subset {X : Type} (xeqb : X -> X -> bool) (a b : list X) : bool :=
  forallb (fun x => gset_mem xeqb x b) a.
(* d[k].add(e) on a defaultdict(set) keyed by immutable values, kept as the list of its items in insertion order: a missing
   key is given the empty set first (at the end) *)
Fixpoint ddict_add8 {K X : Type} (keqb : K -> K -> bool) (xeqb : X -> X -> bool) (d : list (K * list X)) (k : K) (x : X)
    {struct d} : list (K * list X) :=
  match d with
  | nil => cons (k, cons x nil) nil
  | cons (k', s) d' => if keqb k k' then cons (k', gset_add xeqb x s) d' else cons (k', s) (ddict_add8 keqb xeqb d' k x)
  end.
(* [d[k] for k in ks] on a dictionary kept as the list of its stores, newest first; None = KeyError *)
Fixpoint dict_gets8 {K V : Type} (keqb : K -> K -> bool) (d : list (K * V)) (ks : list K) {struct ks} : option (list V) :=
  match ks with
  | nil => Some nil
  | cons k ks' =>
    match (fix get (d : list (K * V)) : option V :=
             match d with nil => None | cons (k', v) d' => if keqb k k' then Some v else get d' end) d with
    | None => None
    | Some v => match dict_gets8 keqb d ks' with None => None | Some vs => Some (cons v vs) end
    end
  end."""


def solver_part(repo: Path, upto: str = "entry"):
    path = repo.joinpath(*SOURCE)
    entries = table_gen.entry_unit(repo)
    tables, _ = table_gen.build(repo)
    evals = thl_gen.eval_unit(repo)
    unit = Unit(path, _parse(path), truthy_elem=True, extended=True)
    unit.products = True
    unit.use_tables()
    unit.use_seventh()
    unit.use_eighth()
    for e in ERRORS:
        unit.errors.add(e)
    unit.insts = {"": ("ObjectAssignment", "ObjectAssignment_eqb"), "2": ("ChildrenAssignment", "ChildrenAssignment_eqb")}
    unit.use_product()
    unit.unwrap_none = True
    unit.set_orders["2"] = "infos_order"
    unit.opaque("ext", "ext", eqb="ext_eqb", ltb="ext_ltb", leb="ext_leb")
    unit.numbers("ext", add="ext_add", of_Z="Fin")
    unit.constant("inf", "infinity", "ext", "PInf", neg="NInf")
    unit.opaque("sp", "sp", eqb="sp_eqb")
    unit.opaque("K", "key", eqb="key_eqb")
    unit.opaque("fam", "fam", eqb="fam_eqb")
    unit.opaque("LowestCommonAncestor", "lca")
    kind = unit.enum(KIND)
    lifts = [unit.import_unit(entries, "EntryGen", "entry_res", {"Candidate": "{A}", "Entry": "{A}"},
                              heads={("Entry", "combine"): "(@EntryGen.gen_entry_combine {A} {A2} {eqb2})"})]
    for name in ("Candidate", "MergePolicy", "RetentionPolicy", "Entry", "Table", "DictDimension"):
        unit.imported(name, DP)
    kA = "key {A}"
    lifts.append(unit.import_unit(
        tables, "TableGen", "table_res",
        {"Table": kA, "EntryProxy": kA, "TableProxy": kA, "Proxy": kA, "Cell": kA, "Combined": kA + " ObjectAssignment", "DictDimension": ""},
        heads={("Table", "entry"): "(@TableGen.gen_table_entry2 key {A} ObjectAssignment)"},
        var_terms={"keqb": "key_eqb", "eqb2": "ChildrenAssignment_eqb"},
        choose={("Table", "entry"): "table_entry2"}, rets={("Table", "entry"): "Entry"}))
    lifts.append(unit.import_unit(
        evals, "EvalGen", "eval_res",
        {"TreeNode": "node_id", "ReconciliationInput": thl_gen.EVAL_ARGS, "SuperReconciliationInput": "fam " + thl_gen.EVAL_ARGS},
        skip=("ReconciliationOutput", "SuperReconciliationOutput")))
    unit.mappings["SyntenyMapping"] = ("TreeNode", "list fam")
    for name in ("SuperReconciliationInput", "NodeEvent", "EdgeEvent", "CostValues"):
        unit.imported(name, "..model.reconciliation")
    stree = unit.bintree("STree", "sp")
    unit.methods_of("LowestCommonAncestor", LCA_METHODS, call=thl_gen.LCA_CALL)
    unit.attrs_of("LowestCommonAncestor", {"tree": ("STree", "lca_tree")})
    unit.coercion("STree", "sp", "STree_id {}")
    unit.coercion("STree", "K", "inl (inr (STree_id {}))")
    unit.coercion("sp", "K", "inl (inr {})")
    unit.coercion("TreeNode", "K", "inl (inl (EvalGen.TreeNode_id {}))")
    unit.coercion(KIND, "K", "inr {}")
    # ---- stage 1: sets
    unit.opaque("FamSet", "(list fam)", leb="(gset_subset fam_eqb)")
    unit.opaque("NodeSet", "(list node_id)")
    unit.opaque("LeavesByFamily", "(list (fam * list node_id))")
    unit.opaque("ObjectLca", "olca")
    unit.nodedict("SetDict", "TreeNode", "FamSet", eqb="node_id_eqb")
    unit.opaque("NodeId8", "node_id", eqb="node_id_eqb")
    unit.sets8 = {"FamSet": ("fam", "fam_eqb", "fam_order"), "NodeSet": ("NodeId8", "node_id_eqb", "node_order")}
    unit.ddicts8["LeavesByFamily"] = ("fam", "NodeSet")
    unit.items8["SyntenyMapping"] = ("syn_items", "pair NodeId8 (list fam)")
    unit.varcalls8["ObjectLca"] = ("NodeSet", "NodeId8", "olca_call")
    unit.external("LowestCommonAncestor", "..utils.trees", ["TreeNode"], "ObjectLca", "olca_of")
    unit.proxy_alias8 = True
    gain = unit.function(GAIN)
    lcas = unit.function(LCASETS)
    stage1 = [gain, "", lcas]
    oa = unit.namedtuple(OBJ_ASSIGN, {"species": "sp_eqb", "synteny": KIND + "_eqb"})
    unit.same_type("elem", "ObjectAssignment")
    ca = unit.namedtuple(CHILD_ASSIGN, {"left": "(option_eqb ObjectAssignment_eqb)", "right": "(option_eqb ObjectAssignment_eqb)"})
    unit.same_type("elem2", "ChildrenAssignment")
    mc = unit.namedtuple(CHOICES, {k: "(fun _ _ => true)" for k in CHOICES.fields})
    unit.opaque("KindChoices", f"(list ({KIND} * MappingChoices))")
    unit.kinddicts8["KindChoices"] = (KIND, "MappingChoices")
    unit.opaque("proxyalias", "unit")      # (never emitted: see `_Fun.block8`)
    unit.use_tqdm()
    unit.kwparams["_make_event_combinator"] = param_names(repo, SOURCE, "_make_event_combinator")
    parts = [unit.function(COMBINATOR), unit.function(ENTRY_FUN), unit.function(TABLE_FUN)]
    travs = [unit.traversal_defs("STree"), unit.traversal_defs("TreeNode")]
    prelude = unit.prelude()        # the error type and the helpers are those of stages 1-3 (theorems are stated about them)
    frozen_errors = set(unit.errors)
    late = late_part(repo, unit)
    if set(unit.errors) != frozen_errors:
        raise TranslatorAbort(f"{path}:0: the later functions need the errors {sorted(set(unit.errors) - frozen_errors)}, "
                              "which the error type of this file does not have")
    text = "\n".join([
        "From SR Require Import Base.Ext.",
        "From SR Require Gen.EntryGen Gen.TableGen Gen.EvalGen Gen.ThlGen.",
        "Module EntryGen := SR.Gen.EntryGen.",
        "Module TableGen := SR.Gen.TableGen.",
        "Module EvalGen := SR.Gen.EvalGen.",
        "",
        prelude,
        "\n".join(lifts),
        "",
        "(* a == b on two optional values *)",
        "Definition option_eqb {X : Type} (f : X -> X -> bool) (a b : option X) : bool :=",
        "  match a, b with Some x, Some y => f x y | None, None => true | _, _ => false end.",
        "",
        SET_HELPERS,
        "",
        kind,
        "",
        "Section Gen.",
        "Context {fam sp lca node_id olca : Type} (fam_eqb : fam -> fam -> bool) (sp_eqb : sp -> sp -> bool) (node_id_eqb : node_id -> node_id -> bool).",
        "Context (lca_is_ancestor_of : lca -> sp -> sp -> bool) (lca_call : lca -> sp -> sp -> sp) (lca_distance : lca -> sp -> sp -> Z).",
        "",
        f"Definition key : Type := (node_id + sp + {KIND})%type.",
        "Definition key_eqb (a b : key) : bool :=",
        "  match a, b with",
        f"  | inl (inl x), inl (inl y) => node_id_eqb x y | inl (inr x), inl (inr y) => sp_eqb x y | inr x, inr y => {KIND}_eqb x y",
        "  | _, _ => false end.",
        "",
        stree,
        "Context (lca_tree : lca -> STree).",
        "",
        "\n\n".join(travs),
        "",
        "(* x.children on a node of the object tree: no child or two *)",
        "Definition TreeNode_children8 (t : EvalGen.TreeNode node_id) : list (EvalGen.TreeNode node_id) :=",
        "  match t with EvalGen.TreeNode_leaf _ => nil | EvalGen.TreeNode_node _ a b => cons a (cons b nil) end.",
        "",
        "(* stage 1: the object-tree LCA structure (an opaque value: that the Euler-tour structure computes LCAs is property C17), the",
        "   items of the dictionary leaf_syntenies in iteration order, the orders in which sets are iterated *)",
        "Context (olca_of : EvalGen.TreeNode node_id -> olca) (olca_call : olca -> list node_id -> node_id)",
        "        (syn_items : (node_id -> list fam) -> list (node_id * list fam))",
        "        (fam_order : list fam -> list fam) (node_order : list node_id -> list node_id).",
        "",
        "\n".join(stage1),
        "",
        oa, "", ca, "", mc, "",
        "\n\n".join(parts),
        "",
        late,
        "",
        "End Gen.",
    ])
    return unit, text


def render(repo: Path) -> str:
    return "\n".join([
        "(* GENERATED by translator/uspfs_gen.py (via translator/pyfun.py) from",
        "   src/superrec2/compute/unordered_super_reconciliation.py -- do not edit.  Statement-by-statement translation of the",
        "   unordered super-reconciliation solvers: [_compute_gain_sets], [_compute_lca_sets] (sets: duplicate-free lists;",
        "   dictionaries keyed by nodes: the lists of their stores, newest first), [_make_event_combinator],",
        "   [_compute_uspfs_entry], [_compute_uspfs_table], [_decode_uspfs_table] (a generator: the list of what it yields),",
        "   [_uspfs], [usreconcile_base_uspfs], [usreconcile_extended_uspfs].  An assignment is a shadowing [let], the statements",
        "   after an [if] a continuation [k'n], each loop a [Fixpoint] returning [flow]; the table ([Gen/TableGen.v], three",
        "   dictionary dimensions: object node, species, kind of synteny) is updated in place: the functions that take it return",
        "   it.  The assumptions of the translation are listed in the docstring of translator/uspfs_gen.py.",
        "   Proofs/UspfsGenProofs.v proves these functions, at root paths, equal to Model/Uspfs.v. *)",
        "From Coq Require Import List Bool ZArith NArith.",
        "",
        solver_part(repo)[1],
    ]) + "\n"


def regenerate(repo: Optional[Path] = None, out: Path = OUT) -> bool:
    repo = Path(repo if repo is not None else os.environ.get("VERIF_REPO", "/repo"))
    text = render(repo)
    if out.exists() and out.read_text() == text:
        return False
    out.parent.mkdir(parents=True, exist_ok=True)
    tmp = out.with_suffix(".v.tmp")
    tmp.write_text(text)
    tmp.replace(out)
    return True


if __name__ == "__main__":
    try:
        target = Path(sys.argv[2]) if len(sys.argv) > 2 else OUT
        changed = regenerate(Path(sys.argv[1]) if len(sys.argv) > 1 else None, target)
    except TranslatorAbort as e:
        print("TranslatorAbort:", e, file=sys.stderr)
        sys.exit(2)
    print("written" if changed else "unchanged", target)
