"""Fail-closed translator: `$VERIF_REPO/src/superrec2/model/reconciliation.py` -> `coq/Gen/EvalGen.v`.

The cost evaluator -- the enums `NodeEvent`, `EdgeEvent`; of `ReconciliationOutput` the methods `node_event`,
`_cost_rec` (generated name `gen_cost_rec`), `cost`; of `SuperReconciliationOutput` the same three as inherited
(`gen_super_node_event`, `gen_super_cost_rec`, `gen_super_base_cost`: translated again for the fields of the
subclass) and `reconciliation_cost`, `_ordered_labeling_cost`, `_unordered_labeling_cost`, `labeling_cost`, `cost`
(`gen_super_<name>`) -- is translated statement by statement by `translator/pyfun.py` (see its docstring for the
handled subset and the shape of the output).  Everything else of the module (`to_dict`, `from_dict`, `binarize`,
`label_internal`, `__hash__`, `__repr__`) is not translated.  `coq/Proofs/EvalGenProofs.v` proves the generated
functions, instantiated at root paths, equal to the hand-written model `coq/Model/Recon.v` for all object trees,
mappings, syntenies and cost vectors.  Any construct outside the subset, a definition missing or made twice, an
import that is not the expected one, a class that is not the expected frozen dataclass, a method of the base class
overridden in the subclass, or a variable without a declared type raises `TranslatorAbort` with file:line.  The
output file is rewritten only when its content changes.

What this driver supplies, i.e. the assumptions of the tie:

* species nodes are values of an opaque type `sp` compared with `sp_eqb` (`==` on ete3 nodes: identity); the
  `LowestCommonAncestor` object is a value of an opaque type `lca` and `is_ancestor_of`, `is_strict_ancestor_of`,
  `is_comparable`, `distance` and the call `species_lca(a, b)` are the parameters `lca_is_ancestor_of`, ..,
  `lca_distance`, `lca_call` of the generated Section, applied to the object and the two species: pure and total
  (that the Euler-tour structure computes ancestry, LCA and distance of the species tree is property C17);
* the object tree is binary: every node has no or exactly two children (`node.is_leaf()`, `a, b = node.children`);
  it is the inductive type `TreeNode` whose nodes carry an identifier (`node_id`: the identity of the Python node
  object; ete3 nodes hash and compare by identity); it is not modified while a cost is computed;
  `tree.traverse("preorder")` visits a node, then its first subtree, then its second one;
* the dictionaries keyed by object nodes -- `object_species`, `leaf_object_species` (`TreeMapping`), `syntenies`,
  `leaf_syntenies` (`SyntenyMapping`) -- are total on the nodes that are looked up (`object_species`,
  `syntenies`: every node; `leaf_object_species`: every leaf): functions `node_id -> sp` / `node_id -> list A`.
  A missing key (KeyError in Python) is outside the tie.  A synteny is a list of families (type `A` of the
  Section, compared with its `eqb`); for an unordered labelling the harness passes Python sets: the list is then
  any enumeration of the set (`set(..)` of it and `<=` do not depend on the order);
* `costs` holds the five keys, SPECIATION / DUPLICATION / FULL_LOSS / SEGMENTAL_LOSS with int values (`Z`) and
  HORIZONTAL_TRANSFER with an int or `infinity.inf` (`ext` of `coq/Base/Ext.v`), as `Model/Recon.v` types them: the
  record `CostValues`.  `+` with an operand of type `ext` is `ext_add` (`inf + n = inf`; `inf + -inf`, a TypeError
  in Python, does not occur with these types unless HORIZONTAL_TRANSFER is `-inf`), an int is injected with `Fin`;
  costs and distances are unbounded ints;
* the local dictionary `masks` of `_ordered_labeling_cost` is the list of its stores, newest first, keyed by node
  identifiers compared with the Section's `node_id_eqb` (the proofs assume it decides equality of identifiers);
* `subseq_complete`, `mask_from_subseq`, `subseq_segment_dist` (imported from `..utils.subsequences`) are the
  functions `subseq_complete`, `mask_from_subseq eqb`, `seg_dist` of `coq/Model/Subseq.v`, which
  `coq/Proofs/SubseqGenProofs.v` proves equal to the code generated from `utils/subsequences.py` (property C18);
  masks are non-negative ints (`N`), distances ints (`Z`);
* the program is run without `-O` (`assert` raises `AssertionError`); the two output classes are used as the
  frozen dataclasses they are declared to be (no attribute is assigned behind the dataclass's back).
"""
from __future__ import annotations

import ast
import os
import sys
from pathlib import Path
from typing import Optional

sys.path.insert(0, str(Path(__file__).resolve().parent.parent))
from dataclasses import replace  # noqa: E402
from translator.pyfun import ClassSpec, FunSpec, TranslatorAbort, Unit  # noqa: E402

VERIF = Path(__file__).resolve().parent.parent
OUT = VERIF / "coq" / "Gen" / "EvalGen.v"
SOURCE = ("src", "superrec2", "model", "reconciliation.py")

LCA_METHODS = {
    "is_ancestor_of": (["sp", "sp"], "bool", "lca_is_ancestor_of"),
    "is_strict_ancestor_of": (["sp", "sp"], "bool", "lca_is_strict_ancestor_of"),
    "is_comparable": (["sp", "sp"], "bool", "lca_is_comparable"),
    "distance": (["sp", "sp"], "Z", "lca_distance"),
}
LCA_CALL = (["sp", "sp"], "sp", "lca_call")
COSTS = {"NodeEvent.SPECIATION": "Z", "NodeEvent.DUPLICATION": "Z", "NodeEvent.HORIZONTAL_TRANSFER": "ext",
         "EdgeEvent.FULL_LOSS": "Z", "EdgeEvent.SEGMENTAL_LOSS": "Z"}

INPUT = ClassSpec("ReconciliationInput", "rin", {
    "object_tree": "TreeNode", "species_lca": "LowestCommonAncestor", "leaf_object_species": "TreeMapping",
    "costs": "CostValues"}, [], frozen=True)
NODE_VARS = {"node": "TreeNode", "left_node": "TreeNode", "right_node": "TreeNode",
             "species_lca": "LowestCommonAncestor", "rec": "TreeMapping"}
OUTPUT = ClassSpec("ReconciliationOutput", "rout", {"input": "ReconciliationInput", "object_species": "TreeMapping"}, [
    FunSpec("node_event", dict(NODE_VARS), "NodeEvent", pure=True),
    FunSpec("_cost_rec", dict(NODE_VARS, event="NodeEvent", costs="CostValues", left_cost="ext", right_cost="ext",
                              left_dist="Z", right_dist="Z", dist_conserved="Z"), "ext",
            alias="cost_rec", pure=True, rec_on="node"),
    FunSpec("cost", {}, "ext", pure=True),
], frozen=True)

SINPUT = ClassSpec("SuperReconciliationInput", "sin", dict(INPUT.fields, leaf_syntenies="SyntenyMapping"), [],
                   frozen=True, base="ReconciliationInput")
LOOP_VARS = {"tree": "TreeNode", "rec": "TreeMapping", "total_cost": "Z", "sloss_cost": "Z", "node": "TreeNode",
             "event": "NodeEvent", "left_node": "TreeNode", "right_node": "TreeNode"}
BASE = "ReconciliationOutput"
SOUTPUT = ClassSpec("SuperReconciliationOutput", "sout", {
    "input": "SuperReconciliationInput", "object_species": "TreeMapping", "syntenies": "SyntenyMapping",
    "ordered": "bool"}, [
    replace(OUTPUT.methods[0], owner=BASE, alias="super_node_event"),
    replace(OUTPUT.methods[1], owner=BASE, alias="super_cost_rec"),
    replace(OUTPUT.methods[2], owner=BASE, alias="super_base_cost"),
    FunSpec("reconciliation_cost", {}, "ext", alias="super_reconciliation_cost", pure=True),
    FunSpec("_ordered_labeling_cost", dict(LOOP_VARS, root_syn="list", masks="MaskDict", sub_mask="N", left_mask="N",
                                           right_mask="N", keep_left="bool"), "Z",
            alias="super_ordered_labeling_cost", pure=True),
    FunSpec("_unordered_labeling_cost", dict(LOOP_VARS, node_set="set", left_cost="Z", right_cost="Z"), "Z",
            alias="super_unordered_labeling_cost", pure=True),
    FunSpec("labeling_cost", {}, "Z", alias="super_labeling_cost", pure=True),
    FunSpec("cost", {}, "ext", alias="super_cost", pure=True),
], frozen=True, base=BASE)
SUBSEQ = "..utils.subsequences"


def render(repo: Path) -> str:
    path = repo.joinpath(*SOURCE)
    if not path.is_file():
        raise TranslatorAbort(f"{path}:0: source file not found")
    try:
        tree = ast.parse(path.read_text(encoding="utf8"), filename=str(path))
    except SyntaxError as e:
        raise TranslatorAbort(f"{path}:{e.lineno}: syntax error: {e.msg}")
    unit = Unit(path, tree, extended=True)
    unit.products = unit.bool_asserts = unit.passed_defaults = unit.set_ops = True
    unit.opaque("ext", "ext", eqb="ext_eqb", ltb="ext_ltb", leb="ext_leb")
    unit.numbers("ext", add="ext_add", of_Z="Fin")
    unit.constant("inf", "infinity", "ext", "PInf", neg="NInf")
    unit.opaque("sp", "sp", eqb="sp_eqb")
    unit.opaque("LowestCommonAncestor", "lca")
    unit.methods_of("LowestCommonAncestor", LCA_METHODS, call=LCA_CALL)
    enums = [unit.enum("NodeEvent"), unit.enum("EdgeEvent")]
    inside = [unit.bintree("TreeNode", "node_id")]
    unit.mapping("TreeMapping", "TreeNode", "sp")
    inside.append(unit.enumdict("CostValues", COSTS))
    unit.mapping("SyntenyMapping", "TreeNode", "list")
    unit.nodedict("MaskDict", "TreeNode", "N", eqb="node_id_eqb")
    unit.external("subseq_complete", SUBSEQ, ["list"], "N", "(@subseq_complete A)")
    unit.external("mask_from_subseq", SUBSEQ, ["list", "list"], "N", "(mask_from_subseq eqb)")
    unit.external("subseq_segment_dist", SUBSEQ, ["N", "N", "bool"], "Z", "seg_dist")
    inside += [unit.klass(INPUT), unit.klass(OUTPUT)]
    labelled = [unit.klass(SINPUT), unit.klass(SOUTPUT)]
    section_defs = unit.section_defs()
    return "\n".join([
        "(* GENERATED by translator/eval_gen.py (via translator/pyfun.py) from",
        "   src/superrec2/model/reconciliation.py -- do not edit.  Statement-by-statement translation:",
        "   an assignment is a shadowing [let], the statements after an [if] are a continuation [k'n],",
        "   a method of the (frozen) output classes takes the record of the attributes and returns",
        "   [res (record * result)]; [self.f] is the variable [self'f].  The object tree is the inductive",
        "   [TreeNode] (a node identifier at every node), [_cost_rec] a structural [Fixpoint] on it,",
        "   [for node in tree.traverse(\"preorder\")] a [Fixpoint] whose continuation [next'] descends into",
        "   the two subtrees; a dictionary keyed by nodes is a function on identifiers, [costs] a record,",
        "   the local dictionary [masks] the list of its stores; the species LCA structure is the Section's",
        "   [lca_*] functions, [subseq_*] are the functions of Model/Subseq.v (tied to the code by",
        "   Proofs/SubseqGenProofs.v).  Proofs/EvalGenProofs.v proves these functions, at root paths,",
        "   equal to Model/Recon.v. *)",
        "From Coq Require Import List Bool ZArith NArith.",
        "From SR Require Import Base.Ext Model.Subseq.",
        "",
        unit.prelude(),
        "\n\n".join(enums),
        "",
        "Section Gen.",
        "Context {A sp lca node_id : Type} (eqb : A -> A -> bool) (node_id_eqb : node_id -> node_id -> bool).",
        "Context (sp_eqb : sp -> sp -> bool)",
        "        (lca_is_ancestor_of lca_is_strict_ancestor_of lca_is_comparable : lca -> sp -> sp -> bool)",
        "        (lca_call : lca -> sp -> sp -> sp) (lca_distance : lca -> sp -> sp -> Z).",
        "",
        section_defs,
        "\n\n".join(inside),
        "",
        "\n\n".join(labelled),
        "",
        "End Gen.",
        "Arguments TreeNode : clear implicits.",
        "Arguments rin_state : clear implicits.",
        "Arguments rout_state : clear implicits.",
        "Arguments sin_state : clear implicits.",
        "Arguments sout_state : clear implicits.",
    ]) + "\n"


def regenerate(repo: Optional[Path] = None, out: Path = OUT) -> bool:
    """Translate and (re)write `out` if its content changed.  Returns True when written."""
    repo = Path(repo if repo is not None else os.environ.get("VERIF_REPO", "/repo"))
    text = render(repo)
    if out.exists() and out.read_text() == text:
        return False
    out.parent.mkdir(parents=True, exist_ok=True)
    tmp = out.with_suffix(".v.tmp")
    tmp.write_text(text)
    tmp.replace(out)
    return True


if __name__ == "__main__":
    try:
        target = Path(sys.argv[2]) if len(sys.argv) > 2 else OUT
        changed = regenerate(Path(sys.argv[1]) if len(sys.argv) > 1 else None, target)
    except TranslatorAbort as e:
        print("TranslatorAbort:", e, file=sys.stderr)
        sys.exit(2)
    print("written" if changed else "unchanged", target)
