"""Fail-closed translator: `$VERIF_REPO/src/superrec2/utils/trees.py` -> `coq/Gen/LcaGen.v`.

The function `_euler_tour` and, of the class `LowestCommonAncestor`, the methods `__init__` (generated name
`gen_lca_init`), `__call__` (`gen_lca_call`), `is_ancestor_of`, `is_strict_ancestor_of`, `is_comparable`, `level`,
`distance` (`gen_lca_<name>`) are translated statement by statement by `translator/pyfun.py` (see its docstring for the
handled subset and the shape of the output).  The rest of the module (triples, supertrees, `graft`, `binarize`, ...) is
not translated.  `coq/Proofs/LcaGenProofs.v` proves the generated functions equal to the hand-written model
`coq/Model/Euler.v` for all trees whose nodes carry pairwise distinct identifiers and all queries, error cases included.
Any construct outside the subset, a definition missing or made twice, an import that is not the expected one, or a
variable without a declared type raises `TranslatorAbort` with file:line.  The output file is rewritten only when its
content changes.

What this driver supplies, i.e. the assumptions of the tie:

* a tree is a value of the inductive type `TreeNode`: a node carries an identifier (`node_id`: the identity of the
  Python node object; ete3 nodes define neither `__eq__` nor `__hash__`, so `==`, `!=` and dictionary lookups go by
  identity: the Section's `node_id_eqb`, which the proofs assume to decide equality of identifiers) and the list of its
  children; `node.is_leaf()` is "no child", `node.children` is that list; the tree is not modified while the structure
  is built or queried ("the input tree cannot be changed after initialization");
* `_euler_tour` recurses on the children of its argument: a structural `Fixpoint` on the tree, the `for` loop over the
  children a local `fix`; `level` is a non-negative int (`N`; the default 0 is passed by the call in `__init__`);
* `RangeMinQuery` is the class that `translator/rmq_gen.py` translates into `coq/Gen/RmqGen.v` (this driver translates
  `range_min_query.py` again, with `__call__` declared as only reading its object, which `pyfun` checks, and aborts
  unless the text is the one `rmq_gen.py` produces): `RangeMinQuery(xs)` is `RmqGen.gen_rmq_init`, `self.range_min_query
  (a, b)` is `RmqGen.gen_rmq_query`, both at the element type `N * TreeNode` with Python's order on tuples `entry_ltb`:
  levels first; for equal levels the same node (`==`: identity) is not smaller than itself; `<` between two *distinct*
  nodes -- a TypeError, ete3 nodes define no order -- is the Section's `node_ltb`, an unknown the theorems quantify over:
  they show that no answer depends on it, and `Model/Euler.v`'s `tuple_min_never_compares_nodes` is the reason.  The
  errors of `RmqGen` are mapped to the errors of the same name (`rmq_err`);
* `self.traversal_index` (a dict keyed by nodes, created empty and filled by `__init__`) is the list of its stores, newest
  first, looked up with `dict_get node_id_eqb` (absent: `KeyError`); `*nodes` is a list of nodes; indexes, positions and
  levels are non-negative ints (`N`), a distance is an int (`Z`);
* after `__init__` no method assigns an attribute (declared `pure`, checked by `pyfun`), so that methods may call each
  other inside expressions, in Python's evaluation order;
* the program is run without `-O` (`assert` raises `AssertionError`).
"""
from __future__ import annotations

import ast
import os
import sys
from dataclasses import replace
from pathlib import Path
from typing import Optional

sys.path.insert(0, str(Path(__file__).resolve().parent.parent))
from translator.pyfun import ClassSpec, FunSpec, TranslatorAbort, Unit  # noqa: E402
from translator import rmq_gen  # noqa: E402

VERIF = Path(__file__).resolve().parent.parent
OUT = VERIF / "coq" / "Gen" / "LcaGen.v"
SOURCE = ("src", "superrec2", "utils", "trees.py")

ENTRY = "pair N TreeNode"
TOUR = FunSpec("_euler_tour", {"root": "TreeNode", "level": "N", "tour": f"list ({ENTRY})", "child": "TreeNode"},
               f"list ({ENTRY})", rec_on="root")
PAIR = {"first": "TreeNode", "second": "TreeNode"}
LCA = ClassSpec("LowestCommonAncestor", "lca", {
    "tree": "TreeNode", "traversal": f"list ({ENTRY})", "range_min_query": "RangeMinQuery", "traversal_index": "NodeIndex"}, [
    FunSpec("__init__", {"tree": "TreeNode", "i": "N", "node": "TreeNode"}, "", alias="lca_init"),
    FunSpec("__call__", {"nodes": "list TreeNode", "start": "N", "end": "N", "node": "TreeNode",
                         "result": f"option ({ENTRY})"}, "TreeNode", alias="lca_call", pure=True),
    FunSpec("is_ancestor_of", dict(PAIR), "bool", alias="lca_is_ancestor_of", pure=True),
    FunSpec("is_strict_ancestor_of", dict(PAIR), "bool", alias="lca_is_strict_ancestor_of", pure=True),
    FunSpec("is_comparable", dict(PAIR), "bool", alias="lca_is_comparable", pure=True),
    FunSpec("level", {"node": "TreeNode"}, "N", alias="lca_level", pure=True),
    FunSpec("distance", dict(PAIR), "Z", alias="lca_distance", pure=True),
])


def _parse(path: Path) -> ast.Module:
    if not path.is_file():
        raise TranslatorAbort(f"{path}:0: source file not found")
    try:
        return ast.parse(path.read_text(encoding="utf8"), filename=str(path))
    except SyntaxError as e:
        raise TranslatorAbort(f"{path}:{e.lineno}: syntax error: {e.msg}")


def rmq_errors(repo: Path):
    """The error constructors of `Gen/RmqGen.v` as `rmq_gen.py` generates it from `repo`, after checking that
    `RangeMinQuery.__call__` only reads its object (translated once more with `pure=True`: same text, or abort)."""
    text = rmq_gen.render(repo)
    path = repo.joinpath(*rmq_gen.SOURCE)
    unit = Unit(path, _parse(path), elem_lt=True)
    pure = replace(rmq_gen.RMQ, methods=[replace(m, pure=(m.name == "__call__")) for m in rmq_gen.RMQ.methods])
    again = "\n\n".join([unit.function(rmq_gen.ILOG2), unit.klass(pure)])
    if again not in text:
        raise TranslatorAbort(f"{path}:0: RangeMinQuery does not translate to the text of Gen/RmqGen.v when __call__ is "
                              "declared as only reading its object")
    line = next((ln for ln in text.splitlines() if ln.startswith("Inductive err : Set := ")), None)
    if line is None:
        raise TranslatorAbort(f"{path}:0: no error type in the text of Gen/RmqGen.v")
    return [c.strip() for c in line[len("Inductive err : Set := "):].rstrip(".").split("|")]


def render(repo: Path) -> str:
    path = repo.joinpath(*SOURCE)
    unit = Unit(path, _parse(path), extended=True)
    unit.products = unit.raises = unit.pure_self_calls = True
    unit.imported("TreeNode", "ete3")
    errs = rmq_errors(repo)
    unit.errors.update(e for e in errs if e not in ("IndexError", "OutOfFuel"))
    tree = unit.ntree("TreeNode", "node_id", "node_id_eqb")
    order = unit.pair_ltb("entry_ltb", "N", "TreeNode", "node_ltb")
    unit.nodedict("NodeIndex", "TreeNode", "N", eqb="node_id_eqb")
    unit.foreign_class("RangeMinQuery", ".range_min_query", "(@RmqGen.rmq_state (N * TreeNode))", "rmq_res",
                       init=([f"list ({ENTRY})"], "RmqGen.gen_rmq_init entry_ltb"),
                       call=(["N", "N"], f"option ({ENTRY})", "RmqGen.gen_rmq_query entry_ltb"))
    parts = [unit.function(TOUR), unit.klass(LCA)]
    lift = "\n".join(
        ["(* the results of Gen/RmqGen.v in the result type of this file: an error is the error of the same name *)",
         "Definition rmq_err (e : RmqGen.err) : err :=", "  match e with"]
        + [f"  | RmqGen.{c} => {c}" for c in errs]
        + ["  end.",
           "Definition rmq_res {X : Type} (r : RmqGen.res X) : res X :=",
           "  match r with RmqGen.Ok x => Ok x | RmqGen.Err e => Err (rmq_err e) end."])
    return "\n".join([
        "(* GENERATED by translator/lca_gen.py (via translator/pyfun.py) from",
        "   src/superrec2/utils/trees.py -- do not edit.  Statement-by-statement translation of [_euler_tour] and",
        "   [LowestCommonAncestor]: an assignment is a shadowing [let], the statements after an [if] are a",
        "   continuation [k'n], each loop is a [Fixpoint] returning [flow] ([Next] state / [Ret] early return /",
        "   [Fail] error); a tree is the inductive [TreeNode] (an identifier and the list of children at every",
        "   node), [_euler_tour] a structural [Fixpoint] on it whose loop over the children is a local [fix];",
        "   the object is the record [lca_state], [self.f] is the variable [self'f]; the methods other than",
        "   [__init__] only read the object and return [res (lca_state * result)]; [RangeMinQuery] is the code of",
        "   Gen/RmqGen.v at the element type [N * TreeNode] ordered by [entry_ltb] (Python's [<] on the tuples",
        "   [(level, node)]); the dictionary [traversal_index] is the list of its stores, newest first, keyed by",
        "   node identifiers ([dict_get], [None] -> [KeyError]); [xs[i]] is [nth_error] ([None] -> [IndexError]),",
        "   [assert x is not None] -> [AssertionError], [raise TypeError(..)] -> [TypeError].",
        "   Proofs/LcaGenProofs.v proves these functions equal to Model/Euler.v. *)",
        "From Coq Require Import List Bool ZArith NArith.",
        "From SR Require Gen.RmqGen.",
        "Module RmqGen := SR.Gen.RmqGen.",
        "",
        unit.prelude(),
        lift,
        "",
        "Section Gen.",
        "Context {node_id : Type} (node_id_eqb : node_id -> node_id -> bool) (node_ltb : node_id -> node_id -> bool).",
        "",
        tree,
        "",
        order,
        "",
        "\n\n".join(parts),
        "",
        "End Gen.",
        "Arguments TreeNode : clear implicits.",
        "Arguments lca_state : clear implicits.",
    ]) + "\n"


def regenerate(repo: Optional[Path] = None, out: Path = OUT) -> bool:
    """Translate and (re)write `out` if its content changed.  Returns True when written."""
    repo = Path(repo if repo is not None else os.environ.get("VERIF_REPO", "/repo"))
    text = render(repo)
    if out.exists() and out.read_text() == text:
        return False
    out.parent.mkdir(parents=True, exist_ok=True)
    tmp = out.with_suffix(".v.tmp")
    tmp.write_text(text)
    tmp.replace(out)
    return True


if __name__ == "__main__":
    try:
        target = Path(sys.argv[2]) if len(sys.argv) > 2 else OUT
        changed = regenerate(Path(sys.argv[1]) if len(sys.argv) > 1 else None, target)
    except TranslatorAbort as e:
        print("TranslatorAbort:", e, file=sys.stderr)
        sys.exit(2)
    print("written" if changed else "unchanged", target)
