(** Model of [superrec2.utils.text.balanced_wrap] and of the part of
    [textwrap.wrap(text, width, break_long_words=False)] it relies on (C15).

    Domain: texts made of non-empty words separated by single spaces, without
    hyphens (escaped names joined by ", ").  [balanced_wrap] passes only
    [break_long_words=False]; [break_on_hyphens] keeps its default [True], which
    cannot act on a text without hyphens; with [drop_whitespace=True] the greedy
    loop of [TextWrapper._wrap_chunks] then reads: a word joins the current line
    when [cur_len + 1 + len(word) <= width]; a word that does not fit starts a
    new line; a word longer than the width is never broken and sits alone on its
    line ([_handle_long_word] appends it only to an empty line).  [width <= 0]
    raises [ValueError] ([None] here).  No proofs here (Proofs/WrapProofs.v). *)
From Coq Require Import String Ascii List Bool Arith.
From SR Require Import Model.Escape.
Import ListNotations.

Definition word := str.
Definition line := list word.

(** [sep.join(ls)] *)
Fixpoint join_with (sep : str) (ls : list str) : str :=
  match ls with
  | [] => []
  | x :: r => match r with [] => x | _ => x ++ sep ++ join_with sep r end
  end.

(** [s.split(" ")]: the fields between spaces (never the empty list). *)
Fixpoint split_sp (s : str) : list word :=
  match s with
  | [] => [[]]
  | c :: r =>
      if Ascii.eqb c sp then [] :: split_sp r
      else match split_sp r with
           | w :: ws => (c :: w) :: ws
           | [] => [[c]]
           end
  end.

Definition is_nil {A} (l : list A) : bool := match l with [] => true | _ => false end.

(** The non-whitespace chunks [TextWrapper._split] produces on the domain. *)
Definition words_of (s : str) : list word := filter (fun w => negb (is_nil w)) (split_sp s).

Definition line_text (l : line) : str := join_with [sp] l.
Definition line_len (l : line) : nat := length (line_text l).

(** [_wrap_chunks] on the domain; [cur] is the line being filled, [curlen] its length. *)
Fixpoint greedy_aux (w : nat) (cur : line) (curlen : nat) (ws : list word) : list line :=
  match ws with
  | [] => match cur with [] => [] | _ => [cur] end
  | x :: r =>
      match cur with
      | [] => greedy_aux w [x] (length x) r
      | _ => if curlen + 1 + length x <=? w
             then greedy_aux w (cur ++ [x]) (curlen + 1 + length x) r
             else cur :: greedy_aux w [x] (length x) r
      end
  end.

Definition greedy (w : nat) (ws : list word) : list line := greedy_aux w [] 0 ws.

(** [textwrap.wrap(text, w, break_long_words=False)] *)
Definition tw_wrap (text : str) (w : nat) : option (list str) :=
  match w with
  | 0 => None
  | _ => Some (map line_text (greedy w (words_of text)))
  end.

(** [_wrap_badness]: sum of squared distances to the longest line. *)
Definition badness (ls : list line) : nat :=
  let m := list_max (map line_len ls) in
  list_sum (map (fun l => (m - line_len l) * (m - line_len l)) ls).

(** The [while width > 1] loop; [width] is the last width tried. *)
Fixpoint bw_loop (ws : list word) (n : nat) (width : nat) (best : list line) (bb : nat) : list line :=
  match width with
  | 0 => best
  | S w' =>
      match w' with
      | 0 => best
      | _ =>
          let next := greedy w' ws in
          if Nat.eqb (length next) n then
            if badness next <? bb then bw_loop ws n w' next (badness next)
            else bw_loop ws n w' best bb
          else best
      end
  end.

Definition balanced_wrap_lines (w : nat) (ws : list word) : list line :=
  let first := greedy w ws in
  bw_loop ws (length first) w first (badness first).

(** [balanced_wrap(text, w)]; [None] = [ValueError] (width 0, or a text of spaces only). *)
Definition balanced_wrap (text : str) (w : nat) : option str :=
  match text with
  | [] => Some []
  | _ =>
      match w with
      | 0 => None
      | _ =>
          match words_of text with
          | [] => None
          | ws => Some (join_with [nl] (map line_text (balanced_wrap_lines w ws)))
          end
      end
  end.

Definition comma_sp : str := [","%char; sp].

(** [format_synteny(families, width)] for an ordered synteny. *)
Definition format_synteny (fams : list str) (w : option nat) : option str :=
  let r := join_with comma_sp fams in
  match w with
  | None => Some r
  | Some w => balanced_wrap r w
  end.

(* string wrappers for the harness *)
Definition tw_wrap_s (text : string) (w : nat) : option (list string) :=
  option_map (map string_of_list_ascii) (tw_wrap (list_ascii_of_string text) w).
Definition balanced_wrap_s (text : string) (w : nat) : option string :=
  option_map string_of_list_ascii (balanced_wrap (list_ascii_of_string text) w).
