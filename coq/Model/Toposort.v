(** Model of [superrec2/utils/toposort.py] ([toposort], [_toposort_all_bt],
    [toposort_all]) and of [_make_prec_graph] in
    [superrec2/compute/super_reconciliation.py].

    A graph is the Python dict [node -> set of successors] written as an
    association list: keys in dict iteration order, each successor set as the
    list of its elements in the set's iteration order (both orders are recorded
    from the running implementation by the harness).  The in-degree dict is an
    association list too, threaded through every function, so that the
    decrement / recursive call / re-increment of [_toposort_all_bt] are all
    explicit.  Where Python raises, the model returns an error constructor. *)
From Coq Require Import List Bool Arith ZArith.
Import ListNotations.

Definition node := nat.
Definition graph := list (node * list node).
Definition imap := list (node * Z).          (* the [indeg] dict *)

Inductive tres (A : Type) : Type :=
| TOk (a : A)
| TKeyError        (* dict lookup of a missing key / set.remove of a missing element *)
| TValueError      (* deque.remove of a missing element *)
| TIndexError      (* leaf_synteny[-1] on an empty synteny *)
| TOutOfFuel.      (* model artefact, proved unreachable on well-formed graphs *)
Arguments TOk {A} a.
Arguments TKeyError {A}.
Arguments TValueError {A}.
Arguments TIndexError {A}.
Arguments TOutOfFuel {A}.

Definition tbind {A B} (x : tres A) (f : A -> tres B) : tres B :=
  match x with
  | TOk a => f a
  | TKeyError => TKeyError
  | TValueError => TValueError
  | TIndexError => TIndexError
  | TOutOfFuel => TOutOfFuel
  end.

(* a Python [for] loop whose body may raise *)
Fixpoint fold_res {A S} (f : S -> A -> tres S) (l : list A) (s : S) : tres S :=
  match l with
  | [] => TOk s
  | a :: l' => tbind (f s a) (fold_res f l')
  end.

Definition keys (g : graph) : list node := map fst g.

(* [for succs in graph.values(): for succ in succs] *)
Definition all_succs (g : graph) : list node := concat (map snd g).

Fixpoint lookup {A} (m : list (node * A)) (k : node) : option A :=
  match m with
  | [] => None
  | (k', a) :: m' => if Nat.eqb k k' then Some a else lookup m' k
  end.

(* [indeg[k] = d] for a key that is present *)
Fixpoint update (m : imap) (k : node) (d : Z) : imap :=
  match m with
  | [] => []
  | (k', a) :: m' => if Nat.eqb k k' then (k', d) :: m' else (k', a) :: update m' k d
  end.

(* [{node: 0 for node in graph}] *)
Definition zero_map (g : graph) : imap := map (fun k => (k, 0%Z)) (keys g).

Definition memb (x : node) (l : list node) : bool := existsb (Nat.eqb x) l.

(* [deque.remove(x)] / [set.remove(x)]: [None] when [x] is absent *)
Fixpoint remove_first (x : node) (l : list node) : option (list node) :=
  match l with
  | [] => None
  | y :: l' => if Nat.eqb x y then Some l' else option_map (cons y) (remove_first x l')
  end.

(* [set.discard(x)] *)
Definition discard (x : node) (l : list node) : list node :=
  filter (fun y => negb (Nat.eqb x y)) l.

(* [deque.append(x)] and [set.add(x)] *)
Definition dq_append (x : node) (l : list node) : list node := l ++ [x].
Definition set_add (x : node) (l : list node) : list node :=
  if memb x l then l else l ++ [x].

(* [for node_to in graph[node_from]: indeg[node_to] -= 1;
      if indeg[node_to] == 0: starts.append/add(node_to)] *)
Definition relax_step (add : node -> list node -> list node)
    (st : imap * list node) (node_to : node) : tres (imap * list node) :=
  let '(indeg, starts) := st in
  match lookup indeg node_to with
  | None => TKeyError
  | Some d =>
      let d' := (d - 1)%Z in
      TOk (update indeg node_to d', if (d' =? 0)%Z then add node_to starts else starts)
  end.
Definition relax add (succs : list node) (indeg : imap) (starts : list node) :=
  fold_res (relax_step add) succs (indeg, starts).

(* [for node_to in graph[node_from]: indeg[node_to] += 1] *)
Definition restore_step (indeg : imap) (node_to : node) : tres imap :=
  match lookup indeg node_to with
  | None => TKeyError
  | Some d => TOk (update indeg node_to (d + 1)%Z)
  end.
Definition restore (succs : list node) (indeg : imap) : tres imap :=
  fold_res restore_step succs indeg.

(** * [toposort] (Kahn's algorithm with a deque) *)

(* [if indeg[succ] == 0: starts.remove(succ)]  then  [indeg[succ] += 1] *)
Definition kahn_init_step (st : list node * imap) (succ : node) : tres (list node * imap) :=
  let '(starts, indeg) := st in
  match lookup indeg succ with
  | None => TKeyError
  | Some d =>
      match (if (d =? 0)%Z then remove_first succ starts else Some starts) with
      | None => TValueError
      | Some starts' => TOk (starts', update indeg succ (d + 1)%Z)
      end
  end.

(* [while starts: node_from = starts.popleft(); result.append(node_from); ...];
   one unit of fuel per iteration *)
Fixpoint kahn_loop (g : graph) (fuel : nat) (starts : list node) (indeg : imap)
    (result : list node) : tres (list node) :=
  match starts with
  | [] => TOk result
  | node_from :: rest =>
      match fuel with
      | 0 => TOutOfFuel
      | S fuel' =>
          match lookup g node_from with
          | None => TKeyError
          | Some succs =>
              tbind (relax dq_append succs indeg rest) (fun '(indeg', starts') =>
              kahn_loop g fuel' starts' indeg' (result ++ [node_from]))
          end
      end
  end.

Definition toposort (g : graph) : tres (option (list node)) :=
  tbind (fold_res kahn_init_step (all_succs g) (keys g, zero_map g)) (fun '(starts, indeg) =>
  tbind (kahn_loop g (length g) starts indeg []) (fun result =>
  TOk (if length result =? length g then Some result else None))).

(** * [toposort_all] *)

Section All.
  (* iteration order of a Python set: any function returning a permutation;
     the theorems hold for every such function *)
  Variable ord : list node -> list node.
  Variable g : graph.

  (* body of [for node_from in starts]; [rec] is the recursive call *)
  Definition bt_body (rec : list node -> imap -> tres (list (list node) * imap))
      (starts : list node) (st : list (list node) * imap) (node_from : node)
      : tres (list (list node) * imap) :=
    let '(results, indeg) := st in
    match remove_first node_from starts with        (* next_starts.remove(node_from) *)
    | None => TKeyError
    | Some next_starts0 =>
        match lookup g node_from with
        | None => TKeyError
        | Some succs =>
            tbind (relax set_add succs indeg next_starts0) (fun '(indeg1, next_starts) =>
            tbind (rec next_starts indeg1) (fun '(subresults, indeg2) =>
            tbind (restore succs indeg2) (fun indeg3 =>
            TOk (results ++ map (fun sub => sub ++ [node_from]) subresults, indeg3))))
        end
    end.

  (* [_toposort_all_bt]; returns the orderings (reversed, as in the code) and
     the in-degree dict as left by the call *)
  Fixpoint bt (fuel : nat) (starts : list node) (indeg : imap)
      : tres (list (list node) * imap) :=
    match starts with
    | [] => TOk ([[]], indeg)
    | _ :: _ =>
        match fuel with
        | 0 => TOutOfFuel
        | S fuel' => fold_res (bt_body (bt fuel') starts) (ord starts) ([], indeg)
        end
    end.

  (* [starts.discard(succ); indeg[succ] += 1] *)
  Definition all_init_step (st : list node * imap) (succ : node) : tres (list node * imap) :=
    let '(starts, indeg) := st in
    match lookup indeg succ with
    | None => TKeyError
    | Some d => TOk (discard succ starts, update indeg succ (d + 1)%Z)
    end.

  (* final loop: [return []] at the first short sub-result, else reverse all *)
  Definition toposort_all_with : tres (list (list node)) :=
    tbind (fold_res all_init_step (all_succs g) (keys g, zero_map g)) (fun '(starts, indeg) =>
    tbind (bt (length g) starts indeg) (fun '(results, _) =>
    TOk (if forallb (fun sub => length sub =? length g) results
         then map (@rev node) results else []))).
End All.

(* executable instance: sets iterated in list order *)
Definition toposort_all (g : graph) : tres (list (list node)) :=
  toposort_all_with (fun s => s) g.

(** * [_make_prec_graph] *)

(* [if k not in prec: prec[k] = set()] *)
Definition ensure_key (prec : graph) (k : node) : graph :=
  match lookup prec k with
  | Some _ => prec
  | None => prec ++ [(k, [])]
  end.

(* [prec[k].add(v)] for a key that is present *)
Fixpoint add_succ (prec : graph) (k v : node) : graph :=
  match prec with
  | [] => []
  | (k', ss) :: prec' =>
      if Nat.eqb k k' then (k', set_add v ss) :: prec' else (k', ss) :: add_succ prec' k v
  end.

(* [for gene_1, gene_2 in zip(s[0:-1], s[1:])] then [s[-1]] *)
Fixpoint prec_leaf (prec : graph) (s : list node) : tres graph :=
  match s with
  | [] => TIndexError
  | [last] => TOk (ensure_key prec last)
  | g1 :: ((g2 :: _) as s') => prec_leaf (add_succ (ensure_key prec g1) g1 g2) s'
  end.

Definition make_prec_graph (leaf_syntenies : list (list node)) : tres graph :=
  fold_res prec_leaf leaf_syntenies [].
