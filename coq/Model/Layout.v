(** Model of the layout of a reconciliation
    ([superrec2/render/layout.py]: [_layout_branches], [_layout_subtrees],
    [_finalize_layout], over [utils/geometry.py]) on exact rationals.

    The branch records and anchor sets come from [Model/Branches.v].  The two
    orientations are written separately, operation by operation as in the source
    ([..._V] = [Orientation.VERTICAL], [..._H] = [Orientation.HORIZONTAL]).  [None] stands
    for an exception (a [KeyError] when a duplication/transfer refers to a branch that has
    no rectangle yet).  IEEE rounding is not modelled.  No proofs here. *)
From Coq Require Import List Bool Arith QArith Qminmax.
From SR Require Import Base.PathB Model.Recon Model.Branches.
Import ListNotations.
Local Open Scope Q_scope.

(** * geometry.py *)
Definition pos := (Q * Q)%type.            (* Position(x, y) *)
Definition size := (Q * Q)%type.           (* Size(w, h) *)
Record rect := mkR { rx : Q; ry : Q; rw : Q; rh : Q }.

Definition padd (a b : pos) : pos := (fst a + fst b, snd a + snd b).
Definition rshift (r : rect) (d : pos) : rect := mkR (rx r + fst d) (ry r + snd d) (rw r) (rh r).
Definition make_from (p : pos) (s : size) : rect := mkR (fst p) (snd p) (fst s) (snd s).
Definition top_left (r : rect) : pos := (rx r, ry r).
Definition top (r : rect) : pos := (rx r + rw r / 2, ry r).
Definition top_right (r : rect) : pos := (rx r + rw r, ry r).
Definition right (r : rect) : pos := (rx r + rw r, ry r + rh r / 2).
Definition bottom_right (r : rect) : pos := (rx r + rw r, ry r + rh r).
Definition bottom (r : rect) : pos := (rx r + rw r / 2, ry r + rh r).
Definition bottom_left (r : rect) : pos := (rx r, ry r + rh r).
Definition left (r : rect) : pos := (rx r, ry r + rh r / 2).
Definition center (r : rect) : pos := (rx r + rw r / 2, ry r + rh r / 2).

(** * DrawParams (the fields the layout reads) *)
Record params := { pad : Q;      (* species_branch_padding *)
                   gsp : Q;      (* gene_branch_spacing *)
                   ovh : Q;      (* trunk_overhead *)
                   mss : Q;      (* min_subtree_spacing *)
                   lsp : Q }.    (* level_spacing *)

(* [min(generator)] / [max(generator)] of a non-empty sequence *)
Definition list_min (d : Q) (l : list Q) : Q := match l with [] => d | x :: t => fold_left Qmin t x end.
Definition list_max (d : Q) (l : list Q) : Q := match l with [] => d | x :: t => fold_left Qmax t x end.

Fixpoint afind {A} (a : anchor) (l : list (anchor * A)) : option A :=
  match l with
  | [] => None
  | (k, v) :: t => if anchor_eqb a k then Some v else afind a t
  end.

(** * [_layout_branches]: one species *)
Record lbstate := { na : Q;                              (* next_pos_across *)
                    ns : Q;                              (* next_pos_sequence *)
                    done : list (anchor * (kind * rect)) }.   (* branches that have a rect *)

Definition push (st : lbstate) (na' ns' : Q) (b : branch) (r : rect) : lbstate :=
  {| na := na'; ns := ns'; done := done st ++ [(b_id b, (b_kind b, r))] |}.

Definition look (st : lbstate) (a : option anchor) : option rect :=
  match a with
  | Some k => match afind k (done st) with Some (_, r) => Some r | None => None end
  | None => None
  end.

Definition step_V (P : params) (st : lbstate) (bs : branch * size) : option lbstate :=
  let b := fst bs in let w := fst (snd bs) in let h := snd (snd bs) in
  match b_kind b with
  | KLeaf =>
      let na1 := na st - w in
      Some (push st (na1 - gsp P) (ns st) b (make_from (na1, - h) (w, h)))
  | KSpe | KLoss =>
      let na1 := na st - w in
      Some (push st (na1 - gsp P) ((ns st + h) + gsp P) b (make_from (na1, ns st) (w, h)))
  | KDup =>
      match look st (b_left b), look st (b_right b) with
      | Some L, Some R =>
          let across := (fst (padd (center L) (center R)) - w) / 2 in
          let sequence := Qmin (Qmin (pad P) (ry L)) (ry R) - pad P - h in
          Some (push st (na st) (ns st) b (make_from (across, sequence) (w, h)))
      | _, _ => None
      end
  | KTr =>
      match look st (b_left b) with
      | Some C =>
          let across := fst (center C) - w / 2 in
          let sequence := Qmin (pad P) (ry C) - pad P - h in
          Some (push st (na st) (ns st) b (make_from (across, sequence) (w, h)))
      | None => None
      end
  end.

Definition step_H (P : params) (st : lbstate) (bs : branch * size) : option lbstate :=
  let b := fst bs in let w := fst (snd bs) in let h := snd (snd bs) in
  match b_kind b with
  | KLeaf =>
      let na1 := na st - h in
      Some (push st (na1 - gsp P) (ns st) b (make_from (- w, na1) (w, h)))
  | KSpe | KLoss =>
      let na1 := na st - h in
      Some (push st (na1 - gsp P) ((ns st + w) + gsp P) b (make_from (ns st, na1) (w, h)))
  | KDup =>
      match look st (b_left b), look st (b_right b) with
      | Some L, Some R =>
          let across := (snd (padd (center L) (center R)) - h) / 2 in
          let sequence := Qmin (Qmin (pad P) (rx L)) (rx R) - pad P - w in
          Some (push st (na st) (ns st) b (make_from (sequence, across) (w, h)))
      | _, _ => None
      end
  | KTr =>
      match look st (b_left b) with
      | Some C =>
          let across := snd (center C) - h / 2 in
          let sequence := Qmin (pad P) (rx C) - pad P - w in
          Some (push st (na st) (ns st) b (make_from (sequence, across) (w, h)))
      | None => None
      end
  end.

Fixpoint run_steps (step : lbstate -> branch * size -> option lbstate) (st : lbstate) (l : list (branch * size))
  : option lbstate :=
  match l with
  | [] => Some st
  | x :: t => match step st x with Some st' => run_steps step st' t | None => None end
  end.

(* what [_layout_branches] leaves for one species: rectangles of the branches (in dict
   order) and the anchor points, both relative to the trunk and shifted for the padding *)
Record slay := { s_branches : list (anchor * (kind * rect)); s_anchors : list (anchor * pos) }.

Definition init (P : params) : lbstate := {| na := 0; ns := pad P; done := [] |}.

(* anchor points of the branches that are anchor nodes *)
Definition anchors_V (ancs : list anchor) (brs : list (anchor * (kind * rect))) : list (anchor * pos) :=
  flat_map (fun e => if amem (fst e) ancs then [(fst e, (fst (center (snd (snd e))), 0))] else []) brs.
Definition anchors_H (ancs : list anchor) (brs : list (anchor * (kind * rect))) : list (anchor * pos) :=
  flat_map (fun e => if amem (fst e) ancs then [(fst e, (0, snd (center (snd (snd e)))))] else []) brs.

(* [padding_shift] *)
Definition shift_V (P : params) (brs : list (anchor * (kind * rect))) : pos :=
  match brs with
  | [] => (0, 0)
  | _ => (list_min 0 (map (fun e => - fst (right (snd (snd e)))) brs) - pad P, 0)
  end.
Definition shift_H (P : params) (brs : list (anchor * (kind * rect))) : pos :=
  match brs with
  | [] => (0, 0)
  | _ => (0, list_min 0 (map (fun e => - snd (bottom (snd (snd e)))) brs) - pad P)
  end.

Definition shifted (brs : list (anchor * (kind * rect))) (anchors : list (anchor * pos)) (shift : pos) : slay :=
  {| s_branches := map (fun e => (fst e, (fst (snd e), rshift (snd (snd e)) shift))) brs;
     s_anchors := map (fun e => (fst e, padd (snd e) shift)) anchors |}.

Definition species_V (P : params) (l : list (branch * size)) (ancs : list anchor) : option slay :=
  match run_steps (step_V P) (init P) l with
  | Some st => Some (shifted (done st) (anchors_V ancs (done st)) (shift_V P (done st)))
  | None => None
  end.

Definition species_H (P : params) (l : list (branch * size)) (ancs : list anchor) : option slay :=
  match run_steps (step_H P) (init P) l with
  | Some st => Some (shifted (done st) (anchors_H ancs (done st)) (shift_H P (done st)))
  | None => None
  end.

(** * [_layout_subtrees], first loop (post-order): sizes *)
Record sinfo := { i_size : size; i_trunk : rect; i_fork : Q; i_lpos : pos; i_rpos : pos; i_lay : slay }.
Inductive itree := ILeaf (i : sinfo) | INode (i : sinfo) (l r : itree).
Definition iinfo (t : itree) : sinfo := match t with ILeaf i => i | INode i _ _ => i end.

Definition rects_of (sl : slay) : list rect := map (fun e => snd (snd e)) (s_branches sl).

(* (trunk_width, trunk_height, fork_thickness) *)
Definition trunk_dims_V (P : params) (sl : slay) : Q * Q * Q :=
  match rects_of sl with
  | [] => (0, ovh P, 0)
  | rs => (list_max 0 (map (fun r => - fst (top_left r)) rs) + pad P,
           Qmax 0 (list_max 0 (map (fun r => - snd (top_left r)) rs)) + ovh P,
           Qmax 0 (list_max 0 (map (fun r => snd (bottom_right r)) rs)) + pad P)
  end.
Definition trunk_dims_H (P : params) (sl : slay) : Q * Q * Q :=
  match rects_of sl with
  | [] => (ovh P, 0, 0)
  | rs => (Qmax 0 (list_max 0 (map (fun r => - fst (top_left r)) rs)) + ovh P,
           list_max 0 (map (fun r => - snd (top_left r)) rs) + pad P,
           Qmax 0 (list_max 0 (map (fun r => fst (bottom_right r)) rs)) + pad P)
  end.

Definition leaf_info (tw th : Q) (sl : slay) : sinfo :=
  {| i_size := (tw, th); i_trunk := make_from (0, 0) (tw, th); i_fork := 0; i_lpos := (0, 0); i_rpos := (0, 0); i_lay := sl |}.

Definition node_info_V (P : params) (tw th fk : Q) (sl : slay) (L R : sinfo) : sinfo :=
  let span := (Qmax (snd (i_size L)) (snd (i_size R)) + th) + (lsp P + fk) in
  let left_trunk_dist := fst (i_size L) - fst (right (i_trunk L)) in
  let right_trunk_dist := fst (left (i_trunk R)) in
  let spacing := Qmax (tw - (left_trunk_dist + right_trunk_dist)) (mss P) in
  {| i_size := ((fst (i_size L) + spacing) + fst (i_size R), span);
     i_lpos := (0, span - snd (i_size L));
     i_rpos := (fst (i_size L) + spacing, span - snd (i_size R));
     i_trunk := make_from (fst (i_size L) + (spacing - tw) / 2, 0) (tw, th);
     i_fork := fk; i_lay := sl |}.

Definition node_info_H (P : params) (tw th fk : Q) (sl : slay) (L R : sinfo) : sinfo :=
  let span := (Qmax (fst (i_size L)) (fst (i_size R)) + tw) + (lsp P + fk) in
  let left_trunk_dist := snd (i_size L) - snd (bottom (i_trunk L)) in
  let right_trunk_dist := snd (top (i_trunk R)) in
  let spacing := Qmax (th - (left_trunk_dist + right_trunk_dist)) (mss P) in
  {| i_size := (span, (snd (i_size L) + spacing) + snd (i_size R));
     i_lpos := (span - fst (i_size L), 0);
     i_rpos := (span - fst (i_size R), snd (i_size L) + spacing);
     i_trunk := make_from (0, snd (i_size L) + (spacing - th) / 2) (tw, th);
     i_fork := fk; i_lay := sl |}.

(* [lays X]: the result of [_layout_branches] for the species at path [X] *)
Fixpoint sizes_V (P : params) (lays : path -> slay) (S : stree) (X : path) : itree :=
  let sl := lays X in
  let '(tw, th, fk) := trunk_dims_V P sl in
  match S with
  | SLeaf => ILeaf (leaf_info tw th sl)
  | SNode l r =>
      let L := sizes_V P lays l (X ++ [false]) in
      let R := sizes_V P lays r (X ++ [true]) in
      INode (node_info_V P tw th fk sl (iinfo L) (iinfo R)) L R
  end.
Fixpoint sizes_H (P : params) (lays : path -> slay) (S : stree) (X : path) : itree :=
  let sl := lays X in
  let '(tw, th, fk) := trunk_dims_H P sl in
  match S with
  | SLeaf => ILeaf (leaf_info tw th sl)
  | SNode l r =>
      let L := sizes_H P lays l (X ++ [false]) in
      let R := sizes_H P lays r (X ++ [true]) in
      INode (node_info_H P tw th fk sl (iinfo L) (iinfo R)) L R
  end.

(** * [_layout_subtrees], second loop (pre-order): absolute positions; [_finalize_layout] *)
Record dbranch := { d_id : anchor; d_kind : kind; d_rect : rect;
                    d_parent : pos; d_left : pos; d_right : pos; d_child : pos }.
Record sublayout := { l_rect : rect; l_trunk : rect; l_fork : Q;
                      l_anchors : list (anchor * pos); l_branches : list dbranch }.
Inductive ltree := LLeaf (s : sublayout) | LNode (s : sublayout) (l r : ltree).
Definition linfo (t : ltree) : sublayout := match t with LLeaf s => s | LNode s _ _ => s end.

Definition dbranch_V (corner : pos) (e : anchor * (kind * rect)) : dbranch :=
  let r := rshift (snd (snd e)) corner in
  match fst (snd e) with
  | KLoss => {| d_id := fst e; d_kind := KLoss; d_rect := r;
                d_parent := center r; d_left := center r; d_right := center r; d_child := center r |}
  | k => {| d_id := fst e; d_kind := k; d_rect := r;
            d_parent := top r; d_left := left r; d_right := right r; d_child := bottom r |}
  end.
Definition dbranch_H (corner : pos) (e : anchor * (kind * rect)) : dbranch :=
  let r := rshift (snd (snd e)) corner in
  match fst (snd e) with
  | KLoss => {| d_id := fst e; d_kind := KLoss; d_rect := r;
                d_parent := center r; d_left := center r; d_right := center r; d_child := center r |}
  | k => {| d_id := fst e; d_kind := k; d_rect := r;
            d_parent := left r; d_left := top r; d_right := bottom r; d_child := right r |}
  end.

Definition place_V (i : sinfo) (this_rect : rect) : sublayout :=
  let trunk := rshift (i_trunk i) (top_left this_rect) in
  {| l_rect := this_rect; l_trunk := trunk; l_fork := i_fork i;
     l_anchors := map (fun e => (fst e, padd (snd e) (top_right trunk))) (s_anchors (i_lay i));
     l_branches := map (dbranch_V (bottom_right trunk)) (s_branches (i_lay i)) |}.
Definition place_H (i : sinfo) (this_rect : rect) : sublayout :=
  let trunk := rshift (i_trunk i) (top_left this_rect) in
  {| l_rect := this_rect; l_trunk := trunk; l_fork := i_fork i;
     l_anchors := map (fun e => (fst e, padd (snd e) (bottom_left trunk))) (s_anchors (i_lay i));
     l_branches := map (dbranch_H (bottom_right trunk)) (s_branches (i_lay i)) |}.

Fixpoint absolute (place : sinfo -> rect -> sublayout) (t : itree) (this_rect : rect) : ltree :=
  match t with
  | ILeaf i => LLeaf (place i this_rect)
  | INode i l r =>
      LNode (place i this_rect)
            (absolute place l (make_from (padd (top_left this_rect) (i_lpos i)) (i_size (iinfo l))))
            (absolute place r (make_from (padd (top_left this_rect) (i_rpos i)) (i_size (iinfo r))))
  end.

(** * [_layout_branches], measuring: sizes are zipped with the branches of all species,
    species in post-order (the insertion order of [layout_state]), a missing measure
    reading as [Size(0, 0)] *)
Fixpoint zip_sizes (bs : list branch) (sizes : list size) : list (branch * size) * list size :=
  match bs with
  | [] => ([], sizes)
  | b :: t =>
      match sizes with
      | [] => let '(z, rest) := zip_sizes t [] in ((b, (0, 0)) :: z, rest)
      | s :: sizes' => let '(z, rest) := zip_sizes t sizes' in ((b, s) :: z, rest)
      end
  end.

Fixpoint measure_all (ops : list op) (order : list path) (sizes : list size) : list (path * list (branch * size)) :=
  match order with
  | [] => []
  | X :: t => let '(z, rest) := zip_sizes (branches_at X ops) sizes in (X, z) :: measure_all ops t rest
  end.

Fixpoint pfind {A} (X : path) (l : list (path * A)) : option A :=
  match l with
  | [] => None
  | (k, v) :: t => if path_eqb X k then Some v else pfind X t
  end.

Inductive orient := Vertical | Horizontal.

Definition empty_slay : slay := {| s_branches := []; s_anchors := [] |}.

(* every species' [_layout_branches]; [None] if one of them raises *)
Fixpoint all_species (sp : list (branch * size) -> list anchor -> option slay) (ops : list op)
  (m : list (path * list (branch * size))) : option (list (path * slay)) :=
  match m with
  | [] => Some []
  | (X, l) :: t =>
      match run_anchors X ops [] with
      | Some fin =>
          match sp l (filter (fun a => amem a fin) (map b_id (branches_at X ops))), all_species sp ops t with
          | Some sl, Some rest => Some ((X, sl) :: rest)
          | _, _ => None
          end
      | None => None
      end
  end.

(** [layout.compute] *)
Definition layout (o : orient) (P : params) (S : stree) (r : rtree) (sizes : list size) : option ltree :=
  match all_ops S r with
  | Some ops =>
      let m := measure_all ops (spost S) sizes in
      match all_species (match o with Vertical => species_V P | Horizontal => species_H P end) ops m with
      | Some lays =>
          let look X := match pfind X lays with Some sl => sl | None => empty_slay end in
          let it := match o with Vertical => sizes_V P look S [] | Horizontal => sizes_H P look S [] end in
          Some (absolute (match o with Vertical => place_V | Horizontal => place_H end) it
                         (make_from (0, 0) (i_size (iinfo it))))
      | None => None
      end
  | None => None
  end.

Fixpoint flatten (t : ltree) : list sublayout :=
  match t with LLeaf s => [s] | LNode s l r => s :: flatten l ++ flatten r end.
