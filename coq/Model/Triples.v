(** Model of the triple / supertree routines of [superrec2/utils/trees.py]:
    [tree_from_triples] (OneTree/BUILD), [all_trees_from_triples] (AllTrees),
    [tree_to_triples] (BreakUp).

    Leaf names are naturals (the harness uses one-character names, for which the
    string order [left <= right] is the numeric order).  A triple [(a, b, c)]
    stands for the rooted triple ((a,b),c).  Python's [None] result is [Ok None];
    exceptions are [Err].

    - [build fuel leaves triples] mirrors [tree_from_triples]: the three base
      cases, the partition obtained by uniting the first two leaves of every
      triple, the [len(partition) <= 1] test, and the loop over
      [partition.to_list()] that returns [None] at the first inconsistent group.
      The Python recursion is on the call stack; here on fuel, [length leaves]
      being enough (proved: groups strictly shrink) and [OutOfFuel] explicit.
    - [all_trees ord leaves triples] mirrors [all_trees_from_triples] including
      its guard [tree_from_triples(...) is None]; [ord] is the iteration order of
      the set of representatives inside [DisjointSet.binary] (see DisjointSet.v).
    - [breakup fuel choices t] mirrors [tree_to_triples]: [minimal_int_nodes] is
      at every moment the set of all internal nodes whose children are all
      leaves; [set.pop()] returns an arbitrary one, here the [k]-th in left to
      right order with [k] read from the oracle [choices] ([Ok None] when the
      oracle does not fit; every order is allowed).  [all_breakups] enumerates
      the outcomes over all oracles. *)
From Coq Require Import List Bool Arith ZArith.
From SR Require Import Model.DisjointSet.
Import ListNotations.

Inductive tree := Leaf (name : nat) | Node (children : list tree).

Definition triple : Type := nat * nat * nat.

(* ---------------------------------------------------------------- helpers *)

(* leaf_index = {leaf: i for i, leaf in enumerate(leaves)}: the last occurrence wins *)
Fixpoint index_of (x : nat) (l : list nat) : option nat :=
  match l with
  | [] => None
  | y :: r =>
      match index_of x r with
      | Some i => Some (S i)
      | None => if x =? y then Some 0 else None
      end
  end.

Definition lookup (leaves : list nat) (x : nat) : res nat :=
  match index_of x leaves with
  | Some i => Ok i
  | None => Err KeyError
  end.

Definition mem (x : nat) (l : list nat) : bool := existsb (Nat.eqb x) l.

(* all(leaf in group_leaves for leaf in triple) *)
Definition inside (gl : list nat) (t : triple) : bool :=
  let '(a, b, c) := t in mem a gl && mem b gl && mem c gl.

(* for left, right, _ in triples: partition.unite(leaf_index[left], leaf_index[right]) *)
Fixpoint unite_triples (leaves : list nat) (ts : list triple) (d : dsu) : res dsu :=
  match ts with
  | [] => Ok d
  | (a, b, _) :: r =>
      ia <- lookup leaves a ;;
      ib <- lookup leaves b ;;
      ' (d1, _) <- unite d ia ib ;;
      unite_triples leaves r d1
  end.

(* [leaves[item] for item in group] *)
Fixpoint get_all (leaves : list nat) (g : list nat) : res (list nat) :=
  match g with
  | [] => Ok []
  | i :: r => x <- get leaves i ;; xs <- get_all leaves r ;; Ok (x :: xs)
  end.

(* ------------------------------------------------------- tree_from_triples *)

(* the loop [for group in partition.to_list()] *)
Fixpoint build_groups (rec : list nat -> list triple -> res (option tree))
    (leaves : list nat) (triples : list triple) (gs : list (list nat)) (acc : list tree)
  : res (option tree) :=
  match gs with
  | [] => Ok (Some (Node acc))
  | g :: rest =>
      gl <- get_all leaves g ;;
      sub <- rec gl (filter (inside gl) triples) ;;
      match sub with
      | None => Ok None
      | Some s => build_groups rec leaves triples rest (acc ++ [s])
      end
  end.

Fixpoint build (fuel : nat) (leaves : list nat) (triples : list triple) : res (option tree) :=
  match leaves with
  | [] => Ok None
  | [a] => Ok (Some (Leaf a))
  | [a; b] => Ok (Some (Node [Leaf a; Leaf b]))
  | _ =>
      match fuel with
      | 0 => Err OutOfFuel
      | S f =>
          d <- unite_triples leaves triples (make (length leaves)) ;;
          if (len d <=? 1)%Z then Ok None
          else
            ' (_, gs) <- to_list d ;;
            build_groups (build f) leaves triples gs []
      end
  end.

Definition tree_from_triples (leaves : list nat) (triples : list triple) : res (option tree) :=
  build (length leaves) leaves triples.

(* -------------------------------------------------- all_trees_from_triples *)

(* [Node [l; r]] for (l, r) in product(ls, rs) *)
Definition product_trees (ls rs : list tree) : list tree :=
  flat_map (fun l => map (fun r => Node [l; r]) rs) ls.

(* the loop [for bin_partition in partition.binary()] *)
Fixpoint all_bins (rec : list nat -> list triple -> res (list tree))
    (leaves : list nat) (triples : list triple) (bins : list dsu) : res (list tree) :=
  match bins with
  | [] => Ok []
  | b :: rest =>
      ' (_, gs) <- to_list b ;;
      gls <- (fix go (gs : list (list nat)) : res (list (list nat)) :=
                match gs with
                | [] => Ok []
                | g :: r => gl <- get_all leaves g ;; x <- go r ;; Ok (gl :: x)
                end) gs ;;
      gl0 <- get gls 0 ;;
      gl1 <- get gls 1 ;;
      ls <- rec gl0 (filter (inside gl0) triples) ;;
      rs <- rec gl1 (filter (inside gl1) triples) ;;
      more <- all_bins rec leaves triples rest ;;
      Ok (product_trees ls rs ++ more)
  end.

Fixpoint all_trees_aux (ord : list nat -> list nat) (fuel : nat)
    (leaves : list nat) (triples : list triple) : res (list tree) :=
  match leaves with
  | [] => Ok []
  | [a] => Ok [Leaf a]
  | [a; b] => Ok [Node [Leaf a; Leaf b]]
  | _ =>
      match fuel with
      | 0 => Err OutOfFuel
      | S f =>
          d <- unite_triples leaves triples (make (length leaves)) ;;
          ' (_, bins) <- binary ord d ;;
          all_bins (all_trees_aux ord f) leaves triples bins
      end
  end.

Definition all_trees (ord : list nat -> list nat) (leaves : list nat) (triples : list triple)
  : res (list tree) :=
  t <- tree_from_triples leaves triples ;;
  match t with
  | None => Ok []
  | Some _ => all_trees_aux ord (length leaves) leaves triples
  end.

(* ---------------------------------------------------------- tree_to_triples *)

Definition is_leaf (t : tree) : bool :=
  match t with Leaf _ => true | Node _ => false end.

(* [leaf.name for leaf in tree.get_leaves()] *)
Fixpoint leaves_of (t : tree) : list nat :=
  match t with
  | Leaf a => [a]
  | Node cs => flat_map leaves_of cs
  end.

(* paths (child indices from the root) of the internal nodes all of whose
   children are leaves, left to right *)
Fixpoint min_paths (t : tree) : list (list nat) :=
  match t with
  | Leaf _ => []
  | Node cs =>
      if forallb is_leaf cs then [[]]
      else (fix go (i : nat) (cs : list tree) : list (list nat) :=
              match cs with
              | [] => []
              | c :: r => map (cons i) (min_paths c) ++ go (S i) r
              end) 0 cs
  end.

Fixpoint remove_nth {A : Type} (i : nat) (l : list A) : list A :=
  match l, i with
  | [], _ => []
  | _ :: r, 0 => r
  | x :: r, S j => x :: remove_nth j r
  end.

(* one iteration of the while loop at the node [other = cs[i]] of a parent with
   children [cs]: the new children of the parent and the emitted triple *)
Definition pop_here (i : nat) (cs : list tree) : res (list tree * triple) :=
  other <- get cs i ;;
  let sisters := remove_nth i cs in
  sister <- get sisters 0 ;;                               (* other.get_sisters()[0] *)
  leaf <- get (leaves_of sister) 0 ;;                      (* .get_leaves()[0].name *)
  match other with
  | Node [Leaf l; Leaf r] =>                               (* left_node, right_node = other.children *)
      Ok (sisters ++ [Leaf r], if l <=? r then (l, r, leaf) else (r, l, leaf))
  | _ => Err ValueError
  end.

Fixpoint pop_at (p : list nat) (t : tree) : res (tree * triple) :=
  match p, t with
  | [i], Node cs => ' (cs', tr) <- pop_here i cs ;; Ok (Node cs', tr)
  | i :: q, Node cs =>
      c <- get cs i ;;
      ' (c', tr) <- pop_at q c ;;
      Ok (Node (set_nth i c' cs), tr)
  | _, _ => Err IndexError
  end.

Fixpoint breakup (fuel : nat) (choices : list nat) (t : tree) : res (option (list triple)) :=
  match min_paths t with
  | [] => Ok (Some [])                                     (* while minimal_int_nodes: *)
  | ps =>
      match fuel with
      | 0 => Err OutOfFuel
      | S f =>
          match choices with
          | [] => Ok None
          | k :: ks =>
              match nth_error ps k with
              | None => Ok None
              | Some [] => Ok (Some [])                    (* parent is None: break *)
              | Some p =>
                  ' (t', tr) <- pop_at p t ;;
                  r <- breakup f ks t' ;;
                  Ok (option_map (cons tr) r)
              end
          end
      end
  end.

Fixpoint size (t : tree) : nat :=
  match t with
  | Leaf _ => 1
  | Node cs => S (fold_right (fun c n => size c + n) 0 cs)
  end.

(* (leaves, triples) as returned by tree_to_triples under the oracle [choices] *)
Definition tree_to_triples (choices : list nat) (t : tree) : res (option (list nat * list triple)) :=
  r <- breakup (size t) choices t ;;
  Ok (option_map (fun ts => (leaves_of t, ts)) r).

(* every outcome of the while loop, over all pop orders *)
Fixpoint all_breakups (fuel : nat) (t : tree) : res (list (list triple)) :=
  match min_paths t with
  | [] => Ok [[]]
  | ps =>
      match fuel with
      | 0 => Err OutOfFuel
      | S f =>
          (fix go (ps : list (list nat)) : res (list (list triple)) :=
             match ps with
             | [] => Ok []
             | [] :: r => more <- go r ;; Ok ([] :: more)
             | p :: r =>
                 ' (t', tr) <- pop_at p t ;;
                 sub <- all_breakups f t' ;;
                 more <- go r ;;
                 Ok (map (cons tr) sub ++ more)
             end) ps
      end
  end.
