(** Model of [superrec2.render.tikz] as far as C15 needs it: statement templates
    (the data itself is generated into Gen/TikzTemplates.v from the source on
    every run), brace scanning, instantiation, and the statement sequence of
    [render] (which templates are emitted for which branch, colour interning,
    label texts, the order definitions / colour definitions / picture).
    Geometry is not modelled: coordinates are holes.  No proofs here. *)
From Coq Require Import String Ascii List Bool Arith.
From SR Require Import Model.Escape Model.Wrap Model.Colour.
Import ListNotations.
Local Open Scope string_scope.
Local Open Scope list_scope.

(** * Templates *)
Inductive hole := HCoord | HColourName | HColourIndex | HColourHtml | HLabel | HParam | HLayerName.
Inductive item := Lit (s : string) | Nl | Hole (h : hole).
Inductive kind := KLeaf | KSpe | KDup | KTr | KLoss.

(** tests of the source the translator turns into guards *)
Inductive atom :=
  | AVertical        (* params.orientation == Orientation.VERTICAL *)
  | ASpeciesLeaf     (* species_node.is_leaf() *)
  | AAnchored        (* root_gene in layout.anchors *)
  | ARightNone       (* right_gene is None *)
  | AXLess           (* branch_pos.x < foreign_pos.x *)
  | AYGreater        (* branch_pos.y > foreign_pos.y *)
  | AWrapSpecies     (* params.species_label_width is not None *)
  | AInterned        (* html in colors *)
  | ANameEmpty       (* not branch.name   (name = branch.name or "\phantom{-}") *)
  | AKind (k : kind) (* [branch.]kind == <event> *).

(** where a string goes *)
Inductive site :=
  | SDefs                  (* value of get_tikz_definitions: first element of result *)
  | SMeasure               (* boxes.append in measure_nodes *)
  | SLayer (name : string) (* layers[name].append: a statement of the picture *)
  | SColourName            (* value of get_color *)
  | SColourDef | SBegin | SComment | SEnd | STrailer (* result.append in render *).

Record entry := mkEntry {
  e_id : nat; e_fn : string; e_site : site; e_guards : list (atom * bool); e_items : list item }.

(** order of [result.append/extend] in [render] *)
Inductive lskel := LSite (s : site) | LBody.
Inductive skel := SkSite (s : site) | SkEachColour (body : list site) | SkEachLayer (body : list lskel).

(** * Braces *)
Definition lbrace : ascii := "{"%char.
Definition rbrace : ascii := "}"%char.
Definition semi : ascii := ";"%char.

(** depth after reading [s] from depth [d]; [None] when a brace closes below depth 0 *)
Fixpoint scan (s : str) (d : nat) : option nat :=
  match s with
  | [] => Some d
  | c :: r =>
      if Ascii.eqb c lbrace then scan r (S d)
      else if Ascii.eqb c rbrace then match d with 0 => None | S d' => scan r d' end
      else scan r d
  end.

Definition balanced (s : str) : bool :=
  match scan s 0 with Some 0 => true | _ => false end.

Fixpoint last_char (s : str) : option ascii :=
  match s with
  | [] => None
  | c :: r => match r with [] => Some c | _ => last_char r end
  end.

Definition ends_with_semi (s : str) : bool :=
  match last_char s with Some c => Ascii.eqb c semi | None => false end.

(** * Instantiation: the holes are filled, left to right, with [vals] *)
Fixpoint inst (its : list item) (vals : list str) : option str :=
  match its with
  | [] => match vals with [] => Some [] | _ => None end
  | Lit s :: r => option_map (app (list_ascii_of_string s)) (inst r vals)
  | Nl :: r => option_map (cons nl) (inst r vals)
  | Hole _ :: r =>
      match vals with
      | v :: vs => option_map (app v) (inst r vs)
      | [] => None
      end
  end.

(** * The check run by the kernel on every generated template *)
Fixpoint scan_items (its : list item) (d : nat) : option nat :=
  match its with
  | [] => Some d
  | Lit s :: r =>
      match scan (list_ascii_of_string s) d with
      | Some d' => scan_items r d'
      | None => None
      end
  | _ :: r => scan_items r d
  end.

Fixpoint ends_semi (its : list item) : bool :=
  match its with
  | [] => false
  | x :: r =>
      match r with
      | [] => match x with Lit s => ends_with_semi (list_ascii_of_string s) | _ => false end
      | _ => ends_semi r
      end
  end.

Definition is_stmt (s : site) : bool :=
  match s with SLayer _ | SMeasure => true | _ => false end.

Definition template_ok (e : entry) : bool :=
  match scan_items (e_items e) 0 with Some 0 => true | _ => false end
  && (if is_stmt (e_site e) then ends_semi (e_items e) else true).

Definition site_eqb (a b : site) : bool :=
  match a, b with
  | SDefs, SDefs | SMeasure, SMeasure | SColourName, SColourName | SColourDef, SColourDef
  | SBegin, SBegin | SComment, SComment | SEnd, SEnd | STrailer, STrailer => true
  | SLayer x, SLayer y => String.eqb x y
  | _, _ => false
  end.

Definition hole_eqb (a b : hole) : bool :=
  match a, b with
  | HCoord, HCoord | HColourName, HColourName | HColourIndex, HColourIndex | HColourHtml, HColourHtml
  | HLabel, HLabel | HParam, HParam | HLayerName, HLayerName => true
  | _, _ => false
  end.

Definition item_eqb (a b : item) : bool :=
  match a, b with
  | Lit x, Lit y => String.eqb x y
  | Nl, Nl => true
  | Hole x, Hole y => hole_eqb x y
  | _, _ => false
  end.

Fixpoint items_eqb (a b : list item) : bool :=
  match a, b with
  | [], [] => true
  | x :: a', y :: b' => item_eqb x y && items_eqb a' b'
  | _, _ => false
  end.

Definition has_hole (h : hole) (its : list item) : bool :=
  existsb (fun x => match x with Hole k => hole_eqb k h | _ => false end) its.

Definition count_site (s : site) (tpls : list entry) : nat :=
  length (filter (fun e => site_eqb (e_site e) s) tpls).

(** the colour definition names exactly what [get_color] returns:
    name = [prefix ++ index], definition = [\definecolor{prefix ++ index}{HTML}{html}] *)
Definition colourdef_ok (tpls : list entry) : bool :=
  match filter (fun e => site_eqb (e_site e) SColourName) tpls,
        filter (fun e => site_eqb (e_site e) SColourDef) tpls with
  | [n], [d] =>
      match e_items n with
      | [Lit p; Hole HColourIndex] =>
          items_eqb (e_items d)
            [Lit (String.append "\definecolor{" p); Hole HColourIndex; Lit "}{HTML}{"; Hole HColourHtml; Lit "}"]
      | _ => false
      end
  | _, _ => false
  end.

(** one picture environment: [render] opens and closes it once, and no other template mentions it *)
Fixpoint is_sub (a b : str) : bool :=     (* a occurs in b *)
  match b with
  | [] => is_nil a
  | _ :: r => (if list_eq_dec ascii_dec (firstn (length a) b) a then true else false) || is_sub a r
  end.

Definition mentions (w : string) (its : list item) : bool :=
  existsb (fun x => match x with Lit s => is_sub (list_ascii_of_string w) (list_ascii_of_string s) | _ => false end) its.

Definition environment_ok (tpls : list entry) (sk : list skel) : bool :=
  forallb (fun e =>
    match e_site e with
    | SBegin => items_eqb (e_items e) [Lit "\begin{tikzpicture}"]
    | SEnd => items_eqb (e_items e) [Lit "\end{tikzpicture}"]
    | SDefs | SLayer _ | SColourDef | SComment | STrailer | SColourName =>
        negb (mentions "\begin" (e_items e) || mentions "\end" (e_items e))
    | SMeasure => true
    end) tpls
  && Nat.eqb (count_site SBegin tpls) 1 && Nat.eqb (count_site SEnd tpls) 1.

(** the order [render] assembles its result in *)
Definition expected_skeleton : list skel :=
  [SkSite SDefs; SkEachColour [SColourDef]; SkSite SBegin;
   SkEachLayer [LSite SComment; LBody]; SkSite SEnd; SkSite STrailer].

Definition lskel_eqb (a b : lskel) : bool :=
  match a, b with LSite x, LSite y => site_eqb x y | LBody, LBody => true | _, _ => false end.

Fixpoint list_eqb {A} (f : A -> A -> bool) (a b : list A) : bool :=
  match a, b with
  | [], [] => true
  | x :: a', y :: b' => f x y && list_eqb f a' b'
  | _, _ => false
  end.

Definition skel_eqb (a b : skel) : bool :=
  match a, b with
  | SkSite x, SkSite y => site_eqb x y
  | SkEachColour x, SkEachColour y => list_eqb site_eqb x y
  | SkEachLayer x, SkEachLayer y => list_eqb lskel_eqb x y
  | _, _ => false
  end.

(** * The statement sequence of [render] *)
Record branch := mkBranch {
  b_kind : kind; b_anch : bool; b_rnone : bool; b_xless : bool; b_ygreater : bool;
  b_colour : string; b_label : string }.
Record species := mkSpecies { sp_leaf : bool; sp_label : string; sp_branches : list branch }.
Record stmt := mkStmt { s_tid : nat; s_layer : string; s_colour : option string; s_label : option string }.

Definition kind_eqb (a b : kind) : bool :=
  match a, b with
  | KLeaf, KLeaf | KSpe, KSpe | KDup, KDup | KTr, KTr | KLoss, KLoss => true
  | _, _ => false
  end.

(** [None]: a guard the model cannot interpret at this place (the model is then void) *)
Fixpoint holds (env : atom -> option bool) (gs : list (atom * bool)) : option bool :=
  match gs with
  | [] => Some true
  | (a, b) :: r =>
      match env a, holds env r with
      | Some v, Some w => Some (Bool.eqb v b && w)
      | _, _ => None
      end
  end.

Definition branch_env (vertical : bool) (b : branch) (a : atom) : option bool :=
  match a with
  | AVertical => Some vertical
  | AKind k => Some (kind_eqb k (b_kind b))
  | AAnchored => Some (b_anch b)
  | ARightNone => Some (b_rnone b)
  | AXLess => Some (b_xless b)
  | AYGreater => Some (b_ygreater b)
  | ANameEmpty => Some (String.eqb (b_label b) "")
  | _ => None
  end.

Definition species_env (vertical : bool) (s : species) (a : atom) : option bool :=
  match a with
  | AVertical => Some vertical
  | ASpeciesLeaf => Some (sp_leaf s)
  | _ => None
  end.

Definition top_env (vertical : bool) (a : atom) : option bool :=
  match a with AVertical => Some vertical | _ => None end.

(** the picture statements one call of [fn] appends, in source order *)
Fixpoint emit (tpls : list entry) (fn : string) (env : atom -> option bool) (colour label : string)
  : option (list stmt) :=
  match tpls with
  | [] => Some []
  | e :: r =>
      match emit r fn env colour label with
      | None => None
      | Some rest =>
          match e_site e with
          | SLayer ly =>
              if String.eqb (e_fn e) fn then
                match holds env (e_guards e) with
                | None => None
                | Some true =>
                    Some (mkStmt (e_id e) ly
                            (if has_hole HColourName (e_items e) then Some colour else None)
                            (if has_hole HLabel (e_items e) then Some label else None) :: rest)
                | Some false => Some rest
                end
              else Some rest
          | _ => Some rest
          end
      end
  end.

Fixpoint concat_opt {A} (l : list (option (list A))) : option (list A) :=
  match l with
  | [] => Some []
  | None :: _ => None
  | Some x :: r => option_map (app x) (concat_opt r)
  end.

Definition emit_species (tpls : list entry) (vertical : bool) (s : species) : option (list stmt) :=
  concat_opt
    (emit tpls "_tikz_draw_fork" (species_env vertical s) "" (sp_label s)
     :: map (fun b => emit tpls "_tikz_draw_branches" (branch_env vertical b) (b_colour b) (b_label b))
            (sp_branches s)).

(** [get_color] along the statements, in the order they are created *)
Fixpoint assign (tbl : list string) (ss : list stmt) : list string * list (stmt * option nat) :=
  match ss with
  | [] => (tbl, [])
  | s :: r =>
      match s_colour s with
      | Some c =>
          let '(t1, i) := intern1 String.eqb tbl c in
          let '(t2, out) := assign t1 r in
          (t2, (s, Some i) :: out)
      | None =>
          let '(t2, out) := assign tbl r in
          (t2, (s, None) :: out)
      end
  end.

(** one line of output: template, colour index, text (label / HTML colour / layer name) *)
Definition oline := (nat * option nat * option string)%type.

Definition site_entry (tpls : list entry) (vertical : bool) (s : site) : option nat :=
  match filter (fun e => site_eqb (e_site e) s
                         && match holds (top_env vertical) (e_guards e) with Some true => true | _ => false end) tpls with
  | [e] => Some (e_id e)
  | _ => None
  end.

Fixpoint enumerate_from {A} (i : nat) (l : list A) : list (nat * A) :=
  match l with [] => [] | x :: r => (i, x) :: enumerate_from (S i) r end.

Definition walk_skel (tpls : list entry) (layers : list string) (vertical : bool)
    (tbl : list string) (ss : list (stmt * option nat)) (k : skel) : option (list oline) :=
  match k with
  | SkSite s => option_map (fun t => [(t, None, None)]) (site_entry tpls vertical s)
  | SkEachColour body =>
      concat_opt (map (fun ih : nat * string =>
        concat_opt (map (fun s => option_map (fun t => [(t, Some (fst ih), Some (snd ih))]) (site_entry tpls vertical s)) body))
        (enumerate_from 0 tbl))
  | SkEachLayer body =>
      concat_opt (map (fun ly : string =>
        concat_opt (map (fun x =>
          match x with
          | LSite s => option_map (fun t => [(t, None, Some ly)]) (site_entry tpls vertical s)
          | LBody => Some (map (fun si : stmt * option nat => (s_tid (fst si), snd si, s_label (fst si)))
                               (filter (fun si : stmt * option nat => String.eqb (s_layer (fst si)) ly) ss))
          end) body)) layers)
  end.

Definition render_model (tpls : list entry) (sk : list skel) (layers : list string)
    (vertical : bool) (spp : list species) : option (list oline) :=
  match concat_opt (map (emit_species tpls vertical) spp) with
  | None => None
  | Some ems =>
      let '(tbl, ss) := assign [] ems in
      concat_opt (map (walk_skel tpls layers vertical tbl ss) sk)
  end.

(** * Labels and colours of the branches, from the object tree *)
Record odata := mkO { o_col : option string; o_name : string; o_syn : option (list string) }.
Inductive gref := GNode (p : path) | GPseudo (p : path).   (* object node / loss on the lineage of that node *)
Record rbranch := mkRB {
  rb_kind : kind; rb_anch : bool; rb_rnone : bool; rb_xless : bool; rb_ygreater : bool; rb_gene : gref }.

Fixpoint rmap {A B} (f : A -> B) (t : rose A) : rose B :=
  match t with RNode a ks => RNode (f a) (map (rmap f) ks) end.

Fixpoint subtree {A} (t : rose A) (p : path) {struct p} : option (rose A) :=
  match p with
  | [] => Some t
  | i :: p' =>
      match t with
      | RNode _ ks => match nth_error ks i with Some k => subtree k p' | None => None end
      end
  end.

Definition bsbs : str := [bs; bs].
Definition textsub : str := list_ascii_of_string "\textsubscript{".

(** [format_synteny(map(tex.escape, syn), width).replace("\n", "\\\\")], [""] without synteny *)
Definition synteny_text (width : option nat) (syn : option (list str)) : option str :=
  match syn with
  | None => Some []
  | Some fams => option_map (replace1 nl bsbs) (format_synteny (map escape fams) width)
  end.

(** [name.rsplit("_", 1)] unpacked into two values ([None]: no underscore, ValueError) *)
Fixpoint rsplit_us (s : str) : option (str * str) :=
  match s with
  | [] => None
  | c :: r =>
      match rsplit_us r with
      | Some (a, b) => Some (c :: a, b)
      | None => if Ascii.eqb c us then Some ([], r) else None
      end
  end.

Definition syn_eqb (a b : option (list str)) : bool :=
  match a, b with
  | None, None => true
  | Some x, Some y => if list_eq_dec (list_eq_dec ascii_dec) x y then true else false
  | _, _ => false
  end.

(** the [name] a branch of an object node gets in [_compute_branches] *)
Definition node_label (width : option nat) (is_leaf : bool) (name : str)
    (syn psyn : option (list str)) : option str :=
  match synteny_text width syn with
  | None => None
  | Some synteny =>
      if is_leaf then
        match synteny, name with
        | _ :: _, _ => Some synteny
        | [], [] => Some []
        | [], _ =>
            match rsplit_us name with
            | Some (a, b) => Some (escape a ++ textsub ++ escape b ++ [rbrace])
            | None => None
            end
        end
      else Some (if syn_eqb syn psyn then [] else synteny)
  end.

(** species label of [_tikz_draw_fork] *)
Definition species_label (width : option nat) (name : str) : option str :=
  match width with
  | None => Some (escape name)
  | Some w => option_map (replace1 nl bsbs) (balanced_wrap (escape name) w)
  end.

Definition default_colour : string := "000000".   (* Branch.color default in render/model.py *)

Definition los (s : string) : str := list_ascii_of_string s.
Definition sol (s : str) : string := string_of_list_ascii s.

Definition resolve (width : option nat) (t : rose odata) (rb : rbranch) : option branch :=
  let cols := rmap o_col t in
  let mk c l := mkBranch (rb_kind rb) (rb_anch rb) (rb_rnone rb) (rb_xless rb) (rb_ygreater rb)
                         (match c with Some x => x | None => default_colour end) l in
  match rb_gene rb with
  | GPseudo p => Some (mk (pseudo_colour cols p) "")
  | GNode p =>
      match subtree t p with
      | Some (RNode d ks) =>
          let psyn := match p with
                      | [] => None
                      | _ => match get t (removelast p) with Some pd => o_syn pd | None => None end
                      end in
          match node_label width (is_nil ks) (los (o_name d))
                           (option_map (map los) (o_syn d)) (option_map (map los) psyn) with
          | Some l => Some (mk (node_colour cols p) (sol l))
          | None => None
          end
      | None => None
      end
  end.

Fixpoint all_opt {A} (l : list (option A)) : option (list A) :=
  match l with
  | [] => Some []
  | None :: _ => None
  | Some x :: r => option_map (cons x) (all_opt r)
  end.

(** [layout.compute] (labels, colours) followed by [tikz.render]; the species come in pre-order
    with their branches in layout order, as recorded from the implementation's layout *)
Definition render_full (tpls : list entry) (sk : list skel) (layers : list string) (vertical : bool)
    (ewidth swidth : option nat) (t : rose odata) (spp : list (bool * string * list rbranch))
  : option (list oline) :=
  match all_opt (map (fun s : bool * string * list rbranch =>
           let '(leaf, name, rbs) := s in
           match species_label swidth (los name), all_opt (map (resolve ewidth t) rbs) with
           | Some l, Some bs => Some (mkSpecies leaf (sol l) bs)
           | _, _ => None
           end) spp) with
  | Some sps => render_model tpls sk layers vertical sps
  | None => None
  end.

Definition inst_entry (tpls : list entry) (tid : nat) (vals : list string) : option string :=
  match nth_error tpls tid with
  | Some e => option_map sol (inst (e_items e) (map los vals))
  | None => None
  end.
