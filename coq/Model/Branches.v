(** Model of the branch records of a drawing
    ([superrec2/render/layout.py]: [_add_losses], [_compute_branches]).

    For every species the code fills a dict [branches] (insertion ordered) whose keys are
    "gene anchors" — object-tree nodes or [PseudoGene] objects standing for a full loss —
    and a set [anchor_nodes].  An anchor is identified here by [(q, k)]: [q] is the root
    path of an object node and [k = 0] names that node itself, [k > 0] the [k]-th
    pseudo-gene created above it by the call of [_add_losses] made by its parent.

    The code is two nested loops (species in post-order; object nodes in post-order,
    those mapped to the current species only) that perform insertions into the state of
    the current species and — for pseudo-genes — of species below it, and removals from
    the current species' [anchor_nodes].  The model lists these operations in the order
    the code performs them ([all_ops]) and reads every species' dict and set off that
    list ([branches_at], [run_anchors]).  [None] stands for an exception
    ([ValueError "Invalid event"], walking above the root in [_add_losses], [KeyError] of
    [set.remove]).  No proofs here. *)
From Coq Require Import List Bool Arith.
From SR Require Import Base.PathB Model.Recon.
Import ListNotations.

Inductive kind := KLeaf | KSpe | KDup | KTr | KLoss.
Definition anchor := (path * nat)%type.
Record branch := mkB { b_id : anchor; b_kind : kind; b_left : option anchor; b_right : option anchor }.

(* [Add sp b]: [state[sp]["anchor_nodes"].add(id); state[sp]["branches"][id] = b]
   [Rem sp a]: [state[sp]["anchor_nodes"].remove(a)] *)
Inductive op := Add (sp : path) (b : branch) | Rem (sp : path) (a : anchor).

(** [node.up] *)
Definition up (p : path) : option path :=
  match rev p with [] => None | _ :: q => Some (rev q) end.

Definition opath_eqb (a b : option path) : bool :=
  match a, b with Some x, Some y => path_eqb x y | None, None => true | _, _ => false end.

(** the [while] loop of [_add_losses].  [rprev] is the reversed root path of
    [prev_species] (so its head tells whether [prev_species] is the first or the second
    child of [start_species = prev_species.up]); [prev_gene] is [(g, k)]. *)
Fixpoint losses_loop (g : path) (k : nat) (rprev : list bool) (endsp : option path)
  : option (list op * anchor) :=
  match rprev with
  | [] => (* prev_species is the root, start_species is None *)
      match endsp with None => Some ([], (g, k)) | Some _ => None end
  | x :: rcur =>
      let cur := rev rcur in
      if opath_eqb (Some cur) endsp then Some ([], (g, k))
      else match losses_loop g (S k) rcur endsp with
           | Some (ops, top) =>
               Some (Add cur (mkB (g, S k) KLoss
                                  (if x then None else Some (g, k))
                                  (if x then Some (g, k) else None)) :: ops, top)
           | None => None
           end
  end.

(** [_add_losses(layout_state, gene, start_species, end_species)] *)
Definition add_losses (g start : path) (endsp : option path) : option (list op * anchor) :=
  losses_loop g 0 (rev start) endsp.

(** the body of the inner loop of [_compute_branches] for an internal object node at
    path [p], mapped to [s], whose children are mapped to [la] and [lb] *)
Definition node_ops (p s la lb : path) : option (list op) :=
  let cl := p ++ [false] in
  let cr := p ++ [true] in
  match event s la lb with
  | Spe =>
      let swap := anc (s ++ [false]) lb in
      let lg := if swap then cr else cl in
      let ls := if swap then lb else la in
      let rg := if swap then cl else cr in
      let rs := if swap then la else lb in
      match add_losses lg ls (Some s) with
      | Some (o1, a1) =>
          match add_losses rg rs (Some s) with
          | Some (o2, a2) => Some (o1 ++ o2 ++ [Add s (mkB (p, 0) KSpe (Some a1) (Some a2))])
          | None => None
          end
      | None => None
      end
  | Dup =>
      match add_losses cl la (up s) with
      | Some (o1, a1) =>
          match add_losses cr lb (up s) with
          | Some (o2, a2) =>
              Some (o1 ++ o2 ++ [Add s (mkB (p, 0) KDup (Some a1) (Some a2)); Rem s a1; Rem s a2])
          | None => None
          end
      | None => None
      end
  | TrL | TrR =>
      let left_conserved := anc s la in
      let cg := if left_conserved then cl else cr in
      let cs := if left_conserved then la else lb in
      let fg := if left_conserved then cr else cl in
      match add_losses cg cs (up s) with
      | Some (o1, a1) => Some (o1 ++ [Add s (mkB (p, 0) KTr (Some a1) (Some (fg, 0))); Rem s a1])
      | None => None
      end
  | Inv => None
  end.

(** object nodes in post-order: (species the node is mapped to, what processing it does) *)
Fixpoint gene_ops (p : path) (r : rtree) : list (path * option (list op)) :=
  match r with
  | RLeaf s => [(s, Some [Add s (mkB (p, 0) KLeaf None None)])]
  | RNode s a b =>
      gene_ops (p ++ [false]) a ++ gene_ops (p ++ [true]) b ++ [(s, node_ops p s (root a) (root b))]
  end.

(** species in post-order ([species_tree.traverse("postorder")]) *)
Fixpoint spost (S : stree) : list path :=
  match S with
  | SLeaf => [[]]
  | SNode l r => map (cons false) (spost l) ++ map (cons true) (spost r) ++ [[]]
  end.

Fixpoint seq_opt {A} (l : list (option (list A))) : option (list A) :=
  match l with
  | [] => Some []
  | None :: _ => None
  | Some x :: l' => match seq_opt l' with Some y => Some (x ++ y) | None => None end
  end.

(** one turn of the outer loop: the object nodes mapped to [X], in post-order *)
Definition turn (X : path) (r : rtree) : list (option (list op)) :=
  map snd (filter (fun e => path_eqb (fst e) X) (gene_ops [] r)).

Definition all_ops (S : stree) (r : rtree) : option (list op) :=
  seq_opt (flat_map (fun X => turn X r) (spost S)).

(** reading the state of species [X] off the operation list *)
Definition anchor_eqb (a b : anchor) : bool := path_eqb (fst a) (fst b) && Nat.eqb (snd a) (snd b).
Definition amem (a : anchor) (l : list anchor) : bool := existsb (anchor_eqb a) l.
Definition aremove (a : anchor) (l : list anchor) : list anchor := filter (fun x => negb (anchor_eqb a x)) l.

Fixpoint branches_at (X : path) (ops : list op) : list branch :=
  match ops with
  | [] => []
  | Add Y b :: t => if path_eqb Y X then b :: branches_at X t else branches_at X t
  | Rem _ _ :: t => branches_at X t
  end.

Fixpoint run_anchors (X : path) (ops : list op) (acc : list anchor) : option (list anchor) :=
  match ops with
  | [] => Some acc
  | Add Y b :: t => run_anchors X t (if path_eqb Y X then acc ++ [b_id b] else acc)
  | Rem Y a :: t =>
      if path_eqb Y X then (if amem a acc then run_anchors X t (aremove a acc) else None)
      else run_anchors X t acc
  end.

(** what [_compute_branches] leaves for species [X]: the ordered branch records and the
    branches that are anchor nodes (in branch order, as [_layout_branches] reads them) *)
Definition species_state (X : path) (ops : list op) : option (list branch * list anchor) :=
  match run_anchors X ops [] with
  | Some fin => let bs := branches_at X ops in
                Some (bs, filter (fun a => amem a fin) (map b_id bs))
  | None => None
  end.

Fixpoint seq_opt1 {A} (l : list (option A)) : option (list A) :=
  match l with
  | [] => Some []
  | None :: _ => None
  | Some x :: l' => match seq_opt1 l' with Some y => Some (x :: y) | None => None end
  end.

(** per species (pre-order of the species tree): (species, branches, anchors) *)
Definition branches (S : stree) (r : rtree) : option (list (path * (list branch * list anchor))) :=
  match all_ops S r with
  | Some ops =>
      seq_opt1 (map (fun X => match species_state X ops with Some st => Some (X, st) | None => None end)
                    (snodes S))
  | None => None
  end.
