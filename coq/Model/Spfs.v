(** Model of the ordered super-reconciliation solvers
    ([superrec2/compute/super_reconciliation.py], after the repair D5):
    [_compute_spfs_entry], [_compute_spfs_table], [_decode_spfs_table], [_spfs] with
    the base (LCA mapping) and extended (all species) variants.

    Syntenies inside the table are bit masks over the root ordering (C18).  The table is
    a tree of rows shaped like the object tree; a row lists the cells
    [table[object][species][mask]] that exist.  Enumeration orders only matter for the
    ANY policy, whose result is compared by membership. *)
From Coq Require Import List Bool ZArith NArith.
From SR Require Import Base.PathB Base.Ext Model.Subseq Model.Entry Model.Recon Model.LcaRec
  Model.Thl Model.Toposort.
Import ListNotations.
Local Open Scope Z_scope.

Definition sassign := (path * N)%type.                (* ObjectAssignment: species, synteny mask *)
Definition stag := (sassign * sassign)%type.          (* ChildrenAssignment *)
Definition sassign_eqb (a b : sassign) : bool := path_eqb (fst a) (fst b) && N.eqb (snd a) (snd b).
Definition stag_eqb (a b : stag) : bool := sassign_eqb (fst a) (fst b) && sassign_eqb (snd a) (snd b).

Definition srow := list (sassign * entry stag).
Inductive stt := STLeaf (sp : path) (m : N) | STNode (cells : srow) (a b : stt).

Fixpoint srow_lookup (r : srow) (k : sassign) : option (entry stag) :=
  match r with
  | [] => None
  | (k', e) :: r' => if sassign_eqb k k' then Some e else srow_lookup r' k
  end.

Definition sread (t : stt) (k : sassign) : entry stag :=
  match t with
  | STLeaf sp m => if sassign_eqb k (sp, m) then {| val := Fin 0; tags := [] |} else default_entry MIN
  | STNode cells _ _ => match srow_lookup cells k with Some e => e | None => default_entry MIN end
  end.

(* the (species, mask) cells that exist for an object: what the nested loops iterate over *)
Definition skeys (t : stt) : list sassign :=
  match t with
  | STLeaf sp m => [(sp, m)]
  | STNode cells _ _ => map fst cells
  end.

(* [MappingChoices]: five standalone aggregator entries per child *)
Record choices := { ch_left : entry sassign; ch_right : entry sassign; ch_conserved : entry sassign;
                    ch_segment : entry sassign; ch_separate : entry sassign }.

Definition aggp (rp : ret) (l : list (ext * option sassign)) : entry sassign :=
  Entry.update sassign_eqb MIN rp (default_entry MIN) l.

Section Cell.
  Variables (S : stree) (c : costs) (rp : ret).

  (* candidates offered to the five aggregators of one child, for parent (s, m) *)
  Definition child_choices (t : stt) (s : path) (m : N) : choices :=
    let sl := Fin (c_sloss c) in
    let one (k : sassign) : list (nat * (ext * option sassign)) :=
      let '(d, cm) := k in
      let cs := seg_dist cm m true in
      if cs <? 0 then []                              (* not a subsequence of the parent synteny *)
      else
        let conserv := Fin (cs * c_sloss c) in
        let segment := Fin (seg_dist cm m false * c_sloss c) in
        let sub := val (sread t k) in
        if anc s d then
          let above := Fin (dist s d * c_floss c) in
          let v_cons := ext_add (ext_add above sub) conserv in
          let v_seg := ext_add (ext_add above sub) segment in
          let below := Fin (dist s d * c_floss c - c_floss c) in
          let v_side := ext_add (ext_add below sub) conserv in
          [(2%nat, (v_cons, Some k)); (3%nat, (v_seg, Some k))]
          ++ (if sleaf S s then []
              else if anc (s ++ [false]) d then [(0%nat, (v_side, Some k))]
              else if anc (s ++ [true]) d then [(1%nat, (v_side, Some k))]
              else [])
        else if negb (anc d s) then [(4%nat, (ext_add sub segment, Some k))]
        else [] in
    let all := flat_map one (skeys t) in
    let pick i := map snd (filter (fun x => Nat.eqb (fst x) i) all) in
    {| ch_left := aggp rp (pick 0%nat); ch_right := aggp rp (pick 1%nat); ch_conserved := aggp rp (pick 2%nat);
       ch_segment := aggp rp (pick 3%nat); ch_separate := aggp rp (pick 4%nat) |}.

  Definition scomb (k : ext) (vl vr : ext) (l r : sassign) : ext * option stag :=
    (ext_add (ext_add k vl) vr, Some (l, r)).
  Definition comb2 (k : ext) (a b : entry sassign) : list (ext * option stag) :=
    cands (combine stag_eqb MIN rp a b (scomb k (val a) (val b))).

  (* [EntryProxy.update] on a cell that does not exist yet *)
  Definition first_write (cs : list (ext * option stag)) : entry stag :=
    if Thl.has_finite cs then Entry.update stag_eqb MIN rp (default_entry MIN) cs else default_entry MIN.

  (* [_compute_spfs_entry] *)
  Definition scell (ta tb : stt) (s : path) (m : N) : entry stag :=
    let p0 := child_choices ta s m in
    let p1 := child_choices tb s m in
    let spe := Fin (c_spe c) in let dup := Fin (c_dup c) in let hgt := c_hgt c in
    first_write
      (comb2 spe (ch_left p0) (ch_right p1) ++ comb2 spe (ch_right p0) (ch_left p1)
       ++ comb2 dup (ch_conserved p0) (ch_segment p1) ++ comb2 dup (ch_segment p0) (ch_conserved p1)
       ++ comb2 hgt (ch_conserved p0) (ch_separate p1) ++ comb2 hgt (ch_separate p0) (ch_conserved p1)).
End Cell.

(* all masks over an ordering of n families *)
Definition all_masks (n : nat) : list N := map N.of_nat (seq 0 (2 ^ n)).

Section Table.
  Variables (S : stree) (c : costs) (rp : ret) (extended : bool) (ord : list fam).

  (* [allowed_species]: every species (extended) or the LCA mapping (base) *)
  Definition allowed_species (o : otree) : list path :=
    if extended then snodes S else [root (lca_rec o)].

  (* [_compute_spfs_table]; [is_root]: the root object only takes the complete synteny *)
  Fixpoint spfs_table (is_root : bool) (o : otree) : stt :=
    match o with
    | OLeaf sp syn => STLeaf sp (mask_of ord syn)
    | ONode a b =>
        let ta := spfs_table false a in let tb := spfs_table false b in
        let masks := if is_root then [subseq_complete ord] else all_masks (length ord) in
        STNode (flat_map (fun s => flat_map (fun m =>
                  let e := scell S c rp ta tb s m in
                  if ext_is_inf (val e) then [] else [((s, m), e)]) masks) (allowed_species o))
               ta tb
    end.
End Table.

(* [_decode_spfs_table]; [None] = [subseq_from_mask] raised IndexError *)
Fixpoint sdecode (ord : list fam) (t : stt) (k : sassign) : list (option ltree) :=
  let syn := subseq_from_mask (snd k) ord in
  match t with
  | STLeaf _ _ =>
      if ext_is_inf (val (sread t k)) then []
      else [option_map (fun y => LLeaf (fst k) y) syn]
  | STNode _ ta tb =>
      flat_map (fun lr : stag =>
        flat_map (fun oa => map (fun ob =>
          match syn, oa, ob with
          | Some y, Some a, Some b => Some (LNode (fst k) y a b)
          | _, _, _ => None
          end) (sdecode ord tb (snd lr))) (sdecode ord ta (fst lr)))
        (tags (sread t k))
  end.

Fixpoint ltree_eqb (a b : ltree) : bool :=
  match a, b with
  | LLeaf s x, LLeaf t y => path_eqb s t && (if list_eq_dec N.eq_dec x y then true else false)
  | LNode s x a1 a2, LNode t y b1 b2 =>
      path_eqb s t && (if list_eq_dec N.eq_dec x y then true else false) && ltree_eqb a1 b1 && ltree_eqb a2 b2
  | _, _ => false
  end.

(* root orderings: all topological orderings of the precedence graph of the leaf syntenies *)
Fixpoint leaf_syns (o : otree) : list (list fam) :=
  match o with OLeaf _ syn => [syn] | ONode a b => leaf_syns a ++ leaf_syns b end.
Definition root_orders (o : otree) : option (list (list fam)) :=
  match make_prec_graph (map (map N.to_nat) (leaf_syns o)) with
  | TOk g => match toposort_all g with
             | TOk l => Some (map (map N.of_nat) l)
             | _ => None
             end
  | _ => None
  end.

(* [_spfs] on a binary input; [orders]: the root orderings (or the prescribed root synteny).
   [None] = some step raised (IndexError in decoding, failed assertion in the evaluator) *)
Definition spfs_candidates (S : stree) (c : costs) (rp : ret) (extended : bool)
    (orders : list (list fam)) (O : otree) : list (option (ext * option ltree)) :=
  flat_map (fun ord =>
    let t := spfs_table S c rp extended ord true O in
    flat_map (fun s =>
      map (fun ot => match ot with
                     | Some lt => option_map (fun v => (v, Some lt)) (total_cost c O true lt)
                     | None => None
                     end)
          (sdecode ord t (s, subseq_complete ord))) (snodes S)) orders.

Fixpoint all_some {A} (l : list (option A)) : option (list A) :=
  match l with
  | [] => Some []
  | Some x :: l' => option_map (cons x) (all_some l')
  | None :: _ => None
  end.

Definition spfs (S : stree) (c : costs) (rp : ret) (extended : bool)
    (orders : list (list fam)) (O : otree) : option (entry ltree) :=
  option_map (Entry.update ltree_eqb MIN rp (default_entry MIN))
             (all_some (spfs_candidates S c rp extended orders O)).
