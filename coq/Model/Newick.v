(** Named, coloured trees and a concrete Newick printer / parser for the subset
    of Newick that ete3 emits with
    [tree.write(format=8, format_root_node=True, features=["color"])]
    and reads back with [Tree(s, format=1)]
    ([superrec2/model/reconciliation.py], [to_dict] / [_from_dict]).

    - [tree]: an ete3 node = its [name], its optional [color] feature
      ([hasattr(node, "color")]) and its children in order.
    - [print_tree] mirrors ete3's [write_newick]/[format_node]/[_get_features_string]
      for format 8: leaf = name + features, internal node =
      "(" children joined by "," ")" name + features, root formatted like any
      other node, final ";".  Illegal characters of names and feature values are
      replaced by "_" ([re.sub("[" + _ILEGAL_NEWICK_CHARS + "]", "_", ...)]), an
      empty name is written "NoName" (format 8 is not "flexible").
    - [parse_tree] is a recursive-descent reader of exactly that output language
      restricted to names and colours over [A-Za-z0-9_]; [None] = the string is
      outside that language (ete3 raises [NewickError] or reads something this
      model does not describe).  Fuel = twice the length of the input plus two,
      proved sufficient in [Proofs/NewickProofs.v]. *)
From Coq Require Import List Bool Arith String Ascii.
Import ListNotations.
Local Open Scope char_scope.

Inductive tree := Node (name : string) (color : option string) (kids : list tree).

Definition t_name (t : tree) : string := match t with Node n _ _ => n end.
Definition t_color (t : tree) : option string := match t with Node _ c _ => c end.
Definition t_kids (t : tree) : list tree := match t with Node _ _ k => k end.

Definition opt_eqb {A} (f : A -> A -> bool) (a b : option A) : bool :=
  match a, b with Some x, Some y => f x y | None, None => true | _, _ => false end.

Fixpoint tree_eqb (a b : tree) : bool :=
  match a, b with
  | Node n c ks, Node n' c' ks' =>
      String.eqb n n' && opt_eqb String.eqb c c' &&
      (fix go (l l' : list tree) : bool :=
         match l, l' with
         | [], [] => true
         | x :: l1, y :: l1' => tree_eqb x y && go l1 l1'
         | _, _ => false
         end) ks ks'
  end.

(** * Characters *)
Definition between (lo hi : nat) (c : ascii) : bool :=
  Nat.leb lo (nat_of_ascii c) && Nat.leb (nat_of_ascii c) hi.
Definition is_digit (c : ascii) : bool := between 48 57 c.
(* the alphabet of the property: letters, digits, underscore *)
Definition name_char (c : ascii) : bool :=
  is_digit c || between 65 90 c || between 97 122 c || Ascii.eqb c "_".

(* _ILEGAL_NEWICK_CHARS = ":;(),\[\]\t\n\r=" *)
Definition illegal (c : ascii) : bool :=
  Ascii.eqb c ":" || Ascii.eqb c ";" || Ascii.eqb c "(" || Ascii.eqb c ")" ||
  Ascii.eqb c "," || Ascii.eqb c "[" || Ascii.eqb c "]" ||
  Ascii.eqb c "009" || Ascii.eqb c "010" || Ascii.eqb c "013" || Ascii.eqb c "=".
Definition sanitize (s : list ascii) : list ascii :=
  map (fun c => if illegal c then "_" else c) s.

(** * Printer *)
Definition nhx_open : list ascii := list_ascii_of_string "[&&NHX:color=".
Definition noname : list ascii := list_ascii_of_string "NoName".

Definition pr_name (n : string) : list ascii :=
  match sanitize (list_ascii_of_string n) with [] => noname | l => l end.
Definition pr_feat (c : option string) : list ascii :=
  match c with
  | None => []
  | Some v => nhx_open ++ sanitize (list_ascii_of_string v) ++ ["]"]
  end.
Definition pr_label (n : string) (c : option string) : list ascii := pr_name n ++ pr_feat c.

(* [pr_rest] prints the siblings after the first one, then the closing parenthesis *)
Fixpoint pr (t : tree) : list ascii :=
  match t with
  | Node n c [] => pr_label n c
  | Node n c (k :: ks) =>
      "(" :: pr k ++
      (fix pr_rest (l : list tree) : list ascii :=
         match l with
         | [] => [")"]
         | x :: l' => "," :: pr x ++ pr_rest l'
         end) ks ++ pr_label n c
  end.

Definition print_chars (t : tree) : list ascii := pr t ++ [";"].
Definition print_tree (t : tree) : string := string_of_list_ascii (print_chars t).

(** * Parser *)
Fixpoint span (p : ascii -> bool) (s : list ascii) : list ascii * list ascii :=
  match s with
  | [] => ([], [])
  | c :: s' => if p c then let '(a, b) := span p s' in (c :: a, b) else ([], s)
  end.

Fixpoint strip_prefix (pre s : list ascii) : option (list ascii) :=
  match pre, s with
  | [], _ => Some s
  | a :: pre', b :: s' => if Ascii.eqb a b then strip_prefix pre' s' else None
  | _ :: _, [] => None
  end.

(* name, optional [&&NHX:color=value] comment, remaining input *)
Definition starts_with (c : ascii) (s : list ascii) : bool :=
  match s with c0 :: _ => Ascii.eqb c0 c | [] => false end.

Definition plabel (s : list ascii) : option (string * option string * list ascii) :=
  let '(nm, r) := span name_char s in
  if starts_with "[" r then
    match strip_prefix nhx_open r with
    | Some r1 =>
        let '(col, r2) := span name_char r1 in
        match r2 with
        | c :: r3 =>
            if Ascii.eqb c "]"
            then Some (string_of_list_ascii nm, Some (string_of_list_ascii col), r3)
            else None
        | [] => None
        end
    | None => None
    end
  else Some (string_of_list_ascii nm, None, r).

Fixpoint pnode (fuel : nat) (s : list ascii) : option (tree * list ascii) :=
  match fuel with
  | 0 => None
  | S f =>
      if starts_with "(" s then
        match pkids f (tl s) with
        | Some (ks, s2) =>
            match plabel s2 with
            | Some (n, c, s3) => Some (Node n c ks, s3)
            | None => None
            end
        | None => None
        end
      else
        match plabel s with
        | Some (n, c, s1) =>
            if String.eqb n "" then None          (* "Empty leaf node found" *)
            else Some (Node n c [], s1)
        | None => None
        end
  end
(* one or more siblings separated by "," and closed by ")" *)
with pkids (fuel : nat) (s : list ascii) : option (list tree * list ascii) :=
  match fuel with
  | 0 => None
  | S f =>
      match pnode f s with
      | Some (k, s1) =>
          if starts_with "," s1 then
            match pkids f (tl s1) with
            | Some (ks, s2) => Some (k :: ks, s2)
            | None => None
            end
          else if starts_with ")" s1 then Some ([k], tl s1)
          else None
      | None => None
      end
  end.

Definition parse_chars (s : list ascii) : option tree :=
  match pnode (2 * List.length s + 2) s with
  | Some (t, r) => if starts_with ";" r && Nat.eqb (List.length r) 1 then Some t else None
  | None => None
  end.
Definition parse_tree (s : string) : option tree := parse_chars (list_ascii_of_string s).
