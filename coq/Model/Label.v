(** Model of [ReconciliationInput.label_internal] (model/reconciliation.py) and of
    [get_species_mapping] (model/tree_mapping.py).

    A tree is a rose tree carrying one name per node ([ntree]); the empty name
    and ["NoName"] (what ete3 gives / writes for a node without a name) count as
    unnamed.

    [label_internal] visits the nodes in pre-order ([traverse("preorder")]).  The
    state of the loop is the counter [n] (never reset, never incremented after an
    assignment) and the names of *all* nodes of the tree at that moment: the part
    already visited ([done], with the names assigned so far) followed by the part
    still to visit ([todo], first element = current node).  At an unnamed node

        while f"O{n}" in tree: n += 1          ([skip], ete3's [in] = some node has that name)
        node.name = f"O{n}"

    [skip] carries explicit fuel ([S (number of nodes)] iterations); running out
    of fuel is the error value [None], and LabelProofs.v proves it never happens
    when [gen] is injective (pigeonhole).  The tree is rebuilt from the relabelled
    pre-order list by [refill] ([None] if the list is too short: never happens). *)
From Coq Require Import List Bool Arith String Ascii DecimalString.
Import ListNotations.

Inductive ntree (A : Type) : Type := NT (x : A) (cs : list (ntree A)).
Arguments NT {A} x cs.

Fixpoint preorder {A} (t : ntree A) : list A :=
  match t with NT x cs => x :: flat_map preorder cs end.

Fixpoint leaves {A} (t : ntree A) : list A :=
  match t with
  | NT x [] => [x]
  | NT x cs => flat_map leaves cs
  end.

(* replace the names of [t], in pre-order, by the first elements of [l];
   returns the new tree and the unused rest of [l] *)
Fixpoint refill {A} (t : ntree A) (l : list A) : option (ntree A * list A) :=
  match t, l with
  | NT _ _, [] => None
  | NT _ cs, y :: l1 =>
      match (fix go (cs : list (ntree A)) (l : list A) {struct cs} : option (list (ntree A) * list A) :=
               match cs with
               | [] => Some ([], l)
               | c :: cs' =>
                   match refill c l with
                   | None => None
                   | Some (c', l2) =>
                       match go cs' l2 with
                       | None => None
                       | Some (r, l3) => Some (c' :: r, l3)
                       end
                   end
               end) cs l1 with
      | None => None
      | Some (cs', l2) => Some (NT y cs', l2)
      end
  end.

Section Label.
  Context {A : Type} (eqb : A -> A -> bool) (unnamed : A -> bool) (gen : nat -> A).

  Definition mem (x : A) (l : list A) : bool := existsb (eqb x) l.

  (* [while gen n in names: n += 1], at most [fuel] tests *)
  Fixpoint skip (fuel n : nat) (names : list A) : option nat :=
    match fuel with
    | 0 => None
    | S f => if mem (gen n) names then skip f (S n) names else Some n
    end.

  Fixpoint label_list (done todo : list A) (n : nat) : option (list A) :=
    match todo with
    | [] => Some done
    | x :: rest =>
        if unnamed x then
          let names := done ++ todo in
          match skip (S (List.length names)) n names with
          | None => None
          | Some k => label_list (done ++ [gen k]) rest k
          end
        else label_list (done ++ [x]) rest n
    end.

  Definition label_names (l : list A) : option (list A) := label_list [] l 0.

  Definition label_internal (t : ntree A) : option (ntree A) :=
    match label_names (preorder t) with
    | None => None
    | Some l =>
        match refill t l with
        | Some (t', []) => Some t'
        | _ => None
        end
    end.
End Label.

(** Instance used by the code: names are strings, [f"O{n}"] / [f"S{n}"]. *)
Local Open Scope string_scope.

Definition is_unnamed (s : string) : bool := (s =? "") || (s =? "NoName").

Definition decimal (n : nat) : string := NilEmpty.string_of_uint (Nat.to_uint n).

Definition gen_name (prefix : string) (n : nat) : string := prefix ++ decimal n.

Definition label_object_tree : ntree string -> option (ntree string) :=
  label_internal String.eqb is_unnamed (gen_name "O").

Definition label_species_tree : ntree string -> option (ntree string) :=
  label_internal String.eqb is_unnamed (gen_name "S").

(** [get_species_mapping].  [species] = names of the leaves of the species tree in
    leaf order ([for node in species_tree] iterates over leaves); the dictionary
    maps the lower-cased non-empty names to their leaf, a later leaf overwriting
    an earlier one with the same key (association list: newest binding first).
    For an object name, [parts = name.split("_")] and the candidates
    ["_".join(parts[:i])] for [i = 1 .. len(parts)-1] are exactly the prefixes of
    the name that are immediately followed by an underscore, shortest first
    ([uprefixes]); the first candidate whose lower-cased form is a key wins.
    The result is the index of the species leaf, [None] = left unmapped.
    (ASCII only: [str.lower] is modelled on A-Z.) *)
Definition lower_ascii (c : ascii) : ascii :=
  let n := nat_of_ascii c in
  if ((65 <=? n) && (n <=? 90))%nat then ascii_of_nat (n + 32) else c.

Fixpoint lower (s : string) : string :=
  match s with
  | EmptyString => EmptyString
  | String c r => String (lower_ascii c) (lower r)
  end.

Fixpoint uprefixes (s : string) : list string :=
  match s with
  | EmptyString => []
  | String c r =>
      (if (c =? "_")%char then [EmptyString] else []) ++ map (String c) (uprefixes r)
  end.

Fixpoint species_dict (i : nat) (species : list string) (d : list (string * nat)) : list (string * nat) :=
  match species with
  | [] => d
  | s :: r => species_dict (S i) r (if s =? "" then d else (lower s, i) :: d)
  end.

Definition dict_get (k : string) (d : list (string * nat)) : option nat :=
  match find (fun e => fst e =? k) d with
  | Some e => Some (snd e)
  | None => None
  end.

Fixpoint first_key (d : list (string * nat)) (ps : list string) : option nat :=
  match ps with
  | [] => None
  | p :: ps' =>
      match dict_get (lower p) d with
      | Some i => Some i
      | None => first_key d ps'
      end
  end.

Definition species_prefix_mapping (species : list string) (name : string) : option nat :=
  first_key (species_dict 0 species []) (uprefixes name).
