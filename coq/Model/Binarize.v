(** Model of the polytomy-resolution code of superrec2:
    [utils/trees.py]: [is_binary], [graft], [arrange_leaves], [binarize];
    [model/reconciliation.py]: [ReconciliationInput.binarize].

    Trees.  A node of an ete3 tree carries a bundle of features (its name, its
    colour ...).  The code only ever copies the bundle as a whole from an original
    node onto a generated node, so the bundle is one label [lab := option nat]
    ([None] = the default features of a fresh [Tree()]: empty name, no colour).
    Leaves carry a label too (their name).

    The already-resolved child subtrees handed to [arrange_leaves] are *atoms*:
    [graft] never descends into them (in the code: their topology id is in the
    [ignore] set, or they are leaves).  The model makes this explicit with the
    type [atree] of binary trees over atoms; [flat] forgets the atom boundaries.
    The abstraction is exact when no subtree made of two or more atoms has the
    topology id of an atom, which holds when leaf names are distinct.

    No proofs in this file. *)
From Coq Require Import List Arith Bool.
Import ListNotations.

Definition lab := option nat.

(** input trees: any arity *)
Inductive rose : Type :=
| RLeaf (name : lab)
| RNode (label : lab) (children : list rose).

(** generated trees: binary *)
Inductive bt : Type :=
| BLeaf (name : lab)
| BNode (label : lab) (l r : bt).

(** binary trees over atoms *)
Inductive atree (A : Type) : Type :=
| Atom (a : A)
| Join (l r : atree A).
Arguments Atom {A} a.
Arguments Join {A} l r.

(** [is_binary]: a leaf, or exactly two children that are binary *)
Fixpoint is_binary (t : rose) : bool :=
  match t with
  | RLeaf _ => true
  | RNode _ cs =>
      Nat.eqb (length cs) 2 && forallb is_binary cs
  end.

(** [graft(tree, leaf, ignore)]: first the new leaf beside the whole tree, then
    every graft into the left child, then every graft into the right child;
    no recursion into an atom. *)
Fixpoint graft {A} (t : atree A) (x : A) : list (atree A) :=
  Join (Atom x) t ::
  match t with
  | Atom _ => []
  | Join l r =>
      map (fun g => Join g r) (graft l x) ++ map (fun g => Join l g) (graft r x)
  end.

(** [arrange_leaves(leaves)]: nothing for no leaf, the leaf itself for one leaf,
    otherwise [for subtree in arrange_leaves(leaves[1:]): yield from
    graft(subtree, leaves[0], ignore = ids of leaves[1:])]. *)
Fixpoint arrange {A} (xs : list A) : list (atree A) :=
  match xs with
  | [] => []
  | x :: xs' =>
      match xs' with
      | [] => [Atom x]
      | _ :: _ => flat_map (fun t => graft t x) (arrange xs')
      end
  end.

(** [itertools.product] of the lists: last component varies fastest *)
Fixpoint product {A} (ls : list (list A)) : list (list A) :=
  match ls with
  | [] => [[]]
  | l :: rest => flat_map (fun x => map (cons x) (product rest)) l
  end.

(** nodes created by [graft] are fresh [Tree()] objects: default features *)
Fixpoint flat (t : atree bt) : bt :=
  match t with
  | Atom b => b
  | Join l r => BNode None (flat l) (flat r)
  end.

(** [for key in node.features: subtree.add_feature(key, getattr(node, key))]:
    the root of every generated subtree receives the bundle of the original
    node.  (For a node with a single child the generated subtree is a copy of
    the child's subtree, whose root bundle is overwritten — a leaf included.) *)
Definition relabel (lb : lab) (b : bt) : bt :=
  match b with
  | BLeaf _ => BLeaf lb
  | BNode _ l r => BNode lb l r
  end.

(** [binarize(tree)]: post-order; for an internal node, the product of the
    children's lists, each tuple arranged in every way, then the features of the
    original node copied onto every generated root.  For a leaf the code stores
    the node itself, and iterating an ete3 node iterates its leaves: a leaf
    behaves as the one-element list holding itself. *)
Fixpoint binarize (t : rose) : list bt :=
  match t with
  | RLeaf n => [BLeaf n]
  | RNode lb cs =>
      map (relabel lb)
          (flat_map (fun descs => map flat (arrange descs))
                    (product (map binarize cs)))
  end.

(** a binary rose tree read as a [bt] *)
Fixpoint rose_to_bt (t : rose) : option bt :=
  match t with
  | RLeaf n => Some (BLeaf n)
  | RNode lb [a; b] =>
      match rose_to_bt a, rose_to_bt b with
      | Some x, Some y => Some (BNode lb x y)
      | _, _ => None
      end
  | RNode _ _ => None
  end.

(** [ReconciliationInput.binarize]: the input itself when both trees are
    binary, otherwise [product(binarize(object), binarize(species))]. *)
Definition input_binarize (o s : rose) : list (bt * bt) :=
  if is_binary o && is_binary s then
    match rose_to_bt o, rose_to_bt s with
    | Some x, Some y => [(x, y)]
    | _, _ => []
    end
  else list_prod (binarize o) (binarize s).

(** (2n-1)!! *)
Fixpoint odd_double_fact (n : nat) : nat :=
  match n with
  | 0 => 1
  | S m => (2 * m + 1) * odd_double_fact m
  end.

(** number of arrangements of k atoms: 0, 1, 1, 3, 15, 105 ... = (2k-3)!! for k >= 2 *)
Definition arr_count (k : nat) : nat :=
  match k with
  | 0 => 0
  | S j => odd_double_fact j
  end.

(** product over the internal nodes v of arr_count (number of children of v) *)
Fixpoint refinement_count (t : rose) : nat :=
  match t with
  | RLeaf _ => 1
  | RNode _ cs =>
      arr_count (length cs) * fold_right (fun c acc => refinement_count c * acc) 1 cs
  end.

(** boolean equalities used by the correspondence check *)
Definition lab_eqb (a b : lab) : bool :=
  match a, b with
  | None, None => true
  | Some x, Some y => Nat.eqb x y
  | _, _ => false
  end.

Fixpoint bt_eqb (a b : bt) : bool :=
  match a, b with
  | BLeaf x, BLeaf y => lab_eqb x y
  | BNode x l r, BNode y l' r' => lab_eqb x y && bt_eqb l l' && bt_eqb r r'
  | _, _ => false
  end.

Fixpoint list_eqb {A} (eqb : A -> A -> bool) (xs ys : list A) : bool :=
  match xs, ys with
  | [], [] => true
  | x :: xs', y :: ys' => eqb x y && list_eqb eqb xs' ys'
  | _, _ => false
  end.

(** * Literal variant: [graft] on plain trees with an explicit [ignore] set

    The code does not know atoms: [graft(tree, leaf, ignore)] walks a plain
    tree and stops at a node when it is a leaf or when
    [tree.get_topology_id() in ignore], where
    [ignore = set(leaf.get_topology_id() for leaf in leaves[1:])].
    [same_id a b] stands for "[a] and [b] have the same topology id".
    [Proofs/BinarizeProofs.v] shows that this variant and the atom variant
    above produce the same lists whenever equal ids imply equal leaf sets and
    leaf names are distinct. *)
Section Literal.
Variable same_id : bt -> bt -> bool.

Fixpoint graft_lit (ignore : list bt) (t x : bt) : list bt :=
  BNode None x t ::
  match t with
  | BLeaf _ => []
  | BNode _ l r =>
      if existsb (same_id t) ignore then []
      else map (fun g => BNode None g r) (graft_lit ignore l x)
           ++ map (fun g => BNode None l g) (graft_lit ignore r x)
  end.

Fixpoint arrange_lit (xs : list bt) : list bt :=
  match xs with
  | [] => []
  | x :: xs' =>
      match xs' with
      | [] => [x]
      | _ :: _ => flat_map (fun t => graft_lit xs' t x) (arrange_lit xs')
      end
  end.

Fixpoint binarize_lit (t : rose) : list bt :=
  match t with
  | RLeaf n => [BLeaf n]
  | RNode lb cs =>
      map (relabel lb) (flat_map arrange_lit (product (map binarize_lit cs)))
  end.
End Literal.

(** leaf names, left to right *)
Fixpoint bleaves (b : bt) : list lab :=
  match b with
  | BLeaf n => [n]
  | BNode _ l r => bleaves l ++ bleaves r
  end.

(** a concrete stand-in for "same topology id": same set of leaf names *)
Definition same_leafset (a b : bt) : bool :=
  forallb (fun y => existsb (lab_eqb y) (bleaves b)) (bleaves a)
  && forallb (fun y => existsb (lab_eqb y) (bleaves a)) (bleaves b).
