(** Model of [superrec2/utils/range_min_query.py] ([RangeMinQuery]).

    - The sparse table is built literally: [levels = ilog2 n + 1] rows of [n]
      cells; row 0 is the data; row [d] is filled from row [d-1] for
      [i in range(n - 2^d + 1)] with [min(prev[i], prev[i + 2^(d-1)])], the other
      cells stay Python's [None] (here: the cell [None : option A]).
    - [pymin] is Python's two-argument [min]: the first argument unless the
      second is strictly smaller ([b < a] is [negb (leb a b)]).
    - Where Python raises (empty data: [IndexError] on [sparse_table[0] = ...];
      a failed [assert ... is not None]; an index outside a row; [min] applied to
      a [None] cell) the model returns an explicit error: [build] returns [None],
      [query] returns [QErr]. The proofs show that none of them is reachable
      for non-empty data and [0 <= start < stop <= n]. *)
From Coq Require Import List Arith.
Import ListNotations.

Section Rmq.
  Context {A : Type} (leb : A -> A -> bool).

  Definition pymin (a b : A) : A := if leb a b then a else b.

  Definition table := list (list (option A)).

  (* [_ilog2 value = value.bit_length() - 1], used for positive values only *)
  Definition ilog2 (v : nat) : nat := Nat.log2 v.

  (* read two cells of a row; [None] when an index is outside the row or a cell
     is Python's [None] (assertion failure in [__init__], TypeError in [__call__]) *)
  Definition get2 (row : list (option A)) (i j : nat) : option (A * A) :=
    match nth_error row i, nth_error row j with
    | Some (Some l), Some (Some r) => Some (l, r)
    | _, _ => None
    end.

  (* [for i in range(i, i + cnt): row[i] = min(prev[i], prev[i + h])];
     the [rest] remaining cells keep their initial [None] *)
  Fixpoint fill_row (prev : list (option A)) (h i cnt rest : nat) : option (list (option A)) :=
    match cnt with
    | 0 => Some (repeat None rest)
    | S c =>
        match get2 prev i (i + h) with
        | Some (l, r) => option_map (cons (Some (pymin l r))) (fill_row prev h (S i) c rest)
        | None => None
        end
    end.

  (* rows [d+1, d+2, ... d+k], each from the previous one ([prev] is row [d]) *)
  Fixpoint rows (n : nat) (prev : list (option A)) (d k : nat) : option table :=
    match k with
    | 0 => Some []
    | S k' =>
        let cnt := n + 1 - 2 ^ (S d) in
        match fill_row prev (2 ^ d) 0 cnt (n - cnt) with
        | Some row => option_map (cons row) (rows n row (S d) k')
        | None => None
        end
    end.

  Definition build (data : list A) : option table :=
    match data with
    | [] => None                                   (* IndexError *)
    | _ :: _ =>
        let n := length data in
        let levels := ilog2 n + 1 in
        let row0 := map Some data in
        option_map (cons row0) (rows n row0 0 (levels - 1))
    end.

  Inductive qres := QErr | QNone | QVal (a : A).

  Definition query (t : table) (start stop : nat) : qres :=
    if stop <=? start then QNone
    else
      let depth := ilog2 (stop - start) in
      match nth_error t depth with
      | None => QErr                               (* IndexError *)
      | Some row =>
          match get2 row start (stop - 2 ^ depth) with
          | Some (l, r) => QVal (pymin l r)
          | None => QErr                           (* IndexError / TypeError *)
          end
      end.
End Rmq.

Arguments QErr {A}.
Arguments QNone {A}.
Arguments QVal {A} a.
