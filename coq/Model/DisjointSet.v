(** Model of [superrec2/utils/disjoint_set.py] (class [DisjointSet]).

    State = the three attributes [parent], [rank] (lists of naturals) and
    [groups] (a Python int, here [Z]).  Every method that mutates [self]
    returns the new state; Python exceptions are explicit [Err] values.

    - [find]    : recursive find with path compression.  The Python recursion is
                  on the call stack; here it is on fuel [S (list_max rank)], and
                  running out of fuel is the explicit error [OutOfFuel] (proved
                  unreachable for every state built by the constructor, [unite],
                  [find], [to_list]: Proofs/DisjointSetProofs.v).
    - [unite]   : union by rank, exactly the three branches of the code.
    - [len]     : [__len__].
    - [to_list] : [result[self.find(i)].append(i)] for [i] in [range(n)], then the
                  empty groups are dropped.  [find] mutates, so the state is threaded.
    - [binary]  : the [_binary] recursion with its two symmetry-breaking tests.
                  [groups = list(set(self.find(i) for i in range(n)))]: the order
                  in which CPython iterates that set is a function of the
                  sequence of inserted ints; it is the parameter [ord] (the
                  theorems hold for every [ord] that returns the distinct
                  elements of its argument in some order). [deepcopy] is the
                  identity on a persistent value. *)
From Coq Require Import List Bool Arith ZArith.
Import ListNotations.

Inductive err := IndexError | KeyError | ValueError | OutOfFuel.

Inductive res (A : Type) : Type :=
| Ok (a : A)
| Err (e : err).
Arguments Ok {A} a.
Arguments Err {A} e.

Definition bind {A B : Type} (r : res A) (f : A -> res B) : res B :=
  match r with
  | Ok a => f a
  | Err e => Err e
  end.

Notation "x <- r ;; k" := (bind r (fun x => k))
  (at level 61, r at next level, right associativity).
Notation "' p <- r ;; k" := (bind r (fun p => k))
  (at level 61, p pattern, r at next level, right associativity).

(* l[i] *)
Definition get {A : Type} (l : list A) (i : nat) : res A :=
  match nth_error l i with
  | Some v => Ok v
  | None => Err IndexError
  end.

Fixpoint set_nth {A : Type} (i : nat) (v : A) (l : list A) : list A :=
  match l, i with
  | [], _ => []
  | _ :: l', 0 => v :: l'
  | x :: l', S i' => x :: set_nth i' v l'
  end.

(* l[i] = v *)
Definition set {A : Type} (l : list A) (i : nat) (v : A) : res (list A) :=
  if i <? length l then Ok (set_nth i v l) else Err IndexError.

Record dsu := mk { parent : list nat; rank : list nat; groups : Z }.

(* DisjointSet(count) *)
Definition make (count : nat) : dsu := mk (seq 0 count) (repeat 0 count) (Z.of_nat count).

Fixpoint find_aux (fuel : nat) (p : list nat) (x : nat) : res (list nat * nat) :=
  match fuel with
  | 0 => Err OutOfFuel
  | S f =>
      px <- get p x ;;
      if px =? x then Ok (p, x)
      else
        ' (p1, r) <- find_aux f p px ;;
        p2 <- set p1 x r ;;
        Ok (p2, r)
  end.

Definition find (d : dsu) (x : nat) : res (dsu * nat) :=
  ' (p, r) <- find_aux (S (list_max (rank d))) (parent d) x ;;
  Ok (mk p (rank d) (groups d), r).

Definition unite (d : dsu) (first second : nat) : res (dsu * bool) :=
  ' (d1, ra) <- find d first ;;
  ' (d2, rb) <- find d1 second ;;
  if ra =? rb then Ok (d2, false)
  else
    ka <- get (rank d2) ra ;;
    kb <- get (rank d2) rb ;;
    d3 <- (if ka =? kb then
             rk <- set (rank d2) ra (S ka) ;;
             p <- set (parent d2) rb ra ;;
             Ok (mk p rk (groups d2))
           else if kb <? ka then
             p <- set (parent d2) rb ra ;;
             Ok (mk p (rank d2) (groups d2))
           else
             p <- set (parent d2) ra rb ;;
             Ok (mk p (rank d2) (groups d2))) ;;
    Ok (mk (parent d3) (rank d3) (groups d3 - 1)%Z, true).

Definition len (d : dsu) : Z := groups d.

(* result[i].append(v) *)
Definition append_at (i v : nat) (acc : list (list nat)) : res (list (list nat)) :=
  g <- get acc i ;; set acc i (g ++ [v]).

Fixpoint to_list_loop (is : list nat) (d : dsu) (acc : list (list nat))
  : res (dsu * list (list nat)) :=
  match is with
  | [] => Ok (d, acc)
  | i :: rest =>
      ' (d1, r) <- find d i ;;
      acc1 <- append_at r i acc ;;
      to_list_loop rest d1 acc1
  end.

Definition is_nil {A : Type} (l : list A) : bool :=
  match l with [] => true | _ => false end.

Definition to_list (d : dsu) : res (dsu * list (list nat)) :=
  let n := length (parent d) in
  ' (d1, acc) <- to_list_loop (seq 0 n) d (repeat [] n) ;;
  Ok (d1, filter (fun g => negb (is_nil g)) acc).

(* [self.find(i) for i in range(n)] *)
Fixpoint find_all (is : list nat) (d : dsu) : res (dsu * list nat) :=
  match is with
  | [] => Ok (d, [])
  | i :: rest =>
      ' (d1, r) <- find d i ;;
      ' (d2, rs) <- find_all rest d1 ;;
      Ok (d2, r :: rs)
  end.

Definition opt_lt_l (g : nat) (o : option nat) : bool :=   (* o is None or g < o *)
  match o with None => true | Some s => g <? s end.
Definition opt_gt_l (g : nat) (o : option nat) : bool :=   (* o is None or g > o *)
  match o with None => true | Some f => f <? g end.

Fixpoint binary_aux (gs : list nat) (d : dsu) (first second : option nat) : res (list dsu) :=
  match gs with
  | [] =>
      match first, second with
      | Some _, Some _ => Ok [d]
      | _, _ => Ok []
      end
  | g :: rest =>
      r1 <- match first with
            | Some f => ' (d1, _) <- unite d f g ;; binary_aux rest d1 first second
            | None => if opt_lt_l g second then binary_aux rest d (Some g) second else Ok []
            end ;;
      r2 <- match second with
            | Some s => ' (d2, _) <- unite d s g ;; binary_aux rest d2 first second
            | None => if opt_gt_l g first then binary_aux rest d first (Some g) else Ok []
            end ;;
      Ok (r1 ++ r2)
  end.

Definition binary (ord : list nat -> list nat) (d : dsu) : res (dsu * list dsu) :=
  ' (d1, rs) <- find_all (seq 0 (length (parent d))) d ;;
  bs <- binary_aux (ord rs) d1 None None ;;
  Ok (d1, bs).

(* the distinct elements of [l] in increasing order: what CPython's
   [list(set(l))] yields when all elements are below 8 (harness: small cases) *)
Definition sorted_distinct (l : list nat) : list nat :=
  filter (fun i => existsb (Nat.eqb i) l) (seq 0 (S (list_max l))).
