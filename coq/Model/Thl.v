(** Model of the general DTL solver [reconcile_thl] and its table
    ([superrec2/compute/reconciliation.py], after the repairs D2-D4) and of the
    exhaustive solver ([compute/exhaustive.py]).

    The table is a tree of rows shaped like the object tree: the row of an object
    node lists the cells [table[node][species]] that exist.  Aggregators are the
    standalone [Entry] objects of the code (they do accumulate tags of
    infinite-valued candidates); cells are written through the proxy rule
    "a batch without finite candidate is ignored".  Species are enumerated in
    pre-order everywhere: the order only influences which tag the ANY policy
    keeps, and ANY results are compared by membership. *)
From Coq Require Import List Bool ZArith.
From SR Require Import Base.PathB Base.Ext Model.Entry Model.Recon.
Import ListNotations.
Local Open Scope Z_scope.

Definition tag := (path * path)%type.
Definition tag_eqb (a b : tag) : bool := path_eqb (fst a) (fst b) && path_eqb (snd a) (snd b).
Fixpoint rtree_eqb (a b : rtree) : bool :=
  match a, b with
  | RLeaf s, RLeaf t => path_eqb s t
  | RNode s a1 a2, RNode t b1 b2 => path_eqb s t && rtree_eqb a1 b1 && rtree_eqb a2 b2
  | _, _ => false
  end.

Definition row := list (path * entry tag).
Inductive ttree := TLeaf (sp : path) | TNode (cells : row) (a b : ttree).

Fixpoint row_lookup (r : row) (s : path) : option (entry tag) :=
  match r with
  | [] => None
  | (k, e) :: r' => if path_eqb s k then Some e else row_lookup r' s
  end.

(* [table[node][species]] read through the proxy *)
Definition tread (t : ttree) (s : path) : entry tag :=
  match t with
  | TLeaf sp => if path_eqb s sp then {| val := Fin 0; tags := [] |} else default_entry MIN
  | TNode cells _ _ => match row_lookup cells s with Some e => e | None => default_entry MIN end
  end.

(* a standalone aggregator entry fed one tagged candidate per species of [xs] *)
Definition agg (rp : ret) (xs : list path) (f : path -> ext) : entry path :=
  update path_eqb MIN rp (default_entry MIN) (map (fun x => (f x, Some x)) xs).

(* iterating an entry: one candidate per tag *)
Definition cands {T} (e : entry T) : list (ext * option T) := map (fun t => (val e, Some t)) (tags e).

Definition has_finite {T} (cs : list (ext * option T)) : bool :=
  existsb (fun c => negb (ext_is_inf (fst c))) cs.
(* [EntryProxy.update] *)
Definition cell_upd (rp : ret) (e : entry tag) (cs : list (ext * option tag)) : entry tag :=
  if has_finite cs then update tag_eqb MIN rp e cs else e.

Definition event_comb (k : ext) (vl vr : ext) (l r : path) : ext * option tag :=
  (ext_add (ext_add k vl) vr, Some (l, r)).

Definition under (S : stree) (s : path) : list path := filter (anc s) (snodes S).
Definition separate_from (S : stree) (s : path) : list path :=
  filter (fun x => negb (anc s x) && negb (anc x s)) (snodes S).

Section Cell.
  Variables (S : stree) (c : costs) (rp : ret) (ta tb : ttree).

  (* [_compute_thl_try_speciation] *)
  Definition spe_batch (s : path) : list (ext * option tag) :=
    let ls := s ++ [false] in let rs := s ++ [true] in
    let fl x := Fin (c_floss c * (dist s x - 1)) in
    let ltl := agg rp (under S ls) (fun x => ext_add (val (tread ta x)) (fl x)) in
    let rtl := agg rp (under S ls) (fun x => ext_add (val (tread tb x)) (fl x)) in
    let ltr := agg rp (under S rs) (fun x => ext_add (val (tread ta x)) (fl x)) in
    let rtr := agg rp (under S rs) (fun x => ext_add (val (tread tb x)) (fl x)) in
    let k := Fin (c_spe c) in
    cands (combine tag_eqb MIN rp ltl rtr (event_comb k (val ltl) (val rtr)))
    ++ cands (combine tag_eqb MIN rp ltr rtl (event_comb k (val ltr) (val rtl))).

  (* [_compute_thl_try_duplication_transfer] *)
  Definition dt_batch (s : path) : list (ext * option tag) :=
    let fl x := Fin (c_floss c * dist s x) in
    let ltc := agg rp (under S s) (fun x => ext_add (val (tread ta x)) (fl x)) in
    let rtc := agg rp (under S s) (fun x => ext_add (val (tread tb x)) (fl x)) in
    let lts := agg rp (separate_from S s) (fun x => val (tread ta x)) in
    let rts := agg rp (separate_from S s) (fun x => val (tread tb x)) in
    cands (combine tag_eqb MIN rp ltc rtc (event_comb (Fin (c_dup c)) (val ltc) (val rtc)))
    ++ cands (combine tag_eqb MIN rp lts rtc (event_comb (c_hgt c) (val lts) (val rtc)))
    ++ cands (combine tag_eqb MIN rp ltc rts (event_comb (c_hgt c) (val ltc) (val rts))).

  Definition cell (s : path) : entry tag :=
    let e0 := default_entry MIN in
    let e1 := if sleaf S s then e0 else cell_upd rp e0 (spe_batch s) in
    cell_upd rp e1 (dt_batch s).

  (* cells that were instantiated: those that received a finite candidate *)
  Definition node_row : row :=
    flat_map (fun s => let e := cell s in
                       if ext_is_inf (val e) then [] else [(s, e)]) (snodes S).
End Cell.

(* [_compute_thl_table] *)
Fixpoint thl_table (S : stree) (c : costs) (rp : ret) (O : otree) : ttree :=
  match O with
  | OLeaf sp _ => TLeaf sp
  | ONode a b =>
      let ta := thl_table S c rp a in let tb := thl_table S c rp b in
      TNode (node_row S c rp ta tb) ta tb
  end.

(* [_decode_thl_table] *)
Fixpoint decode (t : ttree) (s : path) : list rtree :=
  match t with
  | TLeaf sp => if ext_is_inf (val (tread t s)) then [] else [RLeaf s]
  | TNode cells ta tb =>
      flat_map (fun lr : tag =>
        flat_map (fun ra => map (fun rb => RNode s ra rb) (decode tb (snd lr))) (decode ta (fst lr)))
        (tags (tread t s))
  end.

(* [reconcile_thl] *)
Definition thl_candidates (S : stree) (c : costs) (rp : ret) (O : otree) : list (ext * option rtree) :=
  let t := thl_table S c rp O in
  flat_map (fun s => map (fun r => (cost c O r, Some r)) (decode t s)) (snodes S).
Definition reconcile_thl (S : stree) (c : costs) (rp : ret) (O : otree) : entry rtree :=
  update rtree_eqb MIN rp (default_entry MIN) (thl_candidates S c rp O).

(** * [generate_all] / [reconcile_exhaustive] *)
(* all prefixes of [p], longest first: p, its parent, ..., the root *)
Fixpoint prefixes (p : path) : list path :=
  match p with
  | [] => [[]]
  | x :: p' => map (cons x) (prefixes p') ++ [[]]
  end.

(* transfer placements: from [target] up to, excluding, [m] (the LCA) *)
Definition transfer_chain (target other m : path) : list path :=
  if anc other target then []
  else filter (fun p => Nat.ltb (length m) (length p)) (prefixes target).

Fixpoint gen_all (O : otree) : list rtree :=
  match O with
  | OLeaf sp _ => [RLeaf sp]
  | ONode a b =>
      flat_map (fun ra => flat_map (fun rb =>
        let l := root ra in let r := root rb in let m := lcp l r in
        map (fun s => RNode s ra rb)
            (prefixes m ++ transfer_chain l r m ++ transfer_chain r l m))
        (gen_all b)) (gen_all a)
  end.
Definition reconcile_exhaustive (c : costs) (rp : ret) (O : otree) : entry rtree :=
  update rtree_eqb MIN rp (default_entry MIN) (map (fun r => (cost c O r, Some r)) (gen_all O)).
