(** Model of the colour handling of the renderer (C15).

    * [propagate]: the pre-order loop at the top of [layout._compute_branches]
      after fix D8 -- a node without its own colour takes the colour its parent
      ended up with (the parent is visited first, so its colour is settled).
    * [old_propagate]: the loop before the fix (one remembered coloured node,
      forgotten as soon as a node outside its subtree is met).
    * pseudo-genes created by [_add_losses] read [getattr(gene, "color", None)]
      of the gene whose lineage they extend, after the propagation: [pseudo_colour].
    * [intern1]/[intern_all]: [get_color] inside [tikz.render] -- a colour is
      looked up in the list of colours met so far and appended when new; the
      TikZ name is [reccolor<index>].
    Nodes are addressed by root paths (child indexes).  No proofs here. *)
From Coq Require Import List Bool Arith.
Import ListNotations.

Inductive rose (A : Type) : Type := RNode (a : A) (kids : list (rose A)).
Arguments RNode {A} a kids.

Definition path := list nat.

Fixpoint get {A} (t : rose A) (p : path) {struct p} : option A :=
  match t, p with
  | RNode a _, [] => Some a
  | RNode _ ks, i :: p' =>
      match nth_error ks i with Some k => get k p' | None => None end
  end.

Section Colour.
  Variable A : Type.

  Definition own_or (c inh : option A) : option A :=
    match c with Some _ => c | None => inh end.

  (** after the fix; [inh] is the colour the parent ended up with ([None] at the root) *)
  Fixpoint propagate (inh : option A) (t : rose (option A)) : rose (option A) :=
    match t with
    | RNode c ks => RNode (own_or c inh) (map (propagate (own_or c inh)) ks)
    end.

  Definition colours (t : rose (option A)) : rose (option A) := propagate None t.

  (** colour recorded in the branch of object node [p] *)
  Definition node_colour (t : rose (option A)) (p : path) : option A :=
    match get (colours t) p with Some c => c | None => None end.

  (** colour of every loss pseudo-gene inserted on the lineage of object node [p] *)
  Definition pseudo_colour (t : rose (option A)) (p : path) : option A := node_colour t p.

  (** before the fix: state = the last coloured node met (colour, path) *)
  Fixpoint is_prefix (q p : path) : bool :=
    match q, p with
    | [], _ => true
    | a :: q', b :: p' => Nat.eqb a b && is_prefix q' p'
    | _ :: _, [] => false
    end.

  Definition old_step (c : option A) (st : option (A * path)) (here : path)
    : option A * option (A * path) :=
    match c with
    | Some x => (Some x, Some (x, here))
    | None =>
        match st with
        | Some (x, q) =>
            if is_prefix q here && negb (Nat.eqb (length q) (length here))
            then (Some x, st) else (None, None)
        | None => (None, None)
        end
    end.

  Fixpoint old_propagate (st : option (A * path)) (here : path) (t : rose (option A))
    : rose (option A) * option (A * path) :=
    match t with
    | RNode c ks =>
        let '(c', st1) := old_step c st here in
        let fix go (i : nat) (ks : list (rose (option A))) (st : option (A * path)) :=
          match ks with
          | [] => ([], st)
          | k :: r =>
              let '(k', st2) := old_propagate st (here ++ [i]) k in
              let '(r', st3) := go (S i) r st2 in
              (k' :: r', st3)
          end in
        let '(ks', st4) := go 0 ks st1 in
        (RNode c' ks', st4)
    end.

  Definition old_colours (t : rose (option A)) : rose (option A) := fst (old_propagate None [] t).

  (** [get_color] *)
  Variable eqb : A -> A -> bool.

  Fixpoint index_of (c : A) (l : list A) : option nat :=
    match l with
    | [] => None
    | x :: r => if eqb c x then Some 0 else option_map S (index_of c r)
    end.

  Definition intern1 (tbl : list A) (c : A) : list A * nat :=
    match index_of c tbl with
    | Some i => (tbl, i)
    | None => (tbl ++ [c], length tbl)
    end.

  Fixpoint intern_all (tbl : list A) (cs : list A) : list A * list nat :=
    match cs with
    | [] => (tbl, [])
    | c :: r =>
        let '(t1, i) := intern1 tbl c in
        let '(t2, js) := intern_all t1 r in
        (t2, i :: js)
    end.
End Colour.

Arguments own_or {A}. Arguments propagate {A}. Arguments colours {A}. Arguments node_colour {A}.
Arguments pseudo_colour {A}. Arguments old_step {A}.
Arguments old_propagate {A}. Arguments old_colours {A}. Arguments index_of {A}.
Arguments intern1 {A}. Arguments intern_all {A}.
