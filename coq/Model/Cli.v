(** Model of the dispatch decision of [call_algorithm] (cli/reconcile.py) over the
    *generated* table [Gen/CliTable.v].

    [read_input] builds a [SuperReconciliationInput] exactly when the input file
    has a ["leaf_syntenies"] key, a [ReconciliationInput] otherwise.  Then

      if params[0].annotation != type(rec_input):
          if params[0].annotation == ReconciliationInput:  warning on stderr, go on
          else:                                            error on stderr, return None
      if   len(params) == 1:                                        algo(rec_input)
      elif len(params) == 2 and params[1].annotation == RetentionPolicy:  algo(rec_input, policy)
      else:                                                         return None

    and [reconcile] turns [None] into exit status 1 with nothing written.  The
    translator only emits rows for functions with one parameter, or two of which
    the second is annotated [RetentionPolicy] (it aborts on anything else), so the
    last [else] is not reachable from a generated table and has no row shape.
    An algorithm key outside the table is refused by argparse ([choices]) before
    [reconcile] runs: [Rejected]. *)
From Coq Require Import List Bool String.
From SR Require Import Gen.CliTable.
Import ListNotations.
Local Open Scope string_scope.

Inductive decision : Set :=
| Run               (* algorithm called, results written *)
| RunWithWarning    (* same, after "declared leaf syntenies will be ignored" *)
| Error.            (* "you need to provide leaf syntenies": status 1, nothing written *)

Definition class_eqb (a b : input_class) : bool :=
  match a, b with
  | ReconciliationInput, ReconciliationInput => true
  | SuperReconciliationInput, SuperReconciliationInput => true
  | _, _ => false
  end.

(* type(rec_input) *)
Definition class_of_input (has_syntenies : bool) : input_class :=
  if has_syntenies then SuperReconciliationInput else ReconciliationInput.

Definition decide (annotation : input_class) (takes_policy : bool) (has_syntenies : bool) : decision :=
  if negb (class_eqb annotation (class_of_input has_syntenies)) then
    if class_eqb annotation ReconciliationInput then RunWithWarning else Error
  else Run.

(* does the call pass [RetentionPolicy[args.solutions.upper()]] ? *)
Definition passes_policy (annotation : input_class) (takes_policy : bool) (has_syntenies : bool) : option bool :=
  match decide annotation takes_policy has_syntenies with
  | Error => None
  | _ => Some takes_policy
  end.

Fixpoint lookup (key : string) (t : list (string * (input_class * bool))) : option (input_class * bool) :=
  match t with
  | [] => None
  | (k, v) :: r => if k =? key then Some v else lookup key r
  end.

Inductive outcome : Set := Rejected | Decided (d : decision).

Definition dispatch (key : string) (has_syntenies : bool) : outcome :=
  match lookup key cli_table with
  | None => Rejected
  | Some (annotation, takes_policy) => Decided (decide annotation takes_policy has_syntenies)
  end.

Definition outcome_eqb (a b : outcome) : bool :=
  match a, b with
  | Rejected, Rejected => true
  | Decided Run, Decided Run => true
  | Decided RunWithWarning, Decided RunWithWarning => true
  | Decided Error, Decided Error => true
  | _, _ => false
  end.
