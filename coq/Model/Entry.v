(** Model of [Entry], [EntryProxy] and [Table] of
    [superrec2/utils/dynamic_programming.py] (after the stale-tag repair, D1).

    An info tag is [option T]: [None] stands for a candidate without tag (Python
    [info=None] or any falsy info, which [if info and ...] treats alike).  The
    Python tag *set* is a duplicate-free list in insertion order. *)
From Coq Require Import List Bool ZArith.
From SR Require Import Base.Ext.
Import ListNotations.

Inductive merge := MIN | MAX.
Inductive ret := RNONE | RANY | RALL.

(* [a] strictly better than [b] *)
Definition better (mp : merge) (a b : ext) : bool :=
  match mp with MIN => ext_ltb a b | MAX => ext_ltb b a end.
Definition init_val (mp : merge) : ext := match mp with MIN => PInf | MAX => NInf end.

Section Entry.
  Context {T : Type} (T_eqb : T -> T -> bool).

  Record entry := { val : ext; tags : list T }.

  Definition default_entry (mp : merge) : entry := {| val := init_val mp; tags := [] |}.

  Fixpoint mem (t : T) (l : list T) : bool :=
    match l with [] => false | x :: l' => T_eqb t x || mem t l' end.
  Definition add_tag (t : T) (l : list T) : list T := if mem t l then l else l ++ [t].

  (* one iteration of the loop of [Entry.update]: the two successive [if]s *)
  Definition update1 (mp : merge) (rp : ret) (e : entry) (c : ext * option T) : entry :=
    let '(v, ot) := c in
    let e1 :=
      if ext_eqb (val e) v then
        match ot with
        | Some t =>
            match rp with
            | RALL => {| val := v; tags := add_tag t (tags e) |}
            | RANY => match tags e with [] => {| val := v; tags := [t] |} | _ => e end
            | RNONE => e
            end
        | None => e
        end
      else e in
    if better mp v (val e1) then
      {| val := v;
         tags := match ot, rp with
                 | Some t, RALL | Some t, RANY => [t]
                 | _, _ => []
                 end |}
    else e1.

  Definition update (mp : merge) (rp : ret) (e : entry) (cs : list (ext * option T)) : entry :=
    fold_left (update1 mp rp) cs e.
End Entry.
Arguments entry : clear implicits.
Arguments update1 {T} T_eqb mp rp e c : simpl never.

(* [Entry.combine]: a fresh entry updated with [combinator] over the product of the
   two tag sets ([f] receives the two tags; the two values are fixed) *)
Definition combine {T U : Type} (U_eqb : U -> U -> bool) (mp : merge) (rp : ret)
    (e1 e2 : entry T) (f : T -> T -> ext * option U) : entry U :=
  update U_eqb mp rp (default_entry mp)
    (flat_map (fun a => map (fun b => f a b) (tags e2)) (tags e1)).

(** * Tables: nested lists / dicts addressed by a full key, read through proxies *)

Section Table.
  Context {T : Type} (T_eqb : T -> T -> bool).

  (* a dimension is a list of given length or a dict accepting any key *)
  Definition dims := list (option nat).
  Definition key := list nat.

  Fixpoint key_ok (d : dims) (k : key) : bool :=
    match d, k with
    | [], [] => true
    | None :: d', _ :: k' => key_ok d' k'
    | Some n :: d', i :: k' => Nat.ltb i n && key_ok d' k'
    | _, _ => false
    end.

  Fixpoint key_eqb (a b : key) : bool :=
    match a, b with
    | [], [] => true
    | x :: a', y :: b' => Nat.eqb x y && key_eqb a' b'
    | _, _ => false
    end.

  (* cells that exist (were instantiated by a non-infinite candidate) *)
  Definition table := list (key * entry T).

  Fixpoint lookup (tb : table) (k : key) : option (entry T) :=
    match tb with
    | [] => None
    | (k', e) :: tb' => if key_eqb k k' then Some e else lookup tb' k
    end.

  Fixpoint store (tb : table) (k : key) (e : entry T) : table :=
    match tb with
    | [] => [(k, e)]
    | (k', e') :: tb' => if key_eqb k k' then (k, e) :: tb' else (k', e') :: store tb' k e
    end.

  (* [EntryProxy.value()/infos()]: a missing cell reads as infinitely bad, no tags *)
  Definition read (mp : merge) (tb : table) (k : key) : entry T :=
    match lookup tb k with Some e => e | None => default_entry mp end.

  (* [EntryProxy.update] of a batch of candidates: ignored unless some candidate is finite *)
  Definition write (mp : merge) (rp : ret) (tb : table) (k : key)
      (cs : list (ext * option T)) : table :=
    if existsb (fun c => negb (ext_is_inf (fst c))) cs
    then store tb k (update T_eqb mp rp (read mp tb k) cs)
    else tb.

  (* an operation history; [None] = IndexError (list dimension out of range) *)
  Fixpoint run_writes (d : dims) (mp : merge) (rp : ret) (tb : table)
      (ops : list (key * list (ext * option T))) : option table :=
    match ops with
    | [] => Some tb
    | (k, cs) :: ops' =>
        (* the proxy only indexes the table when some candidate is finite *)
        if existsb (fun c => negb (ext_is_inf (fst c))) cs
        then if key_ok d k then run_writes d mp rp (write mp rp tb k cs) ops' else None
        else run_writes d mp rp tb ops'
    end.
End Table.
