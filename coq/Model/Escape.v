(** Model of [superrec2.utils.tex.escape] (C15).

      def escape(text): return text.replace("\\", "\\\\").replace(r"_", r"\_")

    Both [str.replace] calls have a one-character pattern, so each is the
    left-to-right substitution [replace1].  Strings are [list ascii]; the
    [_s] wrappers work on Coq [string]s for the correspondence harness.
    No proofs here (Proofs/EscapeProofs.v). *)
From Coq Require Import String Ascii List Bool.
Import ListNotations.

Definition str := list ascii.

Definition bs : ascii := "\"%char.      (* backslash, code 92 *)
Definition us : ascii := "_"%char.
Definition nl : ascii := "010"%char.    (* line feed *)
Definition sp : ascii := " "%char.

(** [s.replace(old, new)] for a one-character [old]. *)
Fixpoint replace1 (old : ascii) (new : str) (s : str) : str :=
  match s with
  | [] => []
  | c :: r => (if Ascii.eqb c old then new else [c]) ++ replace1 old new r
  end.

(** The code: first the backslashes, then the underscores. *)
Definition escape (s : str) : str :=
  replace1 us [bs; us] (replace1 bs [bs; bs] s).

(** The two calls in the other order (what a careless edit would do): the second
    call then re-escapes the backslashes the first one produced. *)
Definition escape_swapped (s : str) : str :=
  replace1 bs [bs; bs] (replace1 us [bs; us] s).

(** Character-wise reading of the escaped text: a backslash announces one escaped
    character (a backslash or an underscore); a bare underscore or a backslash
    followed by anything else does not occur in escaped text. *)
Fixpoint unescape (s : str) : option str :=
  match s with
  | [] => Some []
  | c :: r =>
      if Ascii.eqb c bs then
        match r with
        | d :: r' =>
            if Ascii.eqb d bs || Ascii.eqb d us
            then option_map (cons d) (unescape r') else None
        | [] => None
        end
      else if Ascii.eqb c us then None
      else option_map (cons c) (unescape r)
  end.

Definition escape_s (s : string) : string :=
  string_of_list_ascii (escape (list_ascii_of_string s)).
