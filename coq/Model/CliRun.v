(** Model of the [reconcile] command ([superrec2/cli/reconcile.py]) on inputs whose
    trees are binary:

      reconcile(args):  rec_input = read_input(args)
                        results   = call_algorithm(args, rec_input)
                        if results is None: return 1
                        dump_results(args, results)

    - [read_input]: the input file is a JSON object with the keys "object_tree",
      "species_tree" (Newick; read by ete3, here already trees of names), optionally
      "leaf_object_species" (else the <species>_<id> naming convention,
      [get_species_mapping]) and optionally "leaf_syntenies" (its presence selects the
      class [SuperReconciliationInput]); the "costs" entry is overwritten with the five
      [--cost-*] options.  The mappings are resolved by name ([tree & name]) on the
      trees as read, THEN [label_internal()] names the unnamed nodes (fix D7): a
      mapping is keyed by node objects, i.e. by root paths, which the relabelling
      leaves alone.
    - [call_algorithm]: [Model/Cli.v] ([dispatch], over the generated table) decides
      Error / Run / RunWithWarning; the chosen solver (the models of C01-C03, C07) is
      run on the solver input extracted from the object that [read_input] built;
      an empty result is status 1; "Minimum cost:" is [results[0].cost()], the
      evaluator ([Model/Recon.v]) applied to one of the results ([results] is the
      list of a Python set: the model takes the head of the tag list, and
      Proofs/CliRunProofs.v shows that every result has that cost).
    - [dump_results]: one [to_dict()] per result ([Model/Serial.v], with the Gallina
      Newick printer standing for ete3's writer as in C11), [json.dump] = identity.

    What is not modelled: JSON / argparse / ete3 parsing (inputs are already trees,
    dictionaries and numbers), the text on stderr apart from the minimum cost, the
    order of the output lines (a Python set: compare as sets), polytomies
    ([CliOutOfModel]), non-integer unit costs.

    Gene families are strings in the package and numbers ([Recon.fam = N]) in the
    solver models: a family is numbered by its position in the duplicate-free list
    of the families of the leaf syntenies ([fam_table]); the solvers' results are
    the same up to that injective renaming (C09).

    No proofs in this file. *)
From Coq Require Import List Bool Arith ZArith NArith String Ascii.
From SR Require Import Base.PathB Base.Ext Model.Entry Model.Recon Model.LcaRec Model.Thl
  Model.Spfs Model.Uspfs Model.Newick Model.Serial Model.Label Gen.CliTable Model.Cli.
Import ListNotations.
Local Open Scope string_scope.

Definition npath := list nat.       (* a node of an ete3 tree: child indexes from the root *)
Definition bpath := list bool.      (* a node of a binary species tree in the solver models *)

(** * trees of names -> ete3 trees (no colour feature in an input file) *)
Fixpoint tree_of (t : ntree string) : tree :=
  match t with NT x cs => Node x None (map tree_of cs) end.

Fixpoint is_binary (t : tree) : bool :=
  match t with
  | Node _ _ [] => true
  | Node _ _ [a; b] => is_binary a && is_binary b
  | _ => false
  end.

Fixpoint to_bpath (p : npath) : option bpath :=
  match p with
  | [] => Some []
  | 0 :: q => option_map (cons false) (to_bpath q)
  | 1 :: q => option_map (cons true) (to_bpath q)
  | _ => None
  end.
Definition to_npath (p : bpath) : npath := map (fun b : bool => if b then 1 else 0) p.

(** * mappings keyed by nodes, seen from a subtree *)
Definition sub_map {V} (i : nat) (m : list (npath * V)) : list (npath * V) :=
  flat_map (fun pv => match fst pv with
                      | j :: q => if Nat.eqb i j then [(q, snd pv)] else []
                      | [] => []
                      end) m.
(* [mapping[node]] for the root; [None] = KeyError *)
Definition at_root {V} (m : list (npath * V)) : option V :=
  option_map snd (find (fun pv => match fst pv with [] => true | _ :: _ => false end) m).
Definition push {V} (i : nat) (pv : npath * V) : npath * V := (i :: fst pv, snd pv).

(** * [read_input] *)

(* data["costs"] = {kind: args.cost_<name> for kind in cost_events}: in the order of [cost_events] *)
Definition cost_items (c : Recon.costs) : costmap :=
  [(SPECIATION, Fin (c_spe c)); (DUPLICATION, Fin (c_dup c)); (HORIZONTAL_TRANSFER, c_hgt c);
   (FULL_LOSS, Fin (c_floss c)); (SEGMENTAL_LOSS, Fin (c_sloss c))].

Definition is_leaf_at (t : tree) (p : npath) : bool :=
  match subtree t p with Some (Node _ _ []) => true | _ => false end.
(* [for node in tree]: the leaves, in leaf order *)
Definition leaf_paths (t : tree) : list npath := filter (is_leaf_at t) (Serial.preorder t).

(* [get_species_mapping] ([Model/Label.v]: [species_prefix_mapping]) as a mapping between nodes *)
Definition species_mapping (O S : tree) : treemap :=
  let sl := leaf_paths S in
  let snames := map (fun p => match name_at S p with Some n => n | None => "" end) sl in
  flat_map (fun p =>
    match name_at O p with
    | Some n => match species_prefix_mapping snames n with
                | Some i => match nth_error sl i with Some q => [(p, q)] | None => [] end
                | None => []
                end
    | None => []
    end) (leaf_paths O).

Record cli_input := mkCli {
  ci_algo : string;                               (* ALGO *)
  ci_policy : ret;                                (* --solutions any | all : RANY | RALL *)
  ci_costs : Recon.costs;                         (* --cost-spe ... --cost-sloss, after [eval_cost] *)
  ci_otree : ntree string;                        (* Tree(data["object_tree"], format=1) *)
  ci_stree : ntree string;                        (* Tree(data["species_tree"], format=1) *)
  ci_leafmap : option (dict string);              (* data["leaf_object_species"], if present *)
  ci_leafsyn : option (dict (list string))        (* data["leaf_syntenies"], if present *)
}.

Definition has_syntenies (x : cli_input) : bool :=
  match ci_leafsyn x with Some _ => true | None => false end.

(* [None] = an exception escapes (TreeError: a name of a mapping is not in its tree) *)
Definition read_input (x : cli_input) : option any_input :=
  let O := tree_of (ci_otree x) in
  let S := tree_of (ci_stree x) in
  match (match ci_leafmap x with
         | Some d => parse_tree_mapping O S d
         | None => Some (species_mapping O S)
         end) with
  | None => None
  | Some lm =>
      match (match ci_leafsyn x with
             | Some d => option_map Some (parse_synteny_mapping O d)
             | None => Some None
             end) with
      | None => None
      | Some ls =>
          match label_object_tree (ci_otree x), label_species_tree (ci_stree x) with
          | Some O', Some S' =>
              let base := mkRI (tree_of O') (tree_of S') lm (cost_items (ci_costs x)) in
              Some (match ls with Some m => Super (mkSI base m) | None => Plain base end)
          | _, _ => None                        (* the counter ran out of fuel: never (LabelProofs) *)
          end
      end
  end.

(** * from the object built by [read_input] to the input of the solver models *)

Fixpoint to_stree (t : tree) : option Recon.stree :=
  match t with
  | Node _ _ [] => Some SLeaf
  | Node _ _ [a; b] =>
      match to_stree a, to_stree b with
      | Some x, Some y => Some (SNode x y)
      | _, _ => None
      end
  | _ => None
  end.

(* [lm]: leaf_object_species, [ls]: the numbered leaf syntenies ([None] for the plain
   algorithms, which never look at them); both seen from [t].
   [None] = KeyError (a leaf without species / without synteny), or not binary *)
Fixpoint to_otree (t : tree) (lm : list (npath * npath)) (ls : option (list (npath * list fam)))
    : option Recon.otree :=
  match t with
  | Node _ _ [] =>
      match at_root lm with
      | Some q =>
          match to_bpath q with
          | Some s =>
              match ls with
              | None => Some (OLeaf s [])
              | Some m => option_map (OLeaf s) (at_root m)
              end
          | None => None
          end
      | None => None
      end
  | Node _ _ [a; b] =>
      match to_otree a (sub_map 0 lm) (option_map (sub_map 0) ls),
            to_otree b (sub_map 1 lm) (option_map (sub_map 1) ls) with
      | Some x, Some y => Some (ONode x y)
      | _, _ => None
      end
  | _ => None
  end.

(* the unit costs as the solver models hold them; [None]: a unit cost other than hgt is
   not an integer (outside the model) or an event is missing *)
Fixpoint cost_lookup (e : Serial.ev) (c : costmap) : option ext :=
  match c with
  | [] => None
  | (e', v) :: c' => if String.eqb (ev_name e) (ev_name e') then Some v else cost_lookup e c'
  end.
Definition to_costs (c : costmap) : option Recon.costs :=
  match cost_lookup SPECIATION c, cost_lookup DUPLICATION c, cost_lookup HORIZONTAL_TRANSFER c,
        cost_lookup FULL_LOSS c, cost_lookup SEGMENTAL_LOSS c with
  | Some (Fin spe), Some (Fin dup), Some hgt, Some (Fin floss), Some (Fin sloss) =>
      Some {| c_spe := spe; c_dup := dup; c_hgt := hgt; c_floss := floss; c_sloss := sloss |}
  | _, _, _, _, _ => None
  end.

(** * gene families: strings <-> numbers *)
Definition fam_table (ls : synmap) : list string :=
  nodup string_dec (flat_map (fun ps => match snd ps with SList l => l | SSet l => l end) ls).
Fixpoint index_of (s : string) (l : list string) : option nat :=
  match l with
  | [] => None
  | x :: l' => if String.eqb s x then Some 0 else option_map S (index_of s l')
  end.
Definition fam_num (tbl : list string) (s : string) : option fam := option_map N.of_nat (index_of s tbl).
Definition fam_name (tbl : list string) (f : fam) : option string := nth_error tbl (N.to_nat f).

Definition number_syntenies (tbl : list string) (ls : synmap) : option (list (npath * list fam)) :=
  mapM (fun ps => option_map (pair (fst ps))
                    (mapM (fam_num tbl) (match snd ps with SList l => l | SSet l => l end))) ls.

(** * the solvers *)
Inductive solution :=
| SolR (r : rtree)                        (* ReconciliationOutput: the species of every object node *)
| SolL (ordered : bool) (t : ltree).      (* SuperReconciliationOutput: species and synteny *)

Definition is_super (key : string) : bool :=
  (key =? "base_spfs") || (key =? "ext_spfs") || (key =? "base_uspfs") || (key =? "superdtl").

(* [algorithms[args.algorithm]] applied as [call_algorithm] does ([lca] takes no policy).
   [None] = the solver raises; [Some []] = no solution *)
Definition run_spfs (ext : bool) (rp : ret) (c : Recon.costs) (S : Recon.stree) (O : Recon.otree)
    : option (list solution) :=
  match Spfs.root_orders O with
  | Some orders => option_map (fun e => map (SolL true) (tags e)) (spfs S c rp ext orders O)
  | None => None
  end.
Definition run_uspfs (ext : bool) (rp : ret) (c : Recon.costs) (S : Recon.stree) (O : Recon.otree)
    : option (list solution) :=
  option_map (fun e => map (SolL false) (tags e)) (uspfs S c rp ext O).

Definition run_algo (key : string) (rp : ret) (c : Recon.costs) (S : Recon.stree) (O : Recon.otree)
    : option (list solution) :=
  if key =? "lca" then Some [SolR (lca_rec O)]
  else if key =? "thl" then Some (map SolR (tags (reconcile_thl S c rp O)))
  else if key =? "exh" then Some (map SolR (tags (reconcile_exhaustive c rp O)))
  else if key =? "base_spfs" then run_spfs false rp c S O
  else if key =? "ext_spfs" then run_spfs true rp c S O
  else if key =? "base_uspfs" then run_uspfs false rp c S O
  else if key =? "superdtl" then run_uspfs true rp c S O
  else None.

(* [result.cost()]; [None] = the assertion on the event kind fails *)
Definition sol_cost (c : Recon.costs) (O : Recon.otree) (s : solution) : option ext :=
  match s with
  | SolR r => Some (cost c O r)
  | SolL ord t => total_cost c O ord t
  end.

(** * [to_dict] of a result *)
Fixpoint omap_of (r : rtree) : treemap :=
  match r with
  | RLeaf s => [([], to_npath s)]
  | RNode s a b => ([], to_npath s) :: map (push 0) (omap_of a) ++ map (push 1) (omap_of b)
  end.
(* ordered: [subseq_from_mask(...)], a list of families; unordered: [sort_synteny(set)], a list too *)
Definition render_syn (tbl : list string) (ord : bool) (y : list fam) : option syn :=
  option_map (fun l => SList (if ord then l else sort_synteny l)) (mapM (fam_name tbl) y).
Fixpoint syns_of (tbl : list string) (ord : bool) (t : ltree) : option synmap :=
  match t with
  | LLeaf _ y => option_map (fun s => [([], s)]) (render_syn tbl ord y)
  | LNode _ y a b =>
      match render_syn tbl ord y, syns_of tbl ord a, syns_of tbl ord b with
      | Some s, Some ma, Some mb => Some (([], s) :: map (push 0) ma ++ map (push 1) mb)
      | _, _, _ => None
      end
  end.

Definition result_of (inp : any_input) (tbl : list string) (s : solution) : option (routput + soutput) :=
  match s with
  | SolR r => Some (inl (mkRO inp (omap_of r)))
  | SolL ord t =>
      option_map (fun sy => inr (mkSO (mkRO inp (omap_of (forget t))) sy ord)) (syns_of tbl ord t)
  end.

(* one line of output, before [json.dump] *)
Inductive out_obj := OutR (d : droutput) | OutS (d : dsoutput).

Definition write_result (r : routput + soutput) : option out_obj :=
  match r with
  | inl x => option_map OutR (routput_to_dict print_tree x)
  | inr x => option_map OutS (soutput_to_dict print_tree x)
  end.
Definition write_solution (inp : any_input) (tbl : list string) (s : solution) : option out_obj :=
  match result_of inp tbl s with Some r => write_result r | None => None end.

(** * the command *)
Inductive cli_result :=
| CliRejected                 (* argparse refuses the algorithm key: status 2 *)
| CliError                    (* "you need to provide leaf syntenies": status 1, nothing written *)
| CliNoSolution               (* the algorithm returned nothing: status 1, nothing written *)
| CliRaise                    (* an exception escapes: traceback, status 1, nothing written *)
| CliOutOfModel               (* a polytomy, a synteny on an internal node, a non-integer unit cost *)
| CliOk (warned : bool) (min_cost : ext) (objs : list out_obj).   (* status 0 *)

(* the leaf syntenies the solver sees: those of a SuperReconciliationInput, when the
   algorithm is a super-reconciliation algorithm *)
Definition solver_syntenies (key : string) (inp : any_input) : option synmap :=
  match inp with
  | Super si => if is_super key then Some (leafsyn si) else None
  | Plain _ => None
  end.
Definition input_table (inp : any_input) : list string :=
  match inp with Super si => fam_table (leafsyn si) | Plain _ => [] end.

Definition call_algorithm (key : string) (rp : ret) (warned : bool) (inp : any_input) : cli_result :=
  let b := base_of inp in
  let tbl := input_table inp in
  let lsyn := solver_syntenies key inp in
  if negb (is_binary (Serial.otree b) && is_binary (Serial.stree b)) then CliOutOfModel
  else if negb (match lsyn with
                | Some m => forallb (is_leaf_at (Serial.otree b)) (map fst m)
                | None => true
                end) then CliOutOfModel
  else
    match to_costs (Serial.costs b), to_stree (Serial.stree b) with
    | Some c, Some St =>
        match (match lsyn with
               | Some m => option_map Some (number_syntenies tbl m)
               | None => Some None
               end) with
        | None => CliRaise
        | Some ls =>
            match to_otree (Serial.otree b) (leafmap b) ls with
            | None => CliRaise                                   (* KeyError *)
            | Some Ot =>
                match run_algo key rp c St Ot with
                | None => CliRaise
                | Some [] => CliNoSolution
                | Some (s0 :: rest) =>
                    match sol_cost c Ot s0, mapM (write_solution inp tbl) (s0 :: rest) with
                    | Some m, Some objs => CliOk warned m objs
                    | _, _ => CliRaise
                    end
                end
            end
        end
    | _, _ => CliOutOfModel
    end.

Definition cli_run (x : cli_input) : cli_result :=
  match dispatch (ci_algo x) (has_syntenies x) with
  | Rejected => CliRejected
  | Decided d =>
      match read_input x with
      | None => CliRaise
      | Some inp =>
          match d with
          | Error => CliError
          | Run => call_algorithm (ci_algo x) (ci_policy x) false inp
          | RunWithWarning => call_algorithm (ci_algo x) (ci_policy x) true inp
          end
      end
  end.

(** * reading a line back ([from_dict]) and evaluating it ([.cost()]) *)
Definition parse_back (d : out_obj) : option (routput + soutput) :=
  match d with
  | OutR d => option_map inl (routput_from_dict parse_tree d)
  | OutS d => option_map inr (soutput_from_dict parse_tree d)
  end.

(* the species of every object node, from [object_species] *)
Fixpoint to_rtree (t : tree) (m : list (npath * npath)) : option rtree :=
  match t with
  | Node _ _ [] =>
      match at_root m with
      | Some q => option_map RLeaf (to_bpath q)
      | None => None
      end
  | Node _ _ [a; b] =>
      match at_root m, to_rtree a (sub_map 0 m), to_rtree b (sub_map 1 m) with
      | Some q, Some ra, Some rb => option_map (fun s => RNode s ra rb) (to_bpath q)
      | _, _, _ => None
      end
  | _ => None
  end.
(* ... and its synteny, from [syntenies]; [num] numbers the families *)
Fixpoint to_ltree (num : string -> option fam) (t : tree) (m : list (npath * npath)) (sy : synmap)
    : option ltree :=
  let syn_here := match at_root sy with
                  | Some (SList l) | Some (SSet l) => mapM num l
                  | None => None
                  end in
  match t with
  | Node _ _ [] =>
      match at_root m, syn_here with
      | Some q, Some y => option_map (fun s => LLeaf s y) (to_bpath q)
      | _, _ => None
      end
  | Node _ _ [a; b] =>
      match at_root m, syn_here,
            to_ltree num a (sub_map 0 m) (sub_map 0 sy), to_ltree num b (sub_map 1 m) (sub_map 1 sy) with
      | Some q, Some y, Some la, Some lb => option_map (fun s => LNode s y la lb) (to_bpath q)
      | _, _, _, _ => None
      end
  | _ => None
  end.

(* [ReconciliationOutput.cost()] / [SuperReconciliationOutput.cost()] of an object held in
   the dictionary layer's representation; [None] = it raises *)
Definition eval_routput (x : routput) : option ext :=
  let b := base_of (r_in x) in
  match to_costs (Serial.costs b), to_otree (Serial.otree b) (leafmap b) None,
        to_rtree (Serial.otree b) (omap x) with
  | Some c, Some Ot, Some r => Some (cost c Ot r)
  | _, _, _ => None
  end.
Definition eval_soutput (num : string -> option fam) (x : soutput) : option ext :=
  let b := base_of (r_in (s_out x)) in
  match to_costs (Serial.costs b), to_otree (Serial.otree b) (leafmap b) None,
        to_ltree num (Serial.otree b) (omap (s_out x)) (syns x) with
  | Some c, Some Ot, Some t => total_cost c Ot (ordered x) t
  | _, _, _ => None
  end.
Definition eval_result (num : string -> option fam) (r : routput + soutput) : option ext :=
  match r with inl x => eval_routput x | inr x => eval_soutput num x end.

(* the numbering an evaluator may use when it only has the object: positions in the list of
   the families that occur in its syntenies *)
Definition own_num (r : routput + soutput) : string -> option fam :=
  match r with
  | inl _ => fun _ => None
  | inr x => fam_num (fam_table (syns x))
  end.
