(** Model of the unordered super-reconciliation solvers (USPFS / SuperDTL,
    [superrec2/compute/unordered_super_reconciliation.py], after the repair D6):
    [_compute_gain_sets], [_compute_lca_sets], [_compute_uspfs_entry],
    [_compute_uspfs_table], [_decode_uspfs_table], [_uspfs].

    Family sets are duplicate-free lists; a node's synteny kind is [false] = LCA (its
    required content) or [true] = INHERIT (its parent's content plus its own gains). *)
From Coq Require Import List Bool ZArith NArith.
From SR Require Import Base.PathB Base.Ext Model.Entry Model.Recon Model.LcaRec Model.Thl.
Import ListNotations.
Local Open Scope Z_scope.

(** * gain sets and LCA sets *)
Fixpoint set_add (x : fam) (l : list fam) : list fam :=      (* sorted insertion, no duplicates *)
  match l with
  | [] => [x]
  | y :: l' => if N.ltb x y then x :: l else if N.eqb x y then l else y :: set_add x l'
  end.
Definition set_of (l : list fam) : list fam := fold_right set_add [] l.
Definition set_union (a b : list fam) : list fam := fold_right set_add b a.
Definition set_diff (a b : list fam) : list fam := filter (fun x => negb (existsb (fam_eqb x) b)) a.

(* number of leaves below [o] that carry [f] *)
Fixpoint carriers (f : fam) (o : otree) : nat :=
  match o with
  | OLeaf _ syn => if existsb (fam_eqb f) syn then 1 else 0
  | ONode a b => carriers f a + carriers f b
  end.
Fixpoint families (o : otree) : list fam :=
  match o with OLeaf _ syn => set_of syn | ONode a b => set_union (families a) (families b) end.

(* object tree annotated with (lca set, gain set) at every node *)
Inductive utree := ULeaf (sp : path) (lca gain : list fam) | UNode (lca gain : list fam) (a b : utree).
Definition u_lca (u : utree) := match u with ULeaf _ l _ => l | UNode l _ _ _ => l end.
Definition u_gain (u : utree) := match u with ULeaf _ _ g => g | UNode _ g _ _ => g end.

Section Annot.
  Variable total : fam -> nat.       (* number of leaves of the whole tree carrying each family *)
  (* gained at a node: all its carriers are below the node, but not all below one child *)
  Definition gained_here (o : otree) (f : fam) : bool :=
    Nat.eqb (carriers f o) (total f) && Nat.ltb 0 (carriers f o) &&
    match o with
    | OLeaf _ _ => true
    | ONode a b => Nat.ltb (carriers f a) (total f) && Nat.ltb (carriers f b) (total f)
    end.
  Fixpoint annotate (o : otree) : utree :=
    match o with
    | OLeaf sp syn => ULeaf sp (set_of syn) (filter (gained_here o) (set_of syn))
    | ONode a b =>
        let ua := annotate a in let ub := annotate b in
        UNode (set_diff (set_union (u_lca ua) (u_lca ub)) (set_union (u_gain ua) (u_gain ub)))
              (filter (gained_here o) (families o)) ua ub
    end.
End Annot.
Definition annotate_top (o : otree) : utree := annotate (fun f => carriers f o) o.

(** * the table *)
Definition uassign := (path * bool)%type.
Definition utag := (uassign * uassign)%type.
Definition uassign_eqb (a b : uassign) : bool := path_eqb (fst a) (fst b) && Bool.eqb (snd a) (snd b).
Definition utag_eqb (a b : utag) : bool := uassign_eqb (fst a) (fst b) && uassign_eqb (snd a) (snd b).
Definition urow := list (uassign * entry utag).
Inductive utt := UTLeaf (sp : path) | UTNode (cells : urow) (a b : utt).

Fixpoint urow_lookup (r : urow) (k : uassign) : option (entry utag) :=
  match r with
  | [] => None
  | (k', e) :: r' => if uassign_eqb k k' then Some e else urow_lookup r' k
  end.
Definition uread (t : utt) (k : uassign) : entry utag :=
  match t with
  | UTLeaf sp => if uassign_eqb k (sp, false) then {| val := Fin 0; tags := [] |} else default_entry MIN
  | UTNode cells _ _ => match urow_lookup cells k with Some e => e | None => default_entry MIN end
  end.

Record uchoices := { uc_left : entry uassign; uc_right : entry uassign; uc_conserved : entry uassign;
                     uc_segment : entry uassign; uc_separate : entry uassign }.
Definition uaggp (rp : ret) (l : list (ext * option uassign)) : entry uassign :=
  Entry.update uassign_eqb MIN rp (default_entry MIN) l.

Section Cell.
  Variables (S : stree) (c : costs) (rp : ret).

  (* candidates for the aggregators of one child, for the parent placed at [s] with kind [kind];
     [lossless]: lca_sets[parent] <= lca_sets[child] *)
  Definition uchild_choices (t : utt) (lossless : bool) (s : path) (kind : bool) : uchoices :=
    let sl := Fin (c_sloss c) in
    let lca_lca := if lossless then Fin 0 else sl in
    let lca_inh := if lossless then PInf else Fin 0 in
    let one (d : path) : list (nat * (ext * option uassign)) :=
      let lc := val (uread t (d, false)) in
      let ic := val (uread t (d, true)) in
      let la := Some (d, false) in let ia := Some (d, true) in
      if anc s d then
        let above := Fin (dist s d * c_floss c) in
        let below := Fin (dist s d * c_floss c - c_floss c) in
        let cons base := if kind then [(ext_add (ext_add base lc) sl, la); (ext_add base ic, ia)]
                         else [(ext_add (ext_add base lc) lca_lca, la); (ext_add (ext_add base ic) lca_inh, ia)] in
        let seg := if kind then [(ext_add above lc, la); (ext_add above ic, ia)]
                   else [(ext_add above lc, la); (ext_add (ext_add above ic) lca_inh, ia)] in
        map (pair 2%nat) (cons above) ++ map (pair 3%nat) seg
        ++ (if sleaf S s then []
            else if anc (s ++ [false]) d then map (pair 0%nat) (cons below)
            else if anc (s ++ [true]) d then map (pair 1%nat) (cons below)
            else [])
      else if negb (anc d s) then
        map (pair 4%nat) (if kind then [(lc, la); (ic, ia)] else [(lc, la); (ext_add ic lca_inh, ia)])
      else [] in
    let all := flat_map one (snodes S) in
    let pick i := map snd (filter (fun x => Nat.eqb (fst x) i) all) in
    {| uc_left := uaggp rp (pick 0%nat); uc_right := uaggp rp (pick 1%nat); uc_conserved := uaggp rp (pick 2%nat);
       uc_segment := uaggp rp (pick 3%nat); uc_separate := uaggp rp (pick 4%nat) |}.

  Definition ucomb (k : ext) (vl vr : ext) (l r : uassign) : ext * option utag :=
    (ext_add (ext_add k vl) vr, Some (l, r)).
  Definition ucomb2 (k : ext) (a b : entry uassign) : list (ext * option utag) :=
    cands (combine utag_eqb MIN rp a b (ucomb k (val a) (val b))).

  Definition ufirst_write (cs : list (ext * option utag)) : entry utag :=
    if Thl.has_finite cs then Entry.update utag_eqb MIN rp (default_entry MIN) cs else default_entry MIN.

  (* [_compute_uspfs_entry] for one kind *)
  Definition ucell (ta tb : utt) (la lb : bool) (s : path) (kind : bool) : entry utag :=
    let p0 := uchild_choices ta la s kind in
    let p1 := uchild_choices tb lb s kind in
    let spe := Fin (c_spe c) in let dup := Fin (c_dup c) in let hgt := c_hgt c in
    ufirst_write
      (ucomb2 spe (uc_left p0) (uc_right p1) ++ ucomb2 spe (uc_right p0) (uc_left p1)
       ++ ucomb2 dup (uc_conserved p0) (uc_segment p1) ++ ucomb2 dup (uc_segment p0) (uc_conserved p1)
       ++ ucomb2 hgt (uc_conserved p0) (uc_separate p1) ++ ucomb2 hgt (uc_separate p0) (uc_conserved p1)).
End Cell.

Section Table.
  Variables (S : stree) (c : costs) (rp : ret) (extended : bool).

  (* [_compute_uspfs_table]: the object tree and its annotation are walked together *)
  Fixpoint uspfs_table (o : otree) (u : utree) : utt :=
    match o, u with
    | ONode a b, UNode l _ ua ub =>
        let ta := uspfs_table a ua in let tb := uspfs_table b ub in
        let la := subset l (u_lca ua) in let lb := subset l (u_lca ub) in
        let species := if extended then snodes S else [root (lca_rec o)] in
        UTNode (flat_map (fun s => flat_map (fun kind =>
                  let e := ucell S c rp ta tb la lb s kind in
                  if ext_is_inf (val e) then [] else [((s, kind), e)]) [false; true]) species)
               ta tb
    | OLeaf sp _, _ => UTLeaf sp
    | _, _ => UTLeaf []          (* shape mismatch: never happens for [annotate_top] *)
    end.
End Table.

(* [_decode_uspfs_table] *)
Fixpoint udecode (t : utt) (u : utree) (k : uassign) (ancestor : list fam) : list ltree :=
  let anc_syn := if snd k then set_union ancestor (u_gain u) else u_lca u in
  match t, u with
  | UTLeaf _, _ => if ext_is_inf (val (uread t k)) then [] else [LLeaf (fst k) anc_syn]
  | UTNode _ ta tb, UNode _ _ ua ub =>
      flat_map (fun lr : utag =>
        flat_map (fun a => map (fun b => LNode (fst k) anc_syn a b) (udecode tb ub (snd lr) anc_syn))
                 (udecode ta ua (fst lr) anc_syn))
        (tags (uread t k))
  | _, _ => []
  end.

(* [_uspfs] on a binary input *)
Definition uspfs_candidates (S : stree) (c : costs) (rp : ret) (extended : bool) (O : otree)
    : list (option (ext * option ltree)) :=
  let u := annotate_top O in
  let t := uspfs_table S c rp extended O u in
  flat_map (fun s =>
    map (fun lt => option_map (fun v => (v, Some lt)) (total_cost c O false lt))
        (udecode t u (s, false) (u_lca u))) (snodes S).

Fixpoint all_some {A} (l : list (option A)) : option (list A) :=
  match l with
  | [] => Some []
  | Some x :: l' => option_map (cons x) (all_some l')
  | None :: _ => None
  end.

Fixpoint ltree_eqb (a b : ltree) : bool :=
  match a, b with
  | LLeaf s x, LLeaf t y => path_eqb s t && (if list_eq_dec N.eq_dec x y then true else false)
  | LNode s x a1 a2, LNode t y b1 b2 =>
      path_eqb s t && (if list_eq_dec N.eq_dec x y then true else false) && ltree_eqb a1 b1 && ltree_eqb a2 b2
  | _, _ => false
  end.

Definition uspfs (S : stree) (c : costs) (rp : ret) (extended : bool) (O : otree) : option (entry ltree) :=
  option_map (Entry.update ltree_eqb MIN rp (default_entry MIN))
             (all_some (uspfs_candidates S c rp extended O)).
