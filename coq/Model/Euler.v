(** Model of [_euler_tour] and [LowestCommonAncestor] ([superrec2/utils/trees.py]).

    A tree is a rose tree without labels; a node is identified by its root path
    (the list of child indices from the root), which is what the harness
    converts ete3 nodes to.

    - [tour lvl p t] is [_euler_tour(node at p, lvl)]: the entry [(lvl, p)], then
      for every child its tour followed by [(lvl, p)] again.
    - [index] is [traversal_index]: the first position of a node in the tour.
    - Entries are compared as Python compares the tuples [(level, node)]: by
      level; for equal levels Python goes on to compare the nodes, which are
      identical in every comparison the structure makes (theorem
      [tuple_min_never_compares_nodes]), so [min] keeps its first argument.
    - [None] stands for a Python exception (no argument: TypeError; unknown
      node: KeyError; a failed range-minimum query). *)
From Coq Require Import List Bool Arith ZArith.
From SR Require Import Model.Rmq.
Import ListNotations.

Definition path := list nat.
Inductive rose := Node (cs : list rose).
Definition entry := (nat * path)%type.

Fixpoint path_eqb (a b : path) : bool :=
  match a, b with
  | [], [] => true
  | x :: a', y :: b' => Nat.eqb x y && path_eqb a' b'
  | _, _ => false
  end.

Fixpoint tour (lvl : nat) (p : path) (t : rose) : list entry :=
  match t with
  | Node cs =>
      (lvl, p) ::
      (fix blocks (k : nat) (cs : list rose) {struct cs} : list entry :=
         match cs with
         | [] => []
         | c :: cs' => tour (S lvl) (p ++ [k]) c ++ (lvl, p) :: blocks (S k) cs'
         end) 0 cs
  end.

Definition entry_leb (a b : entry) : bool := fst a <=? fst b.

(* [if node not in traversal_index: traversal_index[node] = i] *)
Fixpoint first_index (p : path) (l : list entry) (i : nat) : option nat :=
  match l with
  | [] => None
  | e :: l' => if path_eqb (snd e) p then Some i else first_index p l' (S i)
  end.

Record lca := { traversal : list entry; rmq : table (A := entry) }.

Definition make (t : rose) : option lca :=
  let tr := tour 0 [] t in
  match build entry_leb tr with
  | Some tb => Some {| traversal := tr; rmq := tb |}
  | None => None
  end.

Definition index (L : lca) (p : path) : option nat := first_index p (traversal L) 0.

(* [for node in nodes[1:]: start = min(start, idx); end = max(end, idx)] *)
Fixpoint span (L : lca) (start stop : nat) (ps : list path) : option (nat * nat) :=
  match ps with
  | [] => Some (start, stop)
  | p :: ps' =>
      match index L p with
      | None => None
      | Some i => span L (Nat.min start i) (Nat.max stop i) ps'
      end
  end.

Definition lca_query (L : lca) (ps : list path) : option path :=
  match ps with
  | [] => None
  | p0 :: rest =>
      match index L p0 with
      | None => None
      | Some i0 =>
          match span L i0 i0 rest with
          | None => None
          | Some (s, e) =>
              match query entry_leb (rmq L) s (e + 1) with
              | QVal r => Some (snd r)
              | _ => None
              end
          end
      end
  end.

Definition is_ancestor_of (L : lca) (a b : path) : option bool :=
  option_map (fun r => path_eqb r a) (lca_query L [a; b]).

Definition is_strict_ancestor_of (L : lca) (a b : path) : option bool :=
  option_map (fun r => path_eqb r a && negb (path_eqb a b)) (lca_query L [a; b]).

Definition is_comparable (L : lca) (a b : path) : option bool :=
  match is_ancestor_of L a b with
  | None => None
  | Some true => Some true
  | Some false => is_ancestor_of L b a
  end.

Definition level (L : lca) (p : path) : option nat :=
  match index L p with
  | None => None
  | Some i => option_map fst (nth_error (traversal L) i)
  end.

Definition distance (L : lca) (a b : path) : option Z :=
  match level L a, level L b, lca_query L [a; b] with
  | Some la, Some lb, Some c =>
      match level L c with
      | Some lc => Some (Z.of_nat la + Z.of_nat lb - 2 * Z.of_nat lc)%Z
      | None => None
      end
  | _, _, _ => None
  end.
