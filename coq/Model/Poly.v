(** Model of the outer loop of [_spfs] ([compute/super_reconciliation.py]) and [_uspfs]
    ([compute/unordered_super_reconciliation.py]) on an input whose trees may have
    polytomies:

      results = Entry(MergePolicy.MIN, policy)
      for srec_input_bin in srec_input.binarize():
          ... results.update( candidates of srec_input_bin ) ...
      return results.infos()

    ONE entry is created before the loop and receives the candidates of every binary
    refinement pair (object refinement x species refinement) that
    [ReconciliationInput.binarize] ([Model/Binarize.v]: [input_binarize]) yields.

    A returned output refers to its own binary input ([output.input]); two outputs that
    belong to different refinement pairs are never equal (their trees are different
    objects).  The model records this as the *index* of the pair in the list produced by
    [input_binarize]: a tag of the outer entry is [(i, labelled tree)].

    Input data.  Nodes of the rose trees carry a label ([Binarize.lab], [Some n] = the
    name/colour bundle number [n]).  Species are referred to by name: the table
    [leafdata] gives, for the name of an object leaf, the name of its species and its
    synteny ([leaf_object_species], [leaf_syntenies], both re-read by name through
    [from_dict] for every refinement pair).  [tree & name] is the first node bearing the
    name; the model searches in pre-order, which is immaterial when names are distinct.

    Only the extended variants are run on polytomous inputs here ([extended = true] in
    [spfs_poly] / [uspfs_poly]); the family-level functions keep the flag so that a
    one-element family is literally the binary solver.

    No proofs in this file. *)
From Coq Require Import List Bool Arith ZArith NArith.
From SR Require Import Base.PathB Base.Ext Model.Entry Model.Recon Model.Spfs Model.Uspfs
  Model.Binarize.
Import ListNotations.

(** * from the binary trees of [Model/Binarize.v] to the solver inputs *)

(* species tree: the shape *)
Fixpoint bt_stree (b : bt) : stree :=
  match b with
  | BLeaf _ => SLeaf
  | BNode _ l r => SNode (bt_stree l) (bt_stree r)
  end.

(* [tree & name]: the path of the first node (pre-order) whose label is [Some n] *)
Fixpoint find_name (n : nat) (b : bt) : option path :=
  match b with
  | BLeaf lb => if lab_eqb lb (Some n) then Some [] else None
  | BNode lb l r =>
      if lab_eqb lb (Some n) then Some []
      else match find_name n l with
           | Some p => Some (false :: p)
           | None => option_map (cons true) (find_name n r)
           end
  end.

(* object leaf name -> (species name, synteny) *)
Definition leafdata := list (nat * (nat * list fam)).

Fixpoint ld_lookup (ld : leafdata) (i : nat) : option (nat * list fam) :=
  match ld with
  | [] => None
  | (j, d) :: ld' => if Nat.eqb i j then Some d else ld_lookup ld' i
  end.

(* object tree: every leaf takes the path of its species in the given binary species
   tree and its synteny; [None] = the lookup raises (unnamed leaf, no data, unknown species) *)
Fixpoint bt_otree (ld : leafdata) (sb : bt) (ob : bt) : option otree :=
  match ob with
  | BLeaf None => None
  | BLeaf (Some i) =>
      match ld_lookup ld i with
      | Some (spn, syn) =>
          match find_name spn sb with
          | Some p => Some (OLeaf p syn)
          | None => None
          end
      | None => None
      end
  | BNode _ l r =>
      match bt_otree ld sb l, bt_otree ld sb r with
      | Some a, Some b => Some (ONode a b)
      | _, _ => None
      end
  end.

(* one refinement pair (object refinement, species refinement) as a binary solver input *)
Definition pair_input (ld : leafdata) (p : bt * bt) : option (stree * otree) :=
  option_map (pair (bt_stree (snd p))) (bt_otree ld (snd p) (fst p)).

(* the binary inputs the loop runs over, in the order of [ReconciliationInput.binarize] *)
Definition poly_inputs (ld : leafdata) (o s : rose) : list (option (stree * otree)) :=
  map (pair_input ld) (input_binarize o s).

(** * the outer loop *)

(* a tag of the outer entry: index of the refinement pair, labelled tree *)
Definition ptag := (nat * ltree)%type.
Definition ptag_eqb (a b : ptag) : bool :=
  Nat.eqb (fst a) (fst b) && Spfs.ltree_eqb (snd a) (snd b).

(* a candidate of the [i]-th refinement pair, as offered to the outer entry *)
Definition retag (i : nat) (c : ext * option ltree) : ext * option ptag :=
  (fst c, option_map (pair i) (snd c)).

Section Loop.
  Context {P : Type}.
  (* the candidates produced for one binary input; [None] = the step raised *)
  Variable solve : P -> list (option (ext * option ltree)).
  Variable rp : ret.

  (* the loop body run on the inputs number [i], [i+1], ...; [None] = some step raised *)
  Fixpoint poly_loop (i : nat) (inputs : list P) (results : entry ptag) : option (entry ptag) :=
    match inputs with
    | [] => Some results
    | p :: rest =>
        match Spfs.all_some (solve p) with
        | Some l => poly_loop (S i) rest (Entry.update ptag_eqb MIN rp results (map (retag i) l))
        | None => None
        end
    end.

  Definition poly_run (inputs : list P) : option (entry ptag) :=
    poly_loop 0 inputs (default_entry MIN).
End Loop.

(* the candidates of one binary input: the ordered solver on its own root orders
   ([_make_prec_graph] + [toposort_all], [None] when they raise) ... *)
Definition spfs_solve (c : costs) (rp : ret) (extended : bool) (p : stree * otree)
    : list (option (ext * option ltree)) :=
  match Spfs.root_orders (snd p) with
  | Some orders => spfs_candidates (fst p) c rp extended orders (snd p)
  | None => [None]
  end.

(* ... and the unordered solver *)
Definition uspfs_solve (c : costs) (rp : ret) (extended : bool) (p : stree * otree)
    : list (option (ext * option ltree)) :=
  uspfs_candidates (fst p) c rp extended (snd p).

(* [_spfs] / [_uspfs] on a family of binary inputs *)
Definition spfs_family (c : costs) (rp : ret) (extended : bool) (inputs : list (stree * otree))
    : option (entry ptag) :=
  poly_run (spfs_solve c rp extended) rp inputs.

Definition uspfs_family (c : costs) (rp : ret) (extended : bool) (inputs : list (stree * otree))
    : option (entry ptag) :=
  poly_run (uspfs_solve c rp extended) rp inputs.

(* [sreconcile_extended_spfs] / [usreconcile_extended_uspfs] on trees of any arity *)
Definition spfs_poly (c : costs) (rp : ret) (ld : leafdata) (o s : rose) : option (entry ptag) :=
  match Spfs.all_some (poly_inputs ld o s) with
  | Some inputs => spfs_family c rp true inputs
  | None => None
  end.

Definition uspfs_poly (c : costs) (rp : ret) (ld : leafdata) (o s : rose) : option (entry ptag) :=
  match Spfs.all_some (poly_inputs ld o s) with
  | Some inputs => uspfs_family c rp true inputs
  | None => None
  end.

(* the refinement pair a returned tag refers to *)
Definition tag_pair (o s : rose) (t : ptag) : option (bt * bt) :=
  nth_error (input_binarize o s) (fst t).
