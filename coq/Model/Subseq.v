(** Model of [superrec2/utils/subsequences.py].

    - [seg_dist] mirrors [subseq_segment_dist]: one loop iteration per binary
      digit of [parent] (= [range(parent.bit_length())]), the child mask being
      halved alongside; state [(in_segm, dist)]; [None] = early [return -1].
    - [mask_from_subseq] / [subseq_from_mask] mirror the two conversions; bit 0
      of a mask is the first element of the parent sequence. *)
From Coq Require Import List Bool Arith ZArith NArith.
Import ListNotations.
Local Open Scope Z_scope.

(* one iteration on a position where the parent has a bit; [f] = child has it *)
Definition step (st : bool * Z) (f : bool) : bool * Z :=
  let '(s, d) := st in
  if f then (false, d) else if s then (true, d) else (true, d + 1).

Fixpoint seg_loop (p : positive) (c : N) (st : bool * Z) : option (bool * Z) :=
  let bc := N.odd c in
  match p with
  | xH => Some (step st bc)
  | xO q => if bc then None else seg_loop q (N.div2 c) st
  | xI q => seg_loop q (N.div2 c) (step st bc)
  end.

Definition seg_dist (child parent : N) (edges : bool) : Z :=
  if (N.size parent <? N.size child)%N then -1 else
  match parent with
  | N0 => if edges then 0 else -1
  | Npos p =>
      match seg_loop p child (negb edges, 0) with
      | None => -1
      | Some (s, d) => if s && negb edges then d - 1 else d
      end
  end.

Definition subseq_complete {A} (l : list A) : N := N.ones (N.of_nat (length l)).

Section Masks.
  Context {A : Type} (eqb : A -> A -> bool).

  (* [for parent_i, parent_v in enumerate(parent)] with the greedy pointer
     [child_i]; the mask is produced least-significant bit first *)
  Fixpoint mask_from_subseq (child parent : list A) {struct parent} : N :=
    match parent with
    | [] => 0%N
    | pv :: ps =>
        match child with
        | [] => 0%N
        | cv :: cs =>
            if eqb cv pv then N.succ_double (mask_from_subseq cs ps)
            else N.double (mask_from_subseq child ps)
        end
    end.

  (* [while child: if child & 1: append parent[parent_i]]; [None] = IndexError *)
  Fixpoint from_pos (m : positive) (parent : list A) : option (list A) :=
    match parent with
    | [] => None
    | pv :: ps =>
        match m with
        | xH => Some [pv]
        | xO q => from_pos q ps
        | xI q => option_map (cons pv) (from_pos q ps)
        end
    end.

  Definition subseq_from_mask (m : N) (parent : list A) : option (list A) :=
    match m with
    | N0 => Some []
    | Npos p => from_pos p parent
    end.
End Masks.
