(** Model of the reconciliation data and of the cost evaluator
    ([superrec2/model/reconciliation.py]: [node_event], [_cost_rec],
    [_ordered_labeling_cost], [_unordered_labeling_cost]).

    Species-tree nodes are root paths in a binary tree ([false] = first child,
    [true] = second child); ancestor = prefix, LCA = longest common prefix,
    level = length (that the implementation's Euler-tour machinery computes these
    notions is property C17).  Object trees are structural. *)
From Coq Require Import List Bool Arith ZArith NArith.
From SR Require Import Base.PathB Base.Ext Model.Subseq.
Import ListNotations.
Local Open Scope Z_scope.

Notation anc := is_prefix.
Definition sanc (a b : path) : bool := anc a b && negb (path_eqb a b).
Definition comparable (a b : path) : bool := anc a b || anc b a.
Definition len (p : path) : Z := Z.of_nat (length p).
Definition dist (a b : path) : Z := len a + len b - 2 * len (lcp a b).

(** * Species trees *)
Inductive stree := SLeaf | SNode (l r : stree).

Fixpoint snodes (S : stree) : list path :=      (* pre-order *)
  match S with
  | SLeaf => [[]]
  | SNode l r => [] :: map (cons false) (snodes l) ++ map (cons true) (snodes r)
  end.
Fixpoint valid_sp (S : stree) (p : path) : bool :=
  match p, S with
  | [], _ => true
  | false :: p', SNode l _ => valid_sp l p'
  | true :: p', SNode _ r => valid_sp r p'
  | _ :: _, SLeaf => false
  end.
Fixpoint sleaf (S : stree) (p : path) : bool :=   (* [p] addresses a leaf *)
  match p, S with
  | [], SLeaf => true
  | false :: p', SNode l _ => sleaf l p'
  | true :: p', SNode _ r => sleaf r p'
  | _, _ => false
  end.

(** * Object trees, reconciliations *)
Definition fam := N.
(* leaf: its species and its synteny (empty for plain reconciliation) *)
Inductive otree := OLeaf (sp : path) (syn : list fam) | ONode (a b : otree).
(* a species at every node *)
Inductive rtree := RLeaf (s : path) | RNode (s : path) (a b : rtree).
Definition root (r : rtree) : path := match r with RLeaf s => s | RNode s _ _ => s end.
(* a species and a synteny at every node *)
Inductive ltree := LLeaf (s : path) (syn : list fam) | LNode (s : path) (syn : list fam) (a b : ltree).
Definition lroot (t : ltree) : path := match t with LLeaf s _ => s | LNode s _ _ _ => s end.
Definition lsyn (t : ltree) : list fam := match t with LLeaf _ y => y | LNode _ y _ _ => y end.
Fixpoint forget (t : ltree) : rtree :=
  match t with LLeaf s _ => RLeaf s | LNode s _ a b => RNode s (forget a) (forget b) end.

Record costs := { c_spe : Z; c_dup : Z; c_hgt : ext; c_floss : Z; c_sloss : Z }.

(** * [node_event] for an internal node mapped to [s] with children at [l], [r].
    [TrL]: transfer with the left child conserved (below [s]), [TrR]: right conserved. *)
Inductive ev := Spe | Dup | TrL | TrR | Inv.
Definition event (s l r : path) : ev :=
  if sanc l s || sanc r s then Inv
  else if anc s l && anc s r then
    (if path_eqb s (lcp l r) && negb (comparable l r) then Spe else Dup)
  else if anc s l then TrL else if anc s r then TrR else Inv.

(** charge of one internal node in [_cost_rec] (children costs excluded) *)
Definition ecost (c : costs) (s l r : path) : ext :=
  match event s l r with
  | Spe => Fin (c_spe c + c_floss c * (dist s l + dist s r - 2))
  | Dup => Fin (c_dup c + c_floss c * (dist s l + dist s r))
  | TrL => ext_add (c_hgt c) (Fin (c_floss c * dist s l))
  | TrR => ext_add (c_hgt c) (Fin (c_floss c * dist s r))
  | Inv => PInf
  end.

(** [_cost_rec]; a leaf is LEAF when mapped to its given species, INVALID otherwise;
    a shape mismatch (not produced by the code) is INVALID too *)
Fixpoint cost (c : costs) (O : otree) (r : rtree) : ext :=
  match O, r with
  | OLeaf sp _, RLeaf s => if path_eqb s sp then Fin 0 else PInf
  | ONode oa ob, RNode s a b =>
      match event s (root a) (root b) with
      | Inv => PInf
      | _ => ext_add (ecost c s (root a) (root b)) (ext_add (cost c oa a) (cost c ob b))
      end
  | _, _ => PInf
  end.

(** * Every valid reconciliation, enumerated independently of the package *)
Fixpoint all_recs (S : stree) (O : otree) : list rtree :=
  match O with
  | OLeaf sp _ => [RLeaf sp]
  | ONode a b =>
      flat_map (fun ra => flat_map (fun rb =>
        flat_map (fun s => match event s (root ra) (root rb) with Inv => [] | _ => [RNode s ra rb] end)
                 (snodes S)) (all_recs S b)) (all_recs S a)
  end.

(** * Labelling costs *)

(* [_ordered_labeling_cost]: masks with respect to the root synteny *)
Definition fam_eqb : fam -> fam -> bool := N.eqb.
Definition mask_of (root_syn syn : list fam) : N := mask_from_subseq fam_eqb syn root_syn.

Definition olab_node (e : ev) (sub l r : N) : option Z :=
  let sd := seg_dist in
  match e with
  | Spe => Some (sd l sub true + sd r sub true)
  | Dup => Some (Z.min (sd l sub true + sd r sub false) (sd l sub false + sd r sub true))
  | TrL => Some (sd l sub true + sd r sub false)     (* keep_left: left conserved *)
  | TrR => Some (sd l sub false + sd r sub true)
  | Inv => None                                     (* the assertion fails *)
  end.

(* pre-order traversal; the mask of a node is computed from its own synteny against the
   ROOT synteny (as the code does), the root's mask being the complete one *)
Fixpoint olab_rec (root_syn : list fam) (mask : N) (t : ltree) : option Z :=
  match t with
  | LLeaf _ _ => Some 0
  | LNode s _ a b =>
      let ml := mask_of root_syn (lsyn a) in
      let mr := mask_of root_syn (lsyn b) in
      match olab_node (event s (lroot a) (lroot b)) mask ml mr,
            olab_rec root_syn ml a, olab_rec root_syn mr b with
      | Some k, Some ka, Some kb => Some (k + ka + kb)
      | _, _, _ => None
      end
  end.
Definition ordered_labeling_cost (c : costs) (t : ltree) : option Z :=
  option_map (Z.mul (c_sloss c)) (olab_rec (lsyn t) (subseq_complete (lsyn t)) t).

(* [_unordered_labeling_cost] *)
Definition subset (a b : list fam) : bool := forallb (fun x => existsb (fam_eqb x) b) a.
Fixpoint ulab_rec (t : ltree) : option Z :=
  match t with
  | LLeaf _ _ => Some 0
  | LNode s y a b =>
      let lc := if subset y (lsyn a) then 0 else 1 in
      let rc := if subset y (lsyn b) then 0 else 1 in
      let k := match event s (lroot a) (lroot b) with
               | Spe => Some (lc + rc)
               | Dup => Some (Z.min lc rc)
               | TrL => Some lc
               | TrR => Some rc
               | Inv => None
               end in
      match k, ulab_rec a, ulab_rec b with
      | Some k, Some ka, Some kb => Some (k + ka + kb)
      | _, _, _ => None
      end
  end.
Definition unordered_labeling_cost (c : costs) (t : ltree) : option Z :=
  option_map (Z.mul (c_sloss c)) (ulab_rec t).

(** [labeling_cost] and [SuperReconciliationOutput.cost]; [None] = the assertion on
    the event kind fails (an invalid node) *)
Definition labeling_cost (c : costs) (ordered : bool) (t : ltree) : option Z :=
  if ordered then ordered_labeling_cost c t else unordered_labeling_cost c t.
Definition total_cost (c : costs) (O : otree) (ordered : bool) (t : ltree) : option ext :=
  option_map (fun k => ext_add (cost c O (forget t)) (Fin k)) (labeling_cost c ordered t).
