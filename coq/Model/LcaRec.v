(** Model of [reconcile_lca] ([superrec2/compute/reconciliation.py]): post-order,
    a leaf goes to its given species, an internal node to the LCA of its children. *)
From Coq Require Import List Bool.
From SR Require Import Base.PathB Model.Recon.
Import ListNotations.

Fixpoint lca_rec (o : otree) : rtree :=
  match o with
  | OLeaf sp _ => RLeaf sp
  | ONode a b =>
      let ra := lca_rec a in let rb := lca_rec b in
      RNode (lcp (root ra) (root rb)) ra rb
  end.
