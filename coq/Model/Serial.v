(** Model of the dictionary layer of [superrec2/model/reconciliation.py]
    ([to_dict] / [_from_dict] / [from_dict] of the four classes),
    [model/tree_mapping.py] ([serialize_tree_mapping], [parse_tree_mapping]) and
    [model/synteny.py] ([sort_synteny], [serialize_synteny_mapping],
    [parse_synteny_mapping]).

    - A tree node is addressed by its root path (list of child indexes); a Python
      mapping keyed by node objects is the list of its items in dictionary
      (insertion) order, [list (path * value)].
    - A Python [dict] with string keys is the list of its items in insertion
      order; [dset] is [d[k] = v] (an existing key keeps its position and takes the
      new value), [dict_of] a dict comprehension.
    - [find_name t n] is [t & n]: the first node in ete3's default traversal
      (level order) whose name is [n]; [None] = [TreeError("Node not found")].
    - Functions return [None] where Python raises ([TreeError], [NewickError],
      [KeyError] for a missing "leaf_syntenies" key, [AttributeError] for an
      unknown event name) and also when a path of the *model input* addresses no
      node (impossible in Python, where mapping keys are node objects).
    - ete3's Newick writer/reader are the section variables [write] / [read];
      they are instantiated with [Newick.print_tree] / [Newick.parse_tree].
    - [json.dumps] / [json.loads] are the identity on these dictionaries (ints,
      float infinity, strings, lists, booleans, string-keyed dicts in order).
    - Keys that [to_dict] always writes ("leaf_object_species", "costs") are always
      present in the model's dictionaries: the fall-backs of [_from_dict] for
      hand-written input files ([get_species_mapping], [get_default_cost]) are not
      part of this model; the ["ordered"] default ([data.get("ordered", True)]) is. *)
From Coq Require Import List Bool Arith ZArith NArith String Ascii.
From SR Require Import Base.Ext Model.Newick.
Import ListNotations.

Definition path := list nat.

Fixpoint subtree (t : tree) (p : path) : option tree :=
  match p with
  | [] => Some t
  | i :: p' =>
      match nth_error (t_kids t) i with
      | Some k => subtree k p'
      | None => None
      end
  end.
Definition valid (t : tree) (p : path) : bool :=
  match subtree t p with Some _ => true | None => false end.
Definition name_at (t : tree) (p : path) : option string := option_map t_name (subtree t p).

(* all names, pre-order *)
Fixpoint names (t : tree) : list string :=
  match t with Node n _ ks => n :: flat_map names ks end.

(* all root paths, pre-order (= lexicographic order, a prefix first) *)
Fixpoint preorder (t : tree) : list path :=
  match t with
  | Node _ _ ks =>
      [] :: (fix go (i : nat) (l : list tree) : list path :=
               match l with
               | [] => []
               | k :: l' => map (cons i) (preorder k) ++ go (S i) l'
               end) 0 ks
  end.
Fixpoint height (t : tree) : nat :=
  match t with
  | Node _ _ ks =>
      (fix go (l : list tree) : nat :=
         match l with [] => 0 | k :: l' => Nat.max (S (height k)) (go l') end) ks
  end.
(* ete3 [traverse()] (default "levelorder"): by depth, and within one depth in
   pre-order (a FIFO queue visits the children of earlier nodes first) *)
Definition levelorder (t : tree) : list path :=
  flat_map (fun d => filter (fun p => Nat.eqb (List.length p) d) (preorder t))
           (seq 0 (S (height t))).

(* [tree & name] *)
Definition find_name (t : tree) (n : string) : option path :=
  find (fun p => match name_at t p with Some m => String.eqb m n | None => false end)
       (levelorder t).

(** * Python dicts with string keys *)
Definition dict (V : Type) := list (string * V).
Fixpoint dset {V} (k : string) (v : V) (d : dict V) : dict V :=
  match d with
  | [] => [(k, v)]
  | (k', v') :: d' => if String.eqb k k' then (k', v) :: d' else (k', v') :: dset k v d'
  end.
Definition dict_of {V} (items : list (string * V)) : dict V :=
  fold_left (fun d kv => dset (fst kv) (snd kv) d) items [].

Fixpoint mapM {A B} (f : A -> option B) (l : list A) : option (list B) :=
  match l with
  | [] => Some []
  | x :: l' =>
      match f x, mapM f l' with
      | Some y, Some ys => Some (y :: ys)
      | _, _ => None
      end
  end.

(** * tree_mapping.py *)
Definition treemap := list (path * path).

(* {from_node.name: to_node.name for from_node, to_node in mapping.items()} *)
Definition serialize_tree_mapping (O S : tree) (m : treemap) : option (dict string) :=
  option_map dict_of
    (mapM (fun pq => match name_at O (fst pq), name_at S (snd pq) with
                     | Some a, Some b => Some (a, b)
                     | _, _ => None
                     end) m).

(* {from_tree & k: to_tree & v for k, v in data.items()}; distinct keys [k] are
   names of distinct nodes, so no two items of the result share a key *)
Definition parse_tree_mapping (O S : tree) (d : dict string) : option treemap :=
  mapM (fun kv => match find_name O (fst kv), find_name S (snd kv) with
                  | Some p, Some q => Some (p, q)
                  | _, _ => None
                  end) d.

(** * synteny.py *)
(* [sort_synteny]: key = DIGITS.split(obj) with the digit groups turned into ints,
   i.e. text, number, text, number, ..., text *)
Inductive chunk := Txt (s : list ascii) | Num (n : N).
Definition digit_val (c : ascii) : N := N.of_nat (nat_of_ascii c - 48).
(* [txt]: text read so far, reversed; [num]: digit group being read *)
Fixpoint split_key (s : list ascii) (txt : list ascii) (num : option N) : list chunk :=
  match s with
  | [] => match num with None => [Txt (rev txt)] | Some n => [Num n; Txt []] end
  | c :: s' =>
      if is_digit c then
        match num with
        | None => Txt (rev txt) :: split_key s' [] (Some (digit_val c))
        | Some n => split_key s' [] (Some (10 * n + digit_val c)%N)
        end
      else
        match num with
        | None => split_key s' (c :: txt) None
        | Some n => Num n :: split_key s' [c] None
        end
  end.
Definition sort_key (s : string) : list chunk := split_key (list_ascii_of_string s) [] None.

Fixpoint chars_cmp (a b : list ascii) : comparison :=
  match a, b with
  | [], [] => Eq
  | [], _ :: _ => Lt
  | _ :: _, [] => Gt
  | x :: a', y :: b' => match Ascii.compare x y with Eq => chars_cmp a' b' | c => c end
  end.
(* positions of a key alternate text / number, so only like chunks meet;
   the mixed cases (a [TypeError] in Python) cannot arise *)
Definition chunk_cmp (a b : chunk) : comparison :=
  match a, b with
  | Txt x, Txt y => chars_cmp x y
  | Num m, Num n => N.compare m n
  | Txt _, Num _ => Lt
  | Num _, Txt _ => Gt
  end.
Fixpoint key_cmp (a b : list chunk) : comparison :=
  match a, b with
  | [], [] => Eq
  | [], _ :: _ => Lt
  | _ :: _, [] => Gt
  | x :: a', y :: b' => match chunk_cmp x y with Eq => key_cmp a' b' | c => c end
  end.
Definition key_lt (a b : string) : bool :=
  match key_cmp (sort_key a) (sort_key b) with Lt => true | _ => false end.

(* [sorted] is stable: an element stays before later elements of equal key *)
Fixpoint insert_syn (x : string) (l : list string) : list string :=
  match l with
  | [] => [x]
  | y :: l' => if key_lt y x then y :: insert_syn x l' else x :: l
  end.
Definition sort_synteny (l : list string) : list string := fold_right insert_syn [] l.

(* a synteny value: a sequence (list, tuple, str), or a [set] given in its
   iteration order *)
Inductive syn := SList (l : list string) | SSet (l : list string).
Definition synmap := list (path * syn).

(* sort_synteny(synteny) if isinstance(synteny, set) else list(synteny) *)
Definition ser_syn (s : syn) : list string :=
  match s with SList l => l | SSet l => sort_synteny l end.

Definition serialize_synteny_mapping (T : tree) (m : synmap) : option (dict (list string)) :=
  option_map dict_of
    (mapM (fun ps => option_map (fun a => (a, ser_syn (snd ps))) (name_at T (fst ps))) m).

(* {tree & node: synteny for node, synteny in data.items()} *)
Definition parse_synteny_mapping (T : tree) (d : dict (list string)) : option synmap :=
  mapM (fun kv => option_map (fun p => (p, SList (snd kv))) (find_name T (fst kv))) d.

(** * Event names and costs *)
Inductive ev :=
  | LEAF | INVALID | SPECIATION | DUPLICATION | HORIZONTAL_TRANSFER   (* NodeEvent *)
  | FULL_LOSS | SEGMENTAL_LOSS.                                       (* EdgeEvent *)
Definition ev_name (e : ev) : string :=
  match e with
  | LEAF => "LEAF" | INVALID => "INVALID" | SPECIATION => "SPECIATION"
  | DUPLICATION => "DUPLICATION" | HORIZONTAL_TRANSFER => "HORIZONTAL_TRANSFER"
  | FULL_LOSS => "FULL_LOSS" | SEGMENTAL_LOSS => "SEGMENTAL_LOSS"
  end.
(* getattr(NodeEvent, name) if hasattr(NodeEvent, name) else getattr(EdgeEvent, name) *)
Definition ev_of_name (s : string) : option ev :=
  find (fun e => String.eqb (ev_name e) s)
       [LEAF; INVALID; SPECIATION; DUPLICATION; HORIZONTAL_TRANSFER; FULL_LOSS; SEGMENTAL_LOSS].

Definition costmap := list (ev * ext).
Definition costs_to_dict (c : costmap) : dict ext :=
  dict_of (map (fun ev => (ev_name (fst ev), snd ev)) c).
Definition costs_from_dict (d : dict ext) : option costmap :=
  mapM (fun kv => option_map (fun e => (e, snd kv)) (ev_of_name (fst kv))) d.

(** * The four classes and their dictionaries *)
Record rinput := mkRI { otree : tree; stree : tree; leafmap : treemap; costs : costmap }.
Record sinput := mkSI { s_base : rinput; leafsyn : synmap }.
(* the object held in the [input] field of an output: either class *)
Inductive any_input := Plain (x : rinput) | Super (x : sinput).
Definition base_of (i : any_input) : rinput :=
  match i with Plain x => x | Super x => s_base x end.
Record routput := mkRO { r_in : any_input; omap : treemap }.
Record soutput := mkSO { s_out : routput; syns : synmap; ordered : bool }.

Record drinput := mkDRI { d_otree : string; d_stree : string;
                          d_leafmap : dict string; d_costs : dict ext }.
(* [d_leafsyn = None]: no "leaf_syntenies" key *)
Record dinput := mkDI { d_base : drinput; d_leafsyn : option (dict (list string)) }.
Record droutput := mkDRO { d_in : dinput; d_omap : dict string }.
(* [d_ordered = None]: no "ordered" key *)
Record dsoutput := mkDSO { d_out : droutput; d_syns : dict (list string); d_ordered : option bool }.

Section Serial.
  Variable write : tree -> string.          (* t.write(format=8, format_root_node=True, features=["color"]) *)
  Variable read : string -> option tree.    (* Tree(s, format=1) *)

  (* ReconciliationInput.to_dict *)
  Definition rinput_to_dict (x : rinput) : option drinput :=
    match serialize_tree_mapping (otree x) (stree x) (leafmap x) with
    | Some lm => Some (mkDRI (write (otree x)) (write (stree x)) lm (costs_to_dict (costs x)))
    | None => None
    end.

  (* SuperReconciliationInput.to_dict *)
  Definition sinput_to_dict (x : sinput) : option dinput :=
    match rinput_to_dict (s_base x), serialize_synteny_mapping (otree (s_base x)) (leafsyn x) with
    | Some b, Some ls => Some (mkDI b (Some ls))
    | _, _ => None
    end.

  (* self.input.to_dict(): dispatched on the class of the object *)
  Definition any_input_to_dict (i : any_input) : option dinput :=
    match i with
    | Plain x => option_map (fun b => mkDI b None) (rinput_to_dict x)
    | Super x => sinput_to_dict x
    end.

  (* ReconciliationInput.from_dict (ignores a "leaf_syntenies" key) *)
  Definition rinput_from_dict (d : dinput) : option rinput :=
    match read (d_otree (d_base d)), read (d_stree (d_base d)) with
    | Some ot, Some st =>
        match parse_tree_mapping ot st (d_leafmap (d_base d)), costs_from_dict (d_costs (d_base d)) with
        | Some lm, Some cs => Some (mkRI ot st lm cs)
        | _, _ => None
        end
    | _, _ => None
    end.

  (* SuperReconciliationInput.from_dict *)
  Definition sinput_from_dict (d : dinput) : option sinput :=
    match rinput_from_dict d, d_leafsyn d with
    | Some b, Some ls =>
        match parse_synteny_mapping (otree b) ls with
        | Some m => Some (mkSI b m)
        | None => None
        end
    | _, _ => None
    end.

  (* ReconciliationOutput.to_dict *)
  Definition routput_to_dict (x : routput) : option droutput :=
    let b := base_of (r_in x) in
    match any_input_to_dict (r_in x), serialize_tree_mapping (otree b) (stree b) (omap x) with
    | Some di, Some m => Some (mkDRO di m)
    | _, _ => None
    end.

  (* ReconciliationOutput.from_dict: the nested input is always re-read with
     ReconciliationInput.from_dict, whatever its original class *)
  Definition routput_from_dict (d : droutput) : option routput :=
    match rinput_from_dict (d_in d) with
    | Some b =>
        match parse_tree_mapping (otree b) (stree b) (d_omap d) with
        | Some m => Some (mkRO (Plain b) m)
        | None => None
        end
    | None => None
    end.

  (* SuperReconciliationOutput.to_dict *)
  Definition soutput_to_dict (x : soutput) : option dsoutput :=
    match routput_to_dict (s_out x),
          serialize_synteny_mapping (otree (base_of (r_in (s_out x)))) (syns x) with
    | Some o, Some sy => Some (mkDSO o sy (Some (ordered x)))
    | _, _ => None
    end.

  (* SuperReconciliationOutput.from_dict *)
  Definition soutput_from_dict (d : dsoutput) : option soutput :=
    match routput_from_dict (d_out d) with
    | Some o =>
        match parse_synteny_mapping (otree (base_of (r_in o))) (d_syns d) with
        | Some sy => Some (mkSO o sy (match d_ordered d with Some b => b | None => true end))
        | None => None
        end
    | None => None
    end.
End Serial.
