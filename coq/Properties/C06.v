(** C06 — the cost evaluator implements the documented event model.
    Statements only; proofs are [exact <lemma>]. *)
From Coq Require Import List Bool ZArith NArith.
From SR Require Import Base.PathB Base.Ext Model.Subseq Model.Recon
  Proofs.SubseqProofs Proofs.PathFacts Proofs.ReconProofs Proofs.LabelCostProofs.
Import ListNotations.
Local Open Scope Z_scope.

(* the event of a node is exactly one of speciation / duplication / transfer / invalid,
   with its geometric meaning on root paths *)
Theorem C06_event_exhaustive : forall s l r,
  match event s l r with
  | Spe => anc s l = true /\ anc s r = true /\ s = lcp l r /\ anc l r = false /\ anc r l = false
  | Dup => anc s l = true /\ anc s r = true /\ (s <> lcp l r \/ comparable l r = true)
  | TrL => anc s l = true /\ anc s r = false /\ anc r s = false
  | TrR => anc s r = true /\ anc s l = false /\ anc l s = false
  | Inv => sanc l s = true \/ sanc r s = true \/ (anc s l = false /\ anc s r = false)
  end.
Proof. exact event_exhaustive. Qed.
Print Assumptions C06_event_exhaustive.

(* reconciliation cost = unit cost per speciation, duplication and transfer plus one full
   loss per species of the explicit loss lists ([all_losses]: for a vertical branch from s
   to t the species s, ..., strictly above t; for a speciation branch the strict
   intermediates only; nothing for a transferred branch) *)
Theorem C06_cost_recount : forall c S O r,
  valid_rec S O r ->
  cost c O r =
  ext_add (Fin (c_spe c * count_ev Spe (events r) + c_dup c * count_ev Dup (events r)
                + c_floss c * Z.of_nat (length (all_losses r))))
          (hgt_times (c_hgt c) (n_transfers r)).
Proof. exact cost_recount. Qed.
Print Assumptions C06_cost_recount.

(* the losses of a branch are species on that branch: at or below s, strictly above t *)
Theorem C06_losses_on_branch : forall s d p,
  In p (chain s d) -> anc s p = true /\ sanc p (s ++ d) = true.
Proof. exact chain_on_branch. Qed.
Print Assumptions C06_losses_on_branch.

Theorem C06_cost_invalid_inf : forall c oa ob s a b,
  event s (root a) (root b) = Inv -> cost c (ONode oa ob) (RNode s a b) = PInf.
Proof. exact cost_invalid_inf. Qed.
Print Assumptions C06_cost_invalid_inf.

(* segment distance between masks taken against a duplicate-free root order = number of
   lost runs of parent families (ends ignored when [edges = false]) *)
Theorem C06_seg_dist_lost_runs : forall rs P C edges,
  NoDup rs -> Subseq P rs -> Subseq C P -> C <> [] ->
  seg_dist (mask_of rs C) (mask_of rs P) edges = lost_runs edges C P.
Proof. exact seg_dist_lost_runs. Qed.
Print Assumptions C06_seg_dist_lost_runs.

(* ordered labelling cost: one segmental loss per lost run; at a duplication the free partial
   copy is chosen optimally (min), at a transfer it is the transferred child *)
Theorem C06_ordered_labeling_recount : forall c t,
  NoDup (lsyn t) -> well_ordered t ->
  ordered_labeling_cost c t = Some (c_sloss c * olab_spec t).
Proof. exact ordered_labeling_recount. Qed.
Print Assumptions C06_ordered_labeling_recount.

(* unordered labelling cost: one segmental loss per charged edge on which some parent family
   is missing *)
Theorem C06_unordered_labeling_recount : forall c t,
  events_valid t -> unordered_labeling_cost c t = Some (c_sloss c * ulab_spec t).
Proof. exact unordered_labeling_recount. Qed.
Print Assumptions C06_unordered_labeling_recount.

Theorem C06_lossy_iff : forall parent child,
  lossy parent child = 1 <-> exists f, In f parent /\ ~ In f child.
Proof. exact lossy_iff. Qed.
Print Assumptions C06_lossy_iff.

(* non-vacuity *)
Example C06_example :
  let S := SNode (SNode SLeaf SLeaf) SLeaf in
  let O := ONode (ONode (OLeaf [false; false] [1;2]%N) (OLeaf [false; true] [2;3]%N)) (OLeaf [true] [1;3]%N) in
  let t := LNode [] [1;2;3]%N (LNode [false] [1;2;3]%N (LLeaf [false; false] [1;2]%N) (LLeaf [false; true] [2;3]%N))
                 (LLeaf [true] [1;3]%N) in
  let c := {| c_spe := 0; c_dup := 1; c_hgt := Fin 1; c_floss := 1; c_sloss := 1 |} in
  well_ordered t /\ NoDup (lsyn t) /\ total_cost c O true t = Some (Fin 3).
Proof.
  cbv zeta. split; [|split].
  - cbn [well_ordered lsyn lroot]. repeat split; try discriminate; repeat constructor.
  - repeat constructor; simpl; intuition discriminate.
  - reflexivity.
Qed.
