(** C06 — the cost evaluator implements the documented event model.
    Statements only; proofs are [exact <lemma>]. *)
From Coq Require Import List Bool ZArith NArith.
From SR Require Import Base.PathB Base.Ext Model.Subseq Model.Recon
  Proofs.SubseqProofs Proofs.PathFacts Proofs.ReconProofs Proofs.LabelCostProofs.
Import ListNotations.
Local Open Scope Z_scope.

(* the event of a node is exactly one of speciation / duplication / transfer / invalid,
   with its geometric meaning on root paths *)
Theorem C06_event_exhaustive : forall s l r,
  match event s l r with
  | Spe => anc s l = true /\ anc s r = true /\ s = lcp l r /\ anc l r = false /\ anc r l = false
  | Dup => anc s l = true /\ anc s r = true /\ (s <> lcp l r \/ comparable l r = true)
  | TrL => anc s l = true /\ anc s r = false /\ anc r s = false
  | TrR => anc s r = true /\ anc s l = false /\ anc l s = false
  | Inv => sanc l s = true \/ sanc r s = true \/ (anc s l = false /\ anc s r = false)
  end.
Proof. exact event_exhaustive. Qed.
Print Assumptions C06_event_exhaustive.

(* reconciliation cost = unit cost per speciation, duplication and transfer plus one full
   loss per species of the explicit loss lists ([all_losses]: for a vertical branch from s
   to t the species s, ..., strictly above t; for a speciation branch the strict
   intermediates only; nothing for a transferred branch) *)
Theorem C06_cost_recount : forall c S O r,
  valid_rec S O r ->
  cost c O r =
  ext_add (Fin (c_spe c * count_ev Spe (events r) + c_dup c * count_ev Dup (events r)
                + c_floss c * Z.of_nat (length (all_losses r))))
          (hgt_times (c_hgt c) (n_transfers r)).
Proof. exact cost_recount. Qed.
Print Assumptions C06_cost_recount.

(* the losses of a branch are species on that branch: at or below s, strictly above t *)
Theorem C06_losses_on_branch : forall s d p,
  In p (chain s d) -> anc s p = true /\ sanc p (s ++ d) = true.
Proof. exact chain_on_branch. Qed.
Print Assumptions C06_losses_on_branch.

Theorem C06_cost_invalid_inf : forall c oa ob s a b,
  event s (root a) (root b) = Inv -> cost c (ONode oa ob) (RNode s a b) = PInf.
Proof. exact cost_invalid_inf. Qed.
Print Assumptions C06_cost_invalid_inf.

(* segment distance between masks taken against a duplicate-free root order = number of
   lost runs of parent families (ends ignored when [edges = false]) *)
Theorem C06_seg_dist_lost_runs : forall rs P C edges,
  NoDup rs -> Subseq P rs -> Subseq C P -> C <> [] ->
  seg_dist (mask_of rs C) (mask_of rs P) edges = lost_runs edges C P.
Proof. exact seg_dist_lost_runs. Qed.
Print Assumptions C06_seg_dist_lost_runs.

(* ordered labelling cost: one segmental loss per lost run; at a duplication the free partial
   copy is chosen optimally (min), at a transfer it is the transferred child *)
Theorem C06_ordered_labeling_recount : forall c t,
  NoDup (lsyn t) -> well_ordered t ->
  ordered_labeling_cost c t = Some (c_sloss c * olab_spec t).
Proof. exact ordered_labeling_recount. Qed.
Print Assumptions C06_ordered_labeling_recount.

(* unordered labelling cost, against a specification written from the English ("per charged edge, with
   the free partial copy chosen optimally at duplications and fixed to the transferred child at
   transfers"; Proofs/ChargedEdgesProofs.v).  [lacks P C]: the child lacks a family of the parent (a lossy
   edge).  [charged_under free t p]: [p] addresses a child whose edge from its parent is lossy and is
   charged -- both edges of a speciation, the edge to the conserved child of a transfer, at a duplication
   the edge to the child that is NOT the free copy [free q] chosen for that node.  The cost is sloss times
   the number of such edges for the choice of free copies that makes it smallest. *)
From SR Require Import Proofs.ChargedEdgesProofs.
Theorem C06_unordered_labeling_charged_edges : forall c t, events_valid t ->
  exists k : nat,
    unordered_labeling_cost c t = Some (c_sloss c * Z.of_nat k) /\
    (forall free l, NoDup l -> (forall p, In p l <-> charged_under free t p) -> (k <= length l)%nat) /\
    (exists free l, NoDup l /\ (forall p, In p l <-> charged_under free t p) /\ length l = k).
Proof. exact unordered_labeling_charged_edges. Qed.
Print Assumptions C06_unordered_labeling_charged_edges.

Theorem C06_lacks_iff : forall P C, lacks P C <-> ~ (forall f, In f P -> In f C).
Proof. exact lacks_iff. Qed.
Print Assumptions C06_lacks_iff.

(* DEFINITIONAL UNFOLDING, kept because C03/C10 use [ulab_spec] as the labelling part of [ucost]:
   [ulab_spec] is the model function [ulab_rec] with the [option] removed ([lossy] = the model's subset
   test), so this theorem only says that the evaluator's assertion does not fail when no event is
   invalid.  The independent statement is [C06_unordered_labeling_charged_edges] above. *)
Theorem C06_unordered_labeling_recount : forall c t,
  events_valid t -> unordered_labeling_cost c t = Some (c_sloss c * ulab_spec t).
Proof. exact unordered_labeling_recount. Qed.
Print Assumptions C06_unordered_labeling_recount.

Theorem C06_lossy_iff : forall parent child,
  lossy parent child = 1 <-> exists f, In f parent /\ ~ In f child.
Proof. exact lossy_iff. Qed.
Print Assumptions C06_lossy_iff.

(* non-vacuity *)
Example C06_example :
  let S := SNode (SNode SLeaf SLeaf) SLeaf in
  let O := ONode (ONode (OLeaf [false; false] [1;2]%N) (OLeaf [false; true] [2;3]%N)) (OLeaf [true] [1;3]%N) in
  let t := LNode [] [1;2;3]%N (LNode [false] [1;2;3]%N (LLeaf [false; false] [1;2]%N) (LLeaf [false; true] [2;3]%N))
                 (LLeaf [true] [1;3]%N) in
  let c := {| c_spe := 0; c_dup := 1; c_hgt := Fin 1; c_floss := 1; c_sloss := 1 |} in
  well_ordered t /\ NoDup (lsyn t) /\ total_cost c O true t = Some (Fin 3).
Proof.
  cbv zeta. split; [|split].
  - cbn [well_ordered lsyn lroot]. repeat split; try discriminate; repeat constructor.
  - repeat constructor; simpl; intuition discriminate.
  - reflexivity.
Qed.

(* unordered: a speciation below a duplication; the speciation has one lossy edge (charged), the
   duplication takes its lossy second child as the free copy (not charged) *)
Example C06_example_unordered := charged_edges_example.

(** * Tie to the source by translation (model/reconciliation.py: the cost evaluator)

    [Gen/EvalGen.v] is regenerated on every run from ReconciliationOutput.node_event / _cost_rec / cost and
    SuperReconciliationOutput.reconciliation_cost / _ordered_labeling_cost / _unordered_labeling_cost /
    labeling_cost / cost (translator/pyfun.py, translator/eval_gen.py): object nodes carry an identifier, the
    dictionaries keyed by nodes are total functions of it, the species LCA structure is a parameter
    instantiated here with the path operations (C17 ties those to the code).  The generated evaluator equals
    the hand-written model for all trees, mappings, labellings and costs (sloss >= 0 for the unordered count). *)

From SR Require Import Gen.EvalGen Proofs.EvalGenProofs.

Theorem C06_gen_node_event_eq :
  forall (lca node_id : Type) (self : G.rout_state path lca node_id) (t : G.TreeNode node_id),
       node_event_p self t =
       G.Ok
         (self,
          node_event_spec (G.rin_leaf_object_species (G.rout_input self))
            (G.rout_object_species self) t).
Proof. exact @gen_node_event_eq. Qed.
Print Assumptions C06_gen_node_event_eq.

Theorem C06_gen_cost_rec_eq :
  forall (lca node_id : Type) (self : G.rout_state path lca node_id)
         (syn : node_id -> list fam) (t : G.TreeNode node_id),
       cost_rec_p self t =
       G.Ok
         (self,
          cost (ccosts (G.rin_costs (G.rout_input self)))
            (otree_of (G.rin_leaf_object_species (G.rout_input self)) syn t)
            (rtree_of (G.rout_object_species self) t)).
Proof. exact @gen_cost_rec_eq. Qed.
Print Assumptions C06_gen_cost_rec_eq.

Theorem C06_gen_cost_eq :
  forall (lca node_id : Type) (self : G.rout_state path lca node_id)
         (syn : node_id -> list fam),
       cost_p self =
       G.Ok
         (self,
          cost (ccosts (G.rin_costs (G.rout_input self)))
            (otree_of (G.rin_leaf_object_species (G.rout_input self)) syn
               (G.rin_object_tree (G.rout_input self)))
            (rtree_of (G.rout_object_species self) (G.rin_object_tree (G.rout_input self)))).
Proof. exact @gen_cost_eq. Qed.
Print Assumptions C06_gen_cost_eq.

Theorem C06_gen_super_node_event_eq :
  forall (lca node_id : Type) (self : G.sout_state fam path lca node_id)
         (t : G.TreeNode node_id),
       snode_event_p self t =
       G.Ok
         (self,
          node_event_spec (G.sin_leaf_object_species (G.sout_input self))
            (G.sout_object_species self) t).
Proof. exact @gen_super_node_event_eq. Qed.
Print Assumptions C06_gen_super_node_event_eq.

Theorem C06_gen_super_cost_rec_eq :
  forall (lca node_id : Type) (self : G.sout_state fam path lca node_id)
         (syn : node_id -> list fam) (t : G.TreeNode node_id),
       scost_rec_p self t =
       G.Ok
         (self,
          cost (co_of self) (otree_of (G.sin_leaf_object_species (G.sout_input self)) syn t)
            (rtree_of (G.sout_object_species self) t)).
Proof. exact @gen_super_cost_rec_eq. Qed.
Print Assumptions C06_gen_super_cost_rec_eq.

Theorem C06_gen_super_reconciliation_cost_eq :
  forall (lca node_id : Type) (self : G.sout_state fam path lca node_id),
       sreconciliation_cost_p self =
       G.Ok (self, cost (co_of self) (ot_of self) (forget (lt_of self))).
Proof. exact @gen_super_reconciliation_cost_eq. Qed.
Print Assumptions C06_gen_super_reconciliation_cost_eq.

Theorem C06_gen_ordered_labeling_cost_eq :
  forall (lca node_id : Type) (id_eqb : node_id -> node_id -> bool),
       (forall x y : node_id, reflect (x = y) (id_eqb x y)) ->
       forall self : G.sout_state fam path lca node_id,
       sordered_p id_eqb self = lab_res self (ordered_labeling_cost (co_of self) (lt_of self)).
Proof. exact @gen_ordered_labeling_cost_eq. Qed.
Print Assumptions C06_gen_ordered_labeling_cost_eq.

Theorem C06_gen_unordered_labeling_cost_eq :
  forall (lca node_id : Type) (self : G.sout_state fam path lca node_id),
       0 <= c_sloss (co_of self) ->
       sunordered_p self = lab_res self (unordered_labeling_cost (co_of self) (lt_of self)).
Proof. exact @gen_unordered_labeling_cost_eq. Qed.
Print Assumptions C06_gen_unordered_labeling_cost_eq.

Theorem C06_gen_labeling_cost_eq :
  forall (lca node_id : Type) (id_eqb : node_id -> node_id -> bool),
       (forall x y : node_id, reflect (x = y) (id_eqb x y)) ->
       forall self : G.sout_state fam path lca node_id,
       0 <= c_sloss (co_of self) ->
       slabeling_cost_p id_eqb self =
       lab_res self (labeling_cost (co_of self) (G.sout_ordered self) (lt_of self)).
Proof. exact @gen_labeling_cost_eq. Qed.
Print Assumptions C06_gen_labeling_cost_eq.

Theorem C06_gen_super_cost_eq :
  forall (lca node_id : Type) (id_eqb : node_id -> node_id -> bool),
       (forall x y : node_id, reflect (x = y) (id_eqb x y)) ->
       forall self : G.sout_state fam path lca node_id,
       0 <= c_sloss (co_of self) ->
       scost_p id_eqb self =
       match total_cost (co_of self) (ot_of self) (G.sout_ordered self) (lt_of self) with
       | Some v => G.Ok (self, v)
       | None => G.Err G.AssertionError
       end.
Proof. exact @gen_super_cost_eq. Qed.
Print Assumptions C06_gen_super_cost_eq.

Theorem C06_gen_eval_externals_tied :
  (forall l : list fam,
        SubseqGen.gen_subseq_complete l = SubseqGen.Ok (Z.of_N (subseq_complete l))) /\
       (forall child parent : list fam,
        SubseqGen.gen_mask_from_subseq fam_eqb child parent =
        SubseqGen.Ok (mask_from_subseq fam_eqb child parent)) /\
       (forall (child parent : N) (edges : bool),
        SubseqGen.gen_subseq_segment_dist child parent edges =
        SubseqGen.Ok (seg_dist child parent edges)).
Proof. exact @gen_eval_externals_tied. Qed.
Print Assumptions C06_gen_eval_externals_tied.

Theorem C06_negative_sloss_differs :
  sunordered_p
         {|
           G.sout_input :=
             {|
               G.sin_object_tree :=
                 G.TreeNode_node 0%nat (G.TreeNode_leaf 1%nat) (G.TreeNode_leaf 2%nat);
               G.sin_species_lca := tt;
               G.sin_leaf_object_species := fun _ : nat => [];
               G.sin_costs :=
                 {|
                   G.CostValues_SPECIATION := 0;
                   G.CostValues_DUPLICATION := 1;
                   G.CostValues_HORIZONTAL_TRANSFER := Fin 1;
                   G.CostValues_FULL_LOSS := 1;
                   G.CostValues_SEGMENTAL_LOSS := -1
                 |};
               G.sin_leaf_syntenies :=
                 fun i : nat => match i with
                                | 1%nat => [1%N]
                                | _ => [1%N; 2%N]
                                end
             |};
           G.sout_object_species := fun _ : nat => [];
           G.sout_syntenies := fun i : nat => match i with
                                              | 1%nat => [1%N]
                                              | _ => [1%N; 2%N]
                                              end;
           G.sout_ordered := false
         |} =
       G.Ok
         ({|
            G.sout_input :=
              {|
                G.sin_object_tree :=
                  G.TreeNode_node 0%nat (G.TreeNode_leaf 1%nat) (G.TreeNode_leaf 2%nat);
                G.sin_species_lca := tt;
                G.sin_leaf_object_species := fun _ : nat => [];
                G.sin_costs :=
                  {|
                    G.CostValues_SPECIATION := 0;
                    G.CostValues_DUPLICATION := 1;
                    G.CostValues_HORIZONTAL_TRANSFER := Fin 1;
                    G.CostValues_FULL_LOSS := 1;
                    G.CostValues_SEGMENTAL_LOSS := -1
                  |};
                G.sin_leaf_syntenies :=
                  fun i : nat => match i with
                                 | 1%nat => [1%N]
                                 | _ => [1%N; 2%N]
                                 end
              |};
            G.sout_object_species := fun _ : nat => [];
            G.sout_syntenies := fun i : nat => match i with
                                               | 1%nat => [1%N]
                                               | _ => [1%N; 2%N]
                                               end;
            G.sout_ordered := false
          |}, -1) /\
       unordered_labeling_cost
         (co_of
            {|
              G.sout_input :=
                {|
                  G.sin_object_tree :=
                    G.TreeNode_node 0%nat (G.TreeNode_leaf 1%nat) (G.TreeNode_leaf 2%nat);
                  G.sin_species_lca := tt;
                  G.sin_leaf_object_species := fun _ : nat => [];
                  G.sin_costs :=
                    {|
                      G.CostValues_SPECIATION := 0;
                      G.CostValues_DUPLICATION := 1;
                      G.CostValues_HORIZONTAL_TRANSFER := Fin 1;
                      G.CostValues_FULL_LOSS := 1;
                      G.CostValues_SEGMENTAL_LOSS := -1
                    |};
                  G.sin_leaf_syntenies :=
                    fun i : nat => match i with
                                   | 1%nat => [1%N]
                                   | _ => [1%N; 2%N]
                                   end
                |};
              G.sout_object_species := fun _ : nat => [];
              G.sout_syntenies :=
                fun i : nat => match i with
                               | 1%nat => [1%N]
                               | _ => [1%N; 2%N]
                               end;
              G.sout_ordered := false
            |})
         (lt_of
            {|
              G.sout_input :=
                {|
                  G.sin_object_tree :=
                    G.TreeNode_node 0%nat (G.TreeNode_leaf 1%nat) (G.TreeNode_leaf 2%nat);
                  G.sin_species_lca := tt;
                  G.sin_leaf_object_species := fun _ : nat => [];
                  G.sin_costs :=
                    {|
                      G.CostValues_SPECIATION := 0;
                      G.CostValues_DUPLICATION := 1;
                      G.CostValues_HORIZONTAL_TRANSFER := Fin 1;
                      G.CostValues_FULL_LOSS := 1;
                      G.CostValues_SEGMENTAL_LOSS := -1
                    |};
                  G.sin_leaf_syntenies :=
                    fun i : nat => match i with
                                   | 1%nat => [1%N]
                                   | _ => [1%N; 2%N]
                                   end
                |};
              G.sout_object_species := fun _ : nat => [];
              G.sout_syntenies :=
                fun i : nat => match i with
                               | 1%nat => [1%N]
                               | _ => [1%N; 2%N]
                               end;
              G.sout_ordered := false
            |}) = Some 0.
Proof. exact @negative_sloss_differs. Qed.
Print Assumptions C06_negative_sloss_differs.

Example C06_gen_eval_example := gen_eval_example.

(* ---- closing corollaries added after the independent review (DESIGN 10.3): the lemmas are in Proofs/ReviewC*.v ---- *)

From SR Require Import Proofs.ReviewCLabelCost. Import ReviewCLabelCost.PartD.

Theorem C06_valid_lab_well_ordered :
  forall (S : stree) (O : otree) (t : ltree),
       SpfsProofs.valid_lab S O t -> leaves_nonempty O -> well_ordered t.
Proof. exact @valid_lab_well_ordered. Qed.
Print Assumptions C06_valid_lab_well_ordered.

Theorem C06_c06_ordered_recount_valid :
  forall (c : costs) (S : stree) (O : otree) (t : ltree),
       SpfsProofs.valid_lab S O t ->
       leaves_nonempty O ->
       NoDup (lsyn t) -> ordered_labeling_cost c t = Some (c_sloss c * olab_spec t).
Proof. exact @c06_ordered_recount_valid. Qed.
Print Assumptions C06_c06_ordered_recount_valid.

Theorem C06_c06_ordered_recount_valid_ordered :
  forall (c : costs) (S : stree) (ord : list fam) (O : otree) (t : ltree),
       NoDup ord ->
       SpfsProofs.valid_ordered S ord O t ->
       leaves_nonempty O -> ordered_labeling_cost c t = Some (c_sloss c * olab_spec t).
Proof. exact @c06_ordered_recount_valid_ordered. Qed.
Print Assumptions C06_c06_ordered_recount_valid_ordered.

Theorem C06_c06_chain_length :
  forall s d : path, length (chain s d) = length d.
Proof. exact @c06_chain_length. Qed.
Print Assumptions C06_c06_chain_length.

