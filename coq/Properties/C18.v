(** C18 — subsequence masks and segment distances are exact.
    Statements only; every proof is [exact <lemma of Proofs/SubseqProofs.v>]. *)
From Coq Require Import List Bool ZArith NArith.
From SR Require Import Model.Subseq Proofs.SubseqProofs.
Import ListNotations.
Local Open Scope Z_scope.

(* For every non-empty child mask, the segment distance is -1 when the child is
   not contained in the parent and otherwise the number of maximal runs of parent
   elements missing from the child; runs touching either end are ignored when
   [edges = false].  ([flags child parent] lists, for the set bits of [parent] in
   increasing order, whether [child] has that bit.) *)
Theorem C18_seg_dist_spec : forall child parent edges,
  child <> 0%N ->
  seg_dist child parent edges =
    if N.eqb (N.ldiff child parent) 0
    then Z.of_nat (if edges then runs_all (flags child parent)
                   else runs_inner (flags child parent))
    else -1.
Proof. exact seg_dist_correct. Qed.
Print Assumptions C18_seg_dist_spec.

Theorem C18_minus_one_iff_not_contained : forall child parent edges,
  child <> 0%N ->
  (seg_dist child parent edges = -1 <-> N.eqb (N.ldiff child parent) 0 = false).
Proof. exact seg_dist_minus_one. Qed.
Print Assumptions C18_minus_one_iff_not_contained.

(* why the property says "non-empty child mask" *)
Theorem C18_empty_child_excluded : forall parent, seg_dist 0 parent false = -1.
Proof. exact seg_dist_empty_child. Qed.
Print Assumptions C18_empty_child_excluded.

(* subsequence -> mask -> subsequence is the identity (no distinctness needed) *)
Theorem C18_mask_roundtrip_1 : forall (A : Type) (eqb : A -> A -> bool),
  (forall x y, reflect (x = y) (eqb x y)) ->
  forall parent child, Subseq child parent ->
  subseq_from_mask (mask_from_subseq eqb child parent) parent = Some child.
Proof. exact @mask_roundtrip_1. Qed.
Print Assumptions C18_mask_roundtrip_1.

(* mask -> subsequence -> mask is the identity on sequences of distinct elements;
   every mask below 2^|parent| decodes, to a subsequence of the parent *)
Theorem C18_mask_roundtrip_2 : forall (A : Type) (eqb : A -> A -> bool),
  (forall x y, reflect (x = y) (eqb x y)) ->
  forall parent, NoDup parent -> forall m child,
  subseq_from_mask m parent = Some child -> mask_from_subseq eqb child parent = m.
Proof. exact @mask_roundtrip_2. Qed.
Print Assumptions C18_mask_roundtrip_2.

Theorem C18_mask_decodes : forall (A : Type) (parent : list A) m,
  (N.size_nat m <= length parent)%nat ->
  exists child, subseq_from_mask m parent = Some child.
Proof. exact @from_mask_defined. Qed.
Print Assumptions C18_mask_decodes.

Theorem C18_decoded_is_subsequence : forall (A : Type) (parent : list A) m child,
  subseq_from_mask m parent = Some child -> Subseq child parent.
Proof. exact @from_mask_subseq. Qed.
Print Assumptions C18_decoded_is_subsequence.

Theorem C18_complete_mask : forall (A : Type) (l : list A),
  subseq_from_mask (subseq_complete l) l = Some l.
Proof. exact @complete_mask. Qed.
Print Assumptions C18_complete_mask.

(* non-vacuity: a concrete non-trivial instance of the hypotheses *)
Example C18_example :
  seg_dist 0x24%N 0x7f%N true = 3 /\ seg_dist 0x24%N 0x7f%N false = 1 /\
  seg_dist 8%N 7%N true = -1.
Proof. repeat split. Qed.

(* ... and of the hypotheses of the two mask round trips: a proper subsequence of a parent
   with a repeated element (round trip 1 needs no distinctness: the leftmost occurrences are
   taken), a parent of distinct elements (round trip 2), a mask that is too long, and why
   round trip 2 needs distinct elements (two masks decode to the same child) *)
Example C18_example_masks :
  Subseq [1; 3; 1]%nat [1; 2; 3; 1; 4]%nat /\
  mask_from_subseq Nat.eqb [1; 3; 1]%nat [1; 2; 3; 1; 4]%nat = 13%N /\
  subseq_from_mask 13%N [1; 2; 3; 1; 4]%nat = Some [1; 3; 1]%nat /\
  NoDup [1; 2; 3; 5; 4]%nat /\
  subseq_from_mask 22%N [1; 2; 3; 5; 4]%nat = Some [2; 3; 4]%nat /\
  mask_from_subseq Nat.eqb [2; 3; 4]%nat [1; 2; 3; 5; 4]%nat = 22%N /\
  subseq_from_mask 32%N [1; 2; 3; 5; 4]%nat = None /\
  subseq_from_mask 8%N [1; 2; 3; 1; 4]%nat = Some [1]%nat /\
  mask_from_subseq Nat.eqb [1]%nat [1; 2; 3; 1; 4]%nat = 1%N.
Proof.
  repeat split.
  - repeat constructor.
  - repeat (constructor; [simpl; intuition discriminate|]). constructor.
Qed.

(** Tie to the source by translation: Gen/SubseqGen.v is regenerated from
    utils/subsequences.py on every run (translator/pyfun.py, translator/subseq_gen.py);
    the generated functions equal the hand-written model for all inputs, error cases
    included, and the fuel of the translated [while] loop is always sufficient. *)
From SR Require Import Gen.SubseqGen Proofs.SubseqGenProofs.

Theorem C18_gen_subseq_complete : forall (A : Type) (l : list A),
  gen_subseq_complete l = Ok (Z.of_N (subseq_complete l)).
Proof. exact @gen_subseq_complete_eq. Qed.
Print Assumptions C18_gen_subseq_complete.

Theorem C18_gen_mask_from_subseq : forall (A : Type) (eqb : A -> A -> bool) (child parent : list A),
  gen_mask_from_subseq eqb child parent = Ok (mask_from_subseq eqb child parent).
Proof. exact @gen_mask_from_subseq_eq. Qed.
Print Assumptions C18_gen_mask_from_subseq.

Theorem C18_gen_subseq_from_mask : forall (A : Type) (m : N) (parent : list A),
  gen_subseq_from_mask m parent =
    match subseq_from_mask m parent with Some l => Ok l | None => Err IndexError end.
Proof. exact @gen_subseq_from_mask_eq. Qed.
Print Assumptions C18_gen_subseq_from_mask.

Theorem C18_gen_subseq_segment_dist : forall (child parent : N) (edges : bool),
  gen_subseq_segment_dist child parent edges = Ok (seg_dist child parent edges).
Proof. exact gen_subseq_segment_dist_eq. Qed.
Print Assumptions C18_gen_subseq_segment_dist.
