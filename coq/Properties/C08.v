From Coq Require Import List Arith Bool.
From SR Require Import Model.Binarize Proofs.BinarizeProofs.
Import ListNotations.
Theorem C08_leaf : forall n, binarize (RLeaf n) = [BLeaf n].
Proof. exact binarize_leaf. Qed.
Print Assumptions C08_leaf.
