(** C08 — polytomies are resolved by exploring every binary refinement exactly once.
    Statements only; every proof is [exact <lemma of Proofs/BinarizeProofs.v>].

    Vocabulary (Model/Binarize.v, Proofs/BinarizeProofs.v):
    [rose] input trees of any arity, [bt] binary trees, both with one label
    [lab = option nat] per node (the bundle name + colour; the name for leaves);
    [atree A] binary trees over atoms of type [A], [aleaves] their atoms left to right;
    [eqv] / [beqv] equality of [atree] / [bt] up to the order of children;
    [rleaves] / [bleaves] leaf labels left to right; [rsub s t] / [bsub s b]: [s] is a
    node (subtree) of the tree; [rlabel] / [blabel] the label at the root;
    [arity_ok t]: every internal node of [t] has at least two children;
    [ForallOrdPairs R l]: [R x y] for every [x] occurring before [y] in [l]. *)
From Coq Require Import List Bool Arith NArith Permutation.
From SR Require Import Model.Binarize Proofs.BinarizeProofs.
Import ListNotations.

(** ** [arrange_leaves]: the binary trees over k atoms *)

(* (2k-3)!! arrangements of k >= 1 atoms ([odd_double_fact j] = (2j-1)!!, so
   for k = j+1 atoms this is (2k-3)!!); none for no atom. *)
Theorem C08_arrange_count : forall (A : Type) (xs : list A),
  length (arrange xs) = arr_count (length xs).
Proof. exact @arrange_length. Qed.
Print Assumptions C08_arrange_count.

Theorem C08_arrange_count_double_factorial : forall (A : Type) (xs : list A) k,
  length xs = S k -> length (arrange xs) = odd_double_fact k.
Proof. exact @arrange_count_double_fact. Qed.
Print Assumptions C08_arrange_count_double_factorial.

(* every result is a binary tree over exactly the given atoms *)
Theorem C08_arrange_sound : forall (A : Type) (xs : list A) t,
  In t (arrange xs) -> Permutation (aleaves t) xs.
Proof. exact @arrange_perm. Qed.
Print Assumptions C08_arrange_sound.

(* no two results are equal up to the order of children *)
Theorem C08_arrange_nodup : forall (A : Type) (xs : list A),
  NoDup xs -> ForallOrdPairs (fun t1 t2 => ~ eqv t1 t2) (arrange xs).
Proof. exact @arrange_fop. Qed.
Print Assumptions C08_arrange_nodup.

(* every binary tree over the atoms is produced, up to the order of children *)
Theorem C08_arrange_complete : forall (A : Type) (xs : list A) (T : atree A),
  Permutation (aleaves T) xs -> exists t, In t (arrange xs) /\ eqv T t.
Proof. exact @arrange_complete. Qed.
Print Assumptions C08_arrange_complete.

(* the graft step: 2m-1 positions in a tree with m atoms *)
Theorem C08_graft_count : forall (A : Type) (t : atree A) x,
  length (graft t x) = 2 * length (aleaves t) - 1.
Proof. exact @graft_length. Qed.
Print Assumptions C08_graft_count.

(** ** [binarize]: the binary refinements of a tree *)

(* the number of results is the product over the nodes of (2k-3)!! *)
Theorem C08_binarize_count : forall t, length (binarize t) = refinement_count t.
Proof. exact binarize_length. Qed.
Print Assumptions C08_binarize_count.

(* every result is binary, has the leaves of the original, and contains every
   clade of the original as the clade of a node bearing the label (name and
   colour) of the original node; in particular leaves keep their names *)
Theorem C08_binarize_sound : forall t b, arity_ok t = true -> In b (binarize t) ->
  is_binary (bt_to_rose b) = true /\
  Permutation (bleaves b) (rleaves t) /\
  (forall s, rsub s t ->
     exists b', bsub b' b /\ Permutation (bleaves b') (rleaves s) /\ blabel b' = rlabel s).
Proof. exact binarize_sound. Qed.
Print Assumptions C08_binarize_sound.

Theorem C08_binarize_leaves_kept : forall t b n, arity_ok t = true -> In b (binarize t) ->
  rsub (RLeaf n) t -> bsub (BLeaf n) b.
Proof. exact binarize_leaves_kept. Qed.
Print Assumptions C08_binarize_leaves_kept.

(* with distinct leaf names, no two results are equal up to the order of children *)
Theorem C08_binarize_nodup : forall t, NoDup (rleaves t) -> arity_ok t = true ->
  ForallOrdPairs (fun a b => ~ beqv a b) (binarize t).
Proof. exact binarize_fop. Qed.
Print Assumptions C08_binarize_nodup.

(* [refines t b] (Proofs/BinarizeProofs.v): [b] is obtained from [t] by refining
   every child and joining the refined children of each node by an arbitrary
   binary tree with unlabelled new nodes, the root keeping the node's label.
   Every result is such a refinement and every such refinement is produced,
   up to the order of children. *)
Theorem C08_refines_unfold : forall lb cs b,
  refines (RNode lb cs) b <->
  exists ds T, Forall2 refines cs ds /\ Permutation (aleaves T) ds /\ b = relabel lb (flat T).
Proof. exact refines_node. Qed.
Print Assumptions C08_refines_unfold.

Theorem C08_binarize_refines : forall t b, In b (binarize t) -> refines t b.
Proof. exact binarize_refines. Qed.
Print Assumptions C08_binarize_refines.

Theorem C08_binarize_complete : forall t b, refines t b ->
  exists b', In b' (binarize t) /\ beqv b b'.
Proof. exact refines_complete. Qed.
Print Assumptions C08_binarize_complete.

(* The code's [graft] knows no atoms: it walks a plain tree and stops at a node
   whose topology id is in the [ignore] set (the ids of the other resolved
   children).  That literal variant ([binarize_lit], comparison of ids =
   [same_id]) returns the same list as the atom variant all theorems above are
   about, for any id comparison under which equal ids imply equal leaf sets,
   when leaf names are distinct; "same set of leaf names" is such a comparison. *)
Theorem C08_ignore_set_is_atoms : forall same_id : bt -> bt -> bool,
  (forall a, same_id a a = true) ->
  (forall a b, same_id a b = true -> forall y, In y (bleaves a) <-> In y (bleaves b)) ->
  forall t, NoDup (rleaves t) -> arity_ok t = true ->
  binarize_lit same_id t = binarize t.
Proof. exact binarize_lit_eq. Qed.
Print Assumptions C08_ignore_set_is_atoms.

Theorem C08_same_leafset_is_an_id :
  (forall a, same_leafset a a = true) /\
  (forall a b, same_leafset a b = true -> forall y, In y (bleaves a) <-> In y (bleaves b)).
Proof. exact (conj same_leafset_refl same_leafset_leaves). Qed.
Print Assumptions C08_same_leafset_is_an_id.

(* a binary tree is its own single refinement, so [ReconciliationInput.binarize]
   (which returns the input itself when both trees are binary) always yields
   the product of the refinements of the two trees *)
Theorem C08_binary_unchanged : forall t, is_binary t = true ->
  exists b, rose_to_bt t = Some b /\ binarize t = [b].
Proof. exact binarize_binary. Qed.
Print Assumptions C08_binary_unchanged.

Theorem C08_input_binarize_product : forall o s,
  input_binarize o s = list_prod (binarize o) (binarize s).
Proof. exact input_binarize_product. Qed.
Print Assumptions C08_input_binarize_product.

(** ** completeness against the algorithm-independent characterisation

    A binary tree with the leaves of [t], in which every clade of [t] is the
    clade of a node bearing the label of the original node and every other node
    is an unlabelled inner node, is a refinement in the sense of [refines], hence
    is produced by [binarize] up to the order of children.  Together with
    [C08_binarize_sound], [C08_binarize_refines] and [C08_binarize_nodup]:
    [binarize t] lists exactly these trees, each once. *)
Theorem C08_clade_refinement_is_refines : forall t b,
  NoDup (rleaves t) -> arity_ok t = true ->
  Permutation (bleaves b) (rleaves t) ->
  (forall s, rsub s t ->
     exists b', bsub b' b /\ Permutation (bleaves b') (rleaves s) /\ blabel b' = rlabel s) ->
  (forall b', bsub b' b ->
     (exists s, rsub s t /\ Permutation (bleaves b') (rleaves s)) \/ (exists l r, b' = BNode None l r)) ->
  refines t b.
Proof. exact clade_refinement_is_refines. Qed.
Print Assumptions C08_clade_refinement_is_refines.

Theorem C08_binarize_complete_clades : forall t b,
  NoDup (rleaves t) -> arity_ok t = true ->
  Permutation (bleaves b) (rleaves t) ->
  (forall s, rsub s t ->
     exists b', bsub b' b /\ Permutation (bleaves b') (rleaves s) /\ blabel b' = rlabel s) ->
  (forall b', bsub b' b ->
     (exists s, rsub s t /\ Permutation (bleaves b') (rleaves s)) \/ (exists l r, b' = BNode None l r)) ->
  exists b0, In b0 (binarize t) /\ beqv b b0.
Proof. exact clade_refinement_produced. Qed.
Print Assumptions C08_binarize_complete_clades.

(** ** non-vacuity *)

Example C08_counts : map arr_count [1; 2; 3; 4; 5; 6] = [1; 1; 3; 15; 105; 945].
Proof. reflexivity. Qed.

Example C08_arrange_three :
  arrange [0; 1; 2] =
  [Join (Atom 0) (Join (Atom 1) (Atom 2));
   Join (Join (Atom 0) (Atom 1)) (Atom 2);
   Join (Atom 1) (Join (Atom 0) (Atom 2))].
Proof. reflexivity. Qed.

(* ((a,b,c)X,d,e)R : hypotheses of the theorems hold, 3 * 3 = 9 refinements *)
Definition C08_t0 : rose :=
  RNode (Some 9)
    [RNode (Some 8) [RLeaf (Some 0); RLeaf (Some 1); RLeaf (Some 2)];
     RLeaf (Some 3); RLeaf (Some 4)].

Example C08_example :
  NoDup (rleaves C08_t0) /\ arity_ok C08_t0 = true /\
  length (binarize C08_t0) = 9 /\ refinement_count C08_t0 = 9 /\
  nth_error (binarize C08_t0) 1 =
    Some (BNode (Some 9)
            (BNode None
               (BNode (Some 8) (BLeaf (Some 0)) (BNode None (BLeaf (Some 1)) (BLeaf (Some 2))))
               (BLeaf (Some 3)))
            (BLeaf (Some 4))).
Proof.
  split; [|repeat split].
  simpl. repeat (constructor; [simpl; intuition congruence|]). constructor.
Qed.

(** ** the end-to-end clause (Model/Poly.v, Proofs/PolyProofs.v)

    "The extended solvers return the optimum over all binary refinements of both
    trees."  [spfs_poly] / [uspfs_poly] model the outer loop of [_spfs] / [_uspfs]:
    ONE entry receives the candidates of every refinement pair of
    [input_binarize o s], in that order; a tag is (index of the pair, solution).
    [refinement_input ld o s i p]: the [i]-th enumerated pair consists of refinements
    of [o] and [s] and converts (leaf data looked up by name) to the binary input [p].
    [ropt ld o s sol cost i t]: [t] is a solution of the [i]-th pair whose cost is
    minimal over all enumerated pairs and all their solutions.

    The theorems of this block are statements about the enumerated pairs; that these are
    all the refinements, each once up to the order of children, is [C08_refinement_pairs_*]
    below (with [C08_binarize_complete], [C08_binarize_nodup]).  That the binary optimum
    does not depend on the order of children -- the link to "every binary refinement
    regardless of child order" -- is proved in the next block ([C08_child_order_invariance],
    [C08_ext_optimum_all_refinements*], Proofs/PolyInvProofs.v), and the reader-facing form
    over SOLUTIONS of arbitrary refinement pairs is the last block
    ([C08_returned_solutions_optimal_over_all_refinements_*], Proofs/PolyBoundProofs.v).
    Nothing of this clause is left open. *)
From SR Require Import Base.Ext Model.Entry Model.Recon Model.Poly Proofs.PathFacts Proofs.ThlProofs
  Proofs.SpfsFinal Proofs.UspfsProofs Proofs.UspfsFinal Proofs.PolyProofs.

Theorem C08_ext_optimum_refinements_ordered : forall c ld o s,
  nn (c_hgt c) -> coherent_ord c -> poly_wf nonempty_syn ld o s ->
  exists e, spfs_poly c RALL ld o s = Some e /\ NoDup (tags e) /\
    (forall i lt, In (i, lt) (tags e) <-> ropt ld o s (spfs_solp true) (spfs_costp c) i lt) /\
    (forall i lt, In (i, lt) (tags e) <->
       exists p, refinement_input ld o s i p /\
         optimal_sol (fst p) c true (orders_of (snd p)) (snd p) lt /\
         cost_of c (snd p) lt = val e) /\
    val e = ext_minl (map (pair_opt ld (spfs_binopt c RALL true)) (input_binarize o s)).
Proof. exact ext_optimum_refinements. Qed.
Print Assumptions C08_ext_optimum_refinements_ordered.

Theorem C08_ext_optimum_refinements_ordered_any : forall c ld o s,
  nn (c_hgt c) -> coherent_ord c -> poly_wf nonempty_syn ld o s ->
  exists e, spfs_poly c RANY ld o s = Some e /\
    ((tags e = [] /\ forall i p lt, refinement_input ld o s i p -> ~ spfs_solp true p lt) \/
     (exists i lt, tags e = [(i, lt)] /\ ropt ld o s (spfs_solp true) (spfs_costp c) i lt)).
Proof. exact ext_optimum_refinements_any. Qed.
Print Assumptions C08_ext_optimum_refinements_ordered_any.

Theorem C08_ext_optimum_refinements_unordered : forall c ld o s,
  nn (c_hgt c) -> ucoherent c -> poly_wf any_syn ld o s ->
  exists e, uspfs_poly c RALL ld o s = Some e /\ NoDup (tags e) /\
    (forall i t, In (i, t) (tags e) <-> ropt ld o s (uspfs_solp true) (uspfs_costp c) i t) /\
    (forall i t, In (i, t) (tags e) <->
       exists p, refinement_input ld o s i p /\ uoptimal (fst p) c true (snd p) t /\
         ucost c (snd p) t = val e) /\
    val e = ext_minl (map (pair_opt ld (uspfs_binopt c RALL true)) (input_binarize o s)).
Proof. exact ext_optimum_refinements_unordered. Qed.
Print Assumptions C08_ext_optimum_refinements_unordered.

Theorem C08_ext_optimum_refinements_unordered_any : forall c ld o s,
  nn (c_hgt c) -> ucoherent c -> poly_wf any_syn ld o s ->
  exists e i t, uspfs_poly c RANY ld o s = Some e /\ tags e = [(i, t)] /\
    ropt ld o s (uspfs_solp true) (uspfs_costp c) i t.
Proof. exact ext_optimum_refinements_unordered_any. Qed.
Print Assumptions C08_ext_optimum_refinements_unordered_any.

(* every returned solution refers to a refinement pair (trees binary, refinements of both
   inputs, leaf data found by name) and has the returned cost -- any costs, any policy *)
Theorem C08_solutions_refer_to_refinements : forall c ld o s,
  nn (c_hgt c) -> poly_wf nonempty_syn ld o s ->
  forall rp e i lt, spfs_poly c rp ld o s = Some e -> In (i, lt) (tags e) ->
  exists ob sb p, tag_pair o s (i, lt) = Some (ob, sb) /\ refines o ob /\ refines s sb /\
    pair_input ld (ob, sb) = Some p /\ spfs_solp true p lt /\ spfs_costp c p lt = val e.
Proof. exact ext_solutions_refer_to_refinements. Qed.
Print Assumptions C08_solutions_refer_to_refinements.

Theorem C08_solutions_refer_to_refinements_unordered : forall c ld o s,
  nn (c_hgt c) -> ucoherent c -> poly_wf any_syn ld o s ->
  forall rp e i t, rp <> RNONE -> uspfs_poly c rp ld o s = Some e -> In (i, t) (tags e) ->
  exists ob sb p, tag_pair o s (i, t) = Some (ob, sb) /\ refines o ob /\ refines s sb /\
    pair_input ld (ob, sb) = Some p /\ uspfs_solp true p t /\ uspfs_costp c p t = val e.
Proof. exact ext_solutions_refer_to_refinements_unordered. Qed.
Print Assumptions C08_solutions_refer_to_refinements_unordered.

(* the enumerated pairs are all pairs of refinements, each once, up to the order of children *)
Theorem C08_refinement_pairs_complete : forall o s ob' sb',
  refines o ob' -> refines s sb' ->
  exists j ob sb, nth_error (input_binarize o s) j = Some (ob, sb) /\ beqv ob' ob /\ beqv sb' sb.
Proof. exact refinement_pairs_complete. Qed.
Print Assumptions C08_refinement_pairs_complete.

Theorem C08_refinement_pairs_nodup : forall o s,
  NoDup (rleaves o) -> arity_ok o = true -> NoDup (rleaves s) -> arity_ok s = true ->
  ForallOrdPairs (fun a b => ~ (beqv (fst a) (fst b) /\ beqv (snd a) (snd b))) (input_binarize o s).
Proof. exact refinement_pairs_nodup. Qed.
Print Assumptions C08_refinement_pairs_nodup.

(* the hypotheses are satisfiable: a 4-leaf star over a 3-leaf star, 45 refinement pairs *)
Example C08_poly_example := poly_example.

(** ** every binary refinement, whatever the order of its children (Proofs/PolyInvProofs.v)

    The binary optimum of the extended solvers does not depend on the order of the children
    of the refinement (species names pairwise distinct, so that looking a species up by name
    is unambiguous); hence the value returned on the polytomous input is a lower bound of the
    binary optimum on EVERY pair of binary refinements, and it is attained by an enumerated pair. *)
From SR Require Import Proofs.PolyInvProofs.

Theorem C08_child_order_invariance : forall c,
  nn (c_hgt c) -> coherent_ord c -> ucoherent c ->
  forall ld ob sb ob' sb' p p',
  NoDup (names (blabels sb)) -> beqv ob ob' -> beqv sb sb' ->
  pair_input ld (ob, sb) = Some p -> pair_input ld (ob', sb') = Some p' ->
  spfs_binopt c RALL true p = spfs_binopt c RALL true p' /\
  uspfs_binopt c RALL true p = uspfs_binopt c RALL true p'.
Proof. exact child_order_invariance. Qed.
Print Assumptions C08_child_order_invariance.

Theorem C08_ext_optimum_all_refinements : forall c ld o s,
  nn (c_hgt c) -> NoDup (names (rlabels s)) -> coherent_ord c -> poly_wf nonempty_syn ld o s ->
  exists e, spfs_poly c RALL ld o s = Some e /\
    (forall ob' sb' p', refines o ob' -> refines s sb' -> pair_input ld (ob', sb') = Some p' ->
       ele (val e) (spfs_binopt c RALL true p')) /\
    (exists i p, refinement_input ld o s i p /\ val e = spfs_binopt c RALL true p).
Proof. exact ext_optimum_all_refinements. Qed.
Print Assumptions C08_ext_optimum_all_refinements.

Theorem C08_ext_optimum_all_refinements_unordered : forall c ld o s,
  nn (c_hgt c) -> NoDup (names (rlabels s)) -> ucoherent c -> poly_wf any_syn ld o s ->
  exists e, uspfs_poly c RALL ld o s = Some e /\
    (forall ob' sb' p', refines o ob' -> refines s sb' -> pair_input ld (ob', sb') = Some p' ->
       ele (val e) (uspfs_binopt c RALL true p')) /\
    (exists i p, refinement_input ld o s i p /\ val e = uspfs_binopt c RALL true p).
Proof. exact ext_optimum_all_refinements_unordered. Qed.
Print Assumptions C08_ext_optimum_all_refinements_unordered.

Example C08_all_refinements_example := all_refinements_example.

(** ** reader-facing form: a bound over SOLUTIONS of ARBITRARY refinement pairs (Proofs/PolyBoundProofs.v)

    [ropt_all ld o s solp costp i t]: [t] is a solution of the [i]-th enumerated refinement pair
    and costs no more than any solution [t'] of any pair [(ob', sb')] of binary refinements of the
    two trees (children in any order) that converts to a binary input [p'].  No totalised quantity
    ([spfs_binopt], [orders_of], [pair_opt]) occurs in these statements.
    Ordered: [spfs_solp true p t] = valid ordered labelling of [p] for one of ITS compatible root
    orders, any species mapping; [spfs_costp c p t] = the evaluator's total cost.
    Unordered: [uspfs_solp true p t] = valid canonical unordered labelling; by
    [C03_canonical_suffices] the bound extends to all valid labellings
    ([C08_ext_optimum_refinements_unordered] + [C05_uspfs_all_exact_global]). *)
From SR Require Import Model.Spfs Model.Uspfs Proofs.PolyBoundProofs.

Theorem C08_returned_solutions_optimal_over_all_refinements_ordered : forall c ld o s,
  nn (c_hgt c) -> NoDup (names (rlabels s)) -> coherent_ord c -> poly_wf nonempty_syn ld o s ->
  exists e, spfs_poly c RALL ld o s = Some e /\ NoDup (tags e) /\
    forall i lt, In (i, lt) (tags e) <->
      exists p, refinement_input ld o s i p /\ spfs_solp true p lt /\
        forall ob' sb' p' lt', refines o ob' -> refines s sb' -> pair_input ld (ob', sb') = Some p' ->
          spfs_solp true p' lt' -> ele (spfs_costp c p lt) (spfs_costp c p' lt').
Proof. exact ext_all_refinements_solutions_ordered. Qed.
Print Assumptions C08_returned_solutions_optimal_over_all_refinements_ordered.

Theorem C08_returned_solutions_optimal_over_all_refinements_ordered_any : forall c ld o s,
  nn (c_hgt c) -> NoDup (names (rlabels s)) -> coherent_ord c -> poly_wf nonempty_syn ld o s ->
  exists e, spfs_poly c RANY ld o s = Some e /\
    ((tags e = [] /\ forall ob' sb' p' lt, refines o ob' -> refines s sb' ->
                       pair_input ld (ob', sb') = Some p' -> ~ spfs_solp true p' lt) \/
     (exists i lt, tags e = [(i, lt)] /\ ropt_all ld o s (spfs_solp true) (spfs_costp c) i lt)).
Proof. exact ext_all_refinements_solutions_ordered_any. Qed.
Print Assumptions C08_returned_solutions_optimal_over_all_refinements_ordered_any.

Theorem C08_returned_solutions_optimal_over_all_refinements_unordered : forall c ld o s,
  nn (c_hgt c) -> NoDup (names (rlabels s)) -> ucoherent c -> poly_wf any_syn ld o s ->
  exists e, uspfs_poly c RALL ld o s = Some e /\ NoDup (tags e) /\
    forall i t, In (i, t) (tags e) <->
      exists p, refinement_input ld o s i p /\ uspfs_solp true p t /\
        forall ob' sb' p' t', refines o ob' -> refines s sb' -> pair_input ld (ob', sb') = Some p' ->
          uspfs_solp true p' t' -> ele (uspfs_costp c p t) (uspfs_costp c p' t').
Proof. exact ext_all_refinements_solutions_unordered. Qed.
Print Assumptions C08_returned_solutions_optimal_over_all_refinements_unordered.

Theorem C08_returned_solutions_optimal_over_all_refinements_unordered_any : forall c ld o s,
  nn (c_hgt c) -> NoDup (names (rlabels s)) -> ucoherent c -> poly_wf any_syn ld o s ->
  exists e i t, uspfs_poly c RANY ld o s = Some e /\ tags e = [(i, t)] /\
    ropt_all ld o s (uspfs_solp true) (uspfs_costp c) i t.
Proof. exact ext_all_refinements_solutions_unordered_any. Qed.
Print Assumptions C08_returned_solutions_optimal_over_all_refinements_unordered_any.

(* the new optimality notion is the old one ([ropt]: optimal over the ENUMERATED pairs) *)
Theorem C08_ropt_iff_ropt_all_ordered : forall c ld o s, nn (c_hgt c) -> NoDup (names (rlabels s)) ->
  forall i t, coherent_ord c -> poly_wf nonempty_syn ld o s ->
  (ropt ld o s (spfs_solp true) (spfs_costp c) i t <-> ropt_all ld o s (spfs_solp true) (spfs_costp c) i t).
Proof. exact ropt_ropt_all_ordered. Qed.
Print Assumptions C08_ropt_iff_ropt_all_ordered.

Theorem C08_ropt_iff_ropt_all_unordered : forall c ld o s, nn (c_hgt c) -> NoDup (names (rlabels s)) ->
  forall i t, ucoherent c -> poly_wf any_syn ld o s ->
  (ropt ld o s (uspfs_solp true) (uspfs_costp c) i t <-> ropt_all ld o s (uspfs_solp true) (uspfs_costp c) i t).
Proof. exact ropt_ropt_all_unordered. Qed.
Print Assumptions C08_ropt_iff_ropt_all_unordered.

(** ** the totalisation defaults of the definitions used above are never taken

    [pair_opt ld binopt pr] reads "[pair_input ld pr = None]" (a leaf without name / data, a species
    name that is not found) as +inf: every ENUMERATED pair converts ([C08_enumerated_pair_defined]).
    [orders_of O] reads "[Spfs.root_orders O = None]" (an exception while enumerating the root orders)
    as "no order", and [spfs_binopt] / [uspfs_binopt] read "[spfs] / [uspfs] returned [None]" (an
    exception while decoding or evaluating) as +inf: on every pair of binary refinements that converts,
    the root orders are enumerated, the binary solver returns an entry, and the three quantities are
    its value. *)
Theorem C08_enumerated_pair_defined : forall o s ld Q pr, poly_wf Q ld o s -> In pr (input_binarize o s) ->
  exists p, pair_input ld pr = Some p.
Proof. exact enumerated_pair_defined. Qed.
Print Assumptions C08_enumerated_pair_defined.

Theorem C08_refinement_pair_defined_ordered : forall c rp ld o s ob' sb', nn (c_hgt c) ->
  poly_wf nonempty_syn ld o s -> NoDup (names (rlabels s)) -> refines o ob' -> refines s sb' ->
  forall p', pair_input ld (ob', sb') = Some p' ->
  exists orders e, Spfs.root_orders (snd p') = Some orders /\ orders_of (snd p') = orders /\
    spfs (fst p') c rp true orders (snd p') = Some e /\ spfs_binopt c rp true p' = val e /\
    pair_opt ld (spfs_binopt c rp true) (ob', sb') = val e.
Proof. exact refinement_pair_defined_ordered. Qed.
Print Assumptions C08_refinement_pair_defined_ordered.

Theorem C08_refinement_pair_defined_unordered : forall c rp ld ob' sb' p', nn (c_hgt c) ->
  pair_input ld (ob', sb') = Some p' ->
  exists E, uspfs (fst p') c rp true (snd p') = Some E /\ uspfs_binopt c rp true p' = val E /\
    pair_opt ld (uspfs_binopt c rp true) (ob', sb') = val E.
Proof. exact refinement_pair_defined_unordered. Qed.
Print Assumptions C08_refinement_pair_defined_unordered.

(* validity and finite cost of every returned solution, any policy, any unit costs: C04_valid_poly_* *)
