(** C19 — topological orderings are enumerated completely and without repetition.
    Statements only; every proof is [exact <lemma of Proofs/ToposortProofs.v>].

    A graph is the association list of a Python dict of successor sets.
    [wf g]: distinct keys, every successor is a key (otherwise the code raises
    [KeyError], which the model reproduces).  [topo g l]: [l] is an arrangement
    of the vertices in which every edge goes forward.  [set_order ord]: [ord]
    is a possible iteration order of sets.  Successor lists may even contain
    repetitions: in-degrees are counted with multiplicity, as the code does. *)
From Coq Require Import List Bool Arith ZArith Permutation.
From SR Require Import Model.Toposort Proofs.ToposortProofs.
From SR Require Proofs.SubseqProofs.
Import ListNotations.

(* the specification, spelled out *)
Theorem C19_topo_unfolded : forall g l,
  topo g l <->
  Permutation l (map fst g) /\
  forall u v, (exists ss, In (u, ss) g /\ In v ss) ->
              exists l1 l2 l3, l = l1 ++ u :: l2 ++ v :: l3.
Proof. intros g l. reflexivity. Qed.
Print Assumptions C19_topo_unfolded.

Theorem C19_wf_unfolded : forall g,
  wf g <->
  NoDup (map fst g) /\
  forall u v, (exists ss, In (u, ss) g /\ In v ss) -> In v (map fst g).
Proof. intros g. reflexivity. Qed.
Print Assumptions C19_wf_unfolded.

Theorem C19_set_order_unfolded : forall ord,
  set_order ord <-> forall s, Permutation (ord s) s.
Proof. intros ord. reflexivity. Qed.
Print Assumptions C19_set_order_unfolded.

(* the all-orderings routine neither raises nor exhausts its fuel ... *)
Theorem C19_toposort_all_total : forall g, wf g -> forall ord, set_order ord ->
  exists R, toposort_all_with ord g = TOk R.
Proof. exact toposort_all_total. Qed.
Print Assumptions C19_toposort_all_total.

(* ... returns exactly the topological orderings (complete and sound) ... *)
Theorem C19_toposort_all_complete_sound : forall g, wf g -> forall ord, set_order ord ->
  forall R, toposort_all_with ord g = TOk R ->
  forall l, In l R <-> topo g l.
Proof. exact toposort_all_complete_sound. Qed.
Print Assumptions C19_toposort_all_complete_sound.

(* ... each exactly once ... *)
Theorem C19_toposort_all_nodup : forall g, wf g -> forall ord, set_order ord ->
  forall R, toposort_all_with ord g = TOk R -> NoDup R.
Proof. exact toposort_all_nodup. Qed.
Print Assumptions C19_toposort_all_nodup.

(* ... and none when there is none (the graph has a cycle) *)
Theorem C19_toposort_all_cyclic_nil : forall g, wf g -> forall ord, set_order ord ->
  (forall l, ~ topo g l) -> toposort_all_with ord g = TOk [].
Proof. exact toposort_all_cyclic_nil. Qed.
Print Assumptions C19_toposort_all_cyclic_nil.

(* the instance evaluated by the correspondence check iterates sets in list order *)
Theorem C19_executable_instance :
  (forall g, toposort_all g = toposort_all_with (fun s => s) g) /\ set_order (fun s => s).
Proof. split; [reflexivity | exact set_order_id]. Qed.
Print Assumptions C19_executable_instance.

(* the single-ordering routine returns a valid ordering if and only if one exists *)
Theorem C19_toposort_total : forall g, wf g ->
  toposort g = TOk None \/ exists l, toposort g = TOk (Some l).
Proof. exact toposort_total. Qed.
Print Assumptions C19_toposort_total.

Theorem C19_toposort_sound : forall g, wf g ->
  forall l, toposort g = TOk (Some l) -> topo g l.
Proof. exact toposort_sound. Qed.
Print Assumptions C19_toposort_sound.

Theorem C19_toposort_complete : forall g, wf g ->
  toposort g = TOk None -> forall l, ~ topo g l.
Proof. exact toposort_complete. Qed.
Print Assumptions C19_toposort_complete.

(* outside the property's domain: a successor that is not a key makes both
   routines raise [KeyError] (what the malformed stream of the correspondence expects) *)
Theorem C19_toposort_keyerror : forall g, NoDup (map fst g) ->
  (exists u v, edge g u v /\ ~ In v (map fst g)) -> toposort g = TKeyError.
Proof. exact toposort_keyerror. Qed.
Print Assumptions C19_toposort_keyerror.

Theorem C19_toposort_all_keyerror : forall ord g, NoDup (map fst g) ->
  (exists u v, edge g u v /\ ~ In v (map fst g)) -> toposort_all_with ord g = TKeyError.
Proof. exact toposort_all_keyerror. Qed.
Print Assumptions C19_toposort_all_keyerror.

(* well-formedness can be tested *)
Theorem C19_wfb_wf : forall g, wfb g = true -> wf g.
Proof. exact wfb_wf. Qed.
Print Assumptions C19_wfb_wf.

(* link lemma used by C02: the precedence graph built from the leaf syntenies is
   well formed, and its topological orderings are exactly the duplicate-free
   arrangements of the gene families of which every leaf synteny is a
   sub-sequence ([Subseq] is the inductive sub-sequence relation of C18);
   [make_prec_graph] fails (IndexError) only on an empty synteny *)
Theorem C19_root_orders : forall leaves g, make_prec_graph leaves = TOk g ->
  wf g /\
  forall l, topo g l <->
    NoDup l /\
    (forall x, In x l <-> exists s, In s leaves /\ In x s) /\
    (forall s, In s leaves -> SubseqProofs.Subseq s l).
Proof. exact root_orders. Qed.
Print Assumptions C19_root_orders.

Theorem C19_make_prec_graph_total : forall leaves, (forall s, In s leaves -> s <> []) ->
  exists g, make_prec_graph leaves = TOk g.
Proof. exact make_prec_graph_total. Qed.
Print Assumptions C19_make_prec_graph_total.

(* non-vacuity: a well-formed DAG with two orderings, and a well-formed cyclic graph *)
Definition C19_diamond : graph := [(0, [1; 2]); (1, [3]); (2, [3]); (3, [])].
Definition C19_cycle : graph := [(0, [1]); (1, [2]); (2, [0]); (3, [])].

Example C19_example :
  wf C19_diamond /\
  toposort_all C19_diamond = TOk [[0; 1; 2; 3]; [0; 2; 1; 3]] /\
  toposort C19_diamond = TOk (Some [0; 1; 2; 3]) /\
  topo C19_diamond [0; 2; 1; 3] /\
  wf C19_cycle /\
  toposort_all C19_cycle = TOk [] /\
  toposort C19_cycle = TOk None /\
  (forall l, ~ topo C19_cycle l) /\
  make_prec_graph [[0; 1; 3]; [0; 2; 3]] = TOk [(0, [1; 2]); (1, [3]); (3, []); (2, [3])].
Proof.
  assert (wf C19_diamond) as W1 by (apply wfb_wf; reflexivity).
  assert (wf C19_cycle) as W2 by (apply wfb_wf; reflexivity).
  split; [exact W1|]. split; [reflexivity|]. split; [reflexivity|]. split.
  { apply (toposort_all_complete_sound C19_diamond W1 _ set_order_id _ eq_refl).
    right; left; reflexivity. }
  split; [exact W2|]. split; [reflexivity|]. split; [reflexivity|]. split.
  { apply (toposort_complete C19_cycle W2). reflexivity. }
  reflexivity.
Qed.
Print Assumptions C19_example.

(** * Tie to the source by translation (utils/toposort.py)

    [Gen/ToposortGen.v] is regenerated on every run (translator/pyfun.py, translator/toposort_gen.py): dicts are
    association lists in insertion order, the successor sets come with their recorded iteration order, the order in
    which a set built by the code is iterated is the section parameter [ord] (any function; a permutation for the
    well-formedness theorems).  The generated functions EQUAL the model: unconditionally for Kahn, and for the
    backtracking enumeration for every [ord] (results in the same order, errors included). *)

From SR Require Import Gen.ToposortGen Proofs.ToposortGenProofs.

Theorem C19_gen_toposort_eq :
  forall g : graph, cres (G.gen_toposort Nat.eqb g) = toposort g.
Proof. exact @gen_toposort_eq. Qed.
Print Assumptions C19_gen_toposort_eq.

Theorem C19_gen_toposort_all_eq :
  forall (ord : list node -> list node) (g : graph),
       toposort_all_with ord g <> TOutOfFuel ->
       cres (G.gen_toposort_all Nat.eqb ord g) = toposort_all_with ord g.
Proof. exact @gen_toposort_all_eq. Qed.
Print Assumptions C19_gen_toposort_all_eq.

Theorem C19_gen_toposort_all_wf :
  forall (ord : list node -> list node) (g : graph),
       wf g -> set_order ord -> cres (G.gen_toposort_all Nat.eqb ord g) = toposort_all_with ord g.
Proof. exact @gen_toposort_all_wf. Qed.
Print Assumptions C19_gen_toposort_all_wf.

Theorem C19_gen_toposort_all_total :
  forall (ord : list node -> list node) (g : graph),
       wf g ->
       set_order ord -> exists R : list (list nat), G.gen_toposort_all Nat.eqb ord g = G.Ok R.
Proof. exact @gen_toposort_all_total. Qed.
Print Assumptions C19_gen_toposort_all_total.

Theorem C19_gen_toposort_all_keyerror :
  forall (ord : list node -> list node) (g : graph),
       NoDup (map fst g) ->
       (exists u v : node, edge g u v /\ ~ In v (map fst g)) ->
       G.gen_toposort_all Nat.eqb ord g = G.Err G.KeyError.
Proof. exact @gen_toposort_all_keyerror. Qed.
Print Assumptions C19_gen_toposort_all_keyerror.

Theorem C19_gen_toposort_keyerror :
  forall g : graph,
       NoDup (map fst g) ->
       (exists u v : node, edge g u v /\ ~ In v (map fst g)) ->
       G.gen_toposort Nat.eqb g = G.Err G.KeyError.
Proof. exact @gen_toposort_keyerror. Qed.
Print Assumptions C19_gen_toposort_keyerror.

Theorem C19_gen_toposort_all_spec :
  forall (ord : list node -> list node) (g : graph),
       wf g ->
       set_order ord ->
       exists R : list (list nat),
         G.gen_toposort_all Nat.eqb ord g = G.Ok R /\
         NoDup R /\ (forall l : list nat, In l R <-> topo g l).
Proof. exact @gen_toposort_all_spec. Qed.
Print Assumptions C19_gen_toposort_all_spec.

Theorem C19_gen_toposort_all_perm :
  forall (ord ord' : list node -> list node) (g : graph),
       wf g ->
       set_order ord ->
       set_order ord' ->
       exists R R' : list (list nat),
         G.gen_toposort_all Nat.eqb ord g = G.Ok R /\
         G.gen_toposort_all Nat.eqb ord' g = G.Ok R' /\ Permutation R R'.
Proof. exact @gen_toposort_all_perm. Qed.
Print Assumptions C19_gen_toposort_all_perm.

Theorem C19_gen_toposort_all_list_order :
  forall g : graph,
       toposort_all g <> TOutOfFuel ->
       cres (G.gen_toposort_all Nat.eqb (fun s : list nat => s) g) = toposort_all g.
Proof. exact @gen_toposort_all_list_order. Qed.
Print Assumptions C19_gen_toposort_all_list_order.

Example C19_gen_toposort_example := gen_toposort_example.
