(** C19 — stub while the proofs are being written. *)
From Coq Require Import List.
From SR Require Import Model.Toposort.
Import ListNotations.
Example C19_example : toposort_all [(0,[1]);(1,[0])] = TOk [].
Proof. reflexivity. Qed.
Print Assumptions C19_example.
