(** C09 — results do not depend on presentation and respond sanely to the costs.
    Laws of the specification optimum of plain reconciliation ([optimal S c O r]: valid and of
    cost at most that of every valid reconciliation); they hold for what [reconcile_thl] and
    [reconcile_exhaustive] return through C01/C05. *)
From Coq Require Import List Bool ZArith.
From SR Require Import Base.PathB Base.Ext Model.Entry Model.Recon Model.Thl
  Proofs.PathFacts Proofs.ReconProofs Proofs.DpProofs Proofs.ThlProofs Proofs.ThlFinal Proofs.MetaProofs.
Import ListNotations.
Local Open Scope Z_scope.

(* multiplying every unit cost by k > 0 multiplies every cost by k and keeps the optimal set *)
Theorem C09_cost_scale : forall k c O r, cost (scale_costs k c) O r = ext_scale k (cost c O r).
Proof. exact cost_scale. Qed.
Theorem C09_opt_scale : forall k S c O r, 0 < k -> (optimal S (scale_costs k c) O r <-> optimal S c O r).
Proof. exact opt_scale. Qed.

(* raising unit costs never lowers the cost of a reconciliation, nor the minimum *)
Theorem C09_cost_monotone : forall c c' O, 0 <= c_floss c -> costs_le c c' ->
  forall r, ele (cost c O r) (cost c' O r).
Proof. exact cost_mono. Qed.
Theorem C09_opt_monotone : forall S c c' O r r', 0 <= c_floss c -> costs_le c c' ->
  optimal S c O r -> optimal S c' O r' -> ele (cost c O r) (cost c' O r').
Proof. exact opt_monotone. Qed.

(* reordering the children of any set of object-tree nodes: a cost-preserving bijection *)
Theorem C09_swap_object_children : forall S c p O r,
  optimal S c (oflip p O) (rflip p r) <-> optimal S c O r.
Proof. exact opt_swap_object_children. Qed.
Theorem C09_swap_object_children_cost : forall c p O r, cost c (oflip p O) (rflip p r) = cost c O r.
Proof. exact cost_rflip. Qed.

(* reordering the children of any set [f] of species-tree nodes: a cost-preserving bijection *)
Theorem C09_swap_species_children : forall f S c O r,
  optimal (sflip f [] S) c (omap (phi f) O) (rmap (phi f) r) <-> optimal S c O r.
Proof. exact opt_swap_species_children. Qed.
Theorem C09_swap_species_children_cost : forall f c O r,
  cost c (omap (phi f) O) (rmap (phi f) r) = cost c O r.
Proof. exact flip_cost. Qed.

(* adding an outgroup species that carries no object keeps the minimum (coherent region) *)
Theorem C09_outgroup_no_gain : forall S c O, 0 <= c_floss c -> c_spe c <= c_dup c + 2 * c_floss c ->
  forall r', valid_rec (S_out S) (omap og O) r' ->
  exists r, valid_rec S O r /\ ele (cost c O r) (cost c (omap og O) r').
Proof. exact outgroup_no_gain. Qed.
Theorem C09_opt_outgroup_cost : forall S c O r, 0 <= c_floss c -> c_spe c <= c_dup c + 2 * c_floss c ->
  optimal S c O r ->
  optimal (S_out S) c (omap og O) (rmap og r) /\ cost c (omap og O) (rmap og r) = cost c O r.
Proof. exact opt_outgroup_cost. Qed.

(* the model is a function: running it again gives the same result *)
Theorem C09_model_deterministic : forall S c rp O, reconcile_thl S c rp O = reconcile_thl S c rp O.
Proof. reflexivity. Qed.

Print Assumptions C09_opt_scale.
Print Assumptions C09_opt_monotone.
Print Assumptions C09_swap_object_children.
Print Assumptions C09_swap_species_children.
Print Assumptions C09_opt_outgroup_cost.
Print Assumptions C09_outgroup_no_gain.

(* F-OUTGROUP-TIES: with floss = 0 the optimal SET does grow (the new root hosts duplications for free) *)
Example C09_outgroup_ties_refuted :
  let S := SNode SLeaf (SNode SLeaf (SNode SLeaf SLeaf)) in
  let O := ONode (OLeaf [true; true; false] []) (OLeaf [true; true; false] []) in
  let c := {| c_spe := 0; c_dup := 2; c_hgt := Fin 0; c_floss := 0; c_sloss := 0 |} in
  length (tags (reconcile_thl S c RALL O)) = 4%nat /\
  length (tags (reconcile_thl (S_out S) c RALL (omap og O))) = 5%nat.
Proof. vm_compute. split; reflexivity. Qed.
