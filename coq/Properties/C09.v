(** C09 — results do not depend on presentation and respond sanely to the costs.
    Laws of the specification optimum of plain reconciliation ([optimal S c O r]: valid and of
    cost at most that of every valid reconciliation); they hold for what [reconcile_thl] and
    [reconcile_exhaustive] return through C01/C05. *)
From Coq Require Import List Bool ZArith.
From SR Require Import Base.PathB Base.Ext Model.Entry Model.Recon Model.Thl
  Proofs.PathFacts Proofs.ReconProofs Proofs.DpProofs Proofs.ThlProofs Proofs.ThlFinal Proofs.MetaProofs.
Import ListNotations.
Local Open Scope Z_scope.

(* multiplying every unit cost by k > 0 multiplies every cost by k and keeps the optimal set *)
Theorem C09_cost_scale : forall k c O r, cost (scale_costs k c) O r = ext_scale k (cost c O r).
Proof. exact cost_scale. Qed.
Theorem C09_opt_scale : forall k S c O r, 0 < k -> (optimal S (scale_costs k c) O r <-> optimal S c O r).
Proof. exact opt_scale. Qed.

(* raising unit costs never lowers the cost of a reconciliation, nor the minimum *)
Theorem C09_cost_monotone : forall c c' O, 0 <= c_floss c -> costs_le c c' ->
  forall r, ele (cost c O r) (cost c' O r).
Proof. exact cost_mono. Qed.
Theorem C09_opt_monotone : forall S c c' O r r', 0 <= c_floss c -> costs_le c c' ->
  optimal S c O r -> optimal S c' O r' -> ele (cost c O r) (cost c' O r').
Proof. exact opt_monotone. Qed.

(* reordering the children of any set of object-tree nodes: a cost-preserving bijection *)
Theorem C09_swap_object_children : forall S c p O r,
  optimal S c (oflip p O) (rflip p r) <-> optimal S c O r.
Proof. exact opt_swap_object_children. Qed.
Theorem C09_swap_object_children_cost : forall c p O r, cost c (oflip p O) (rflip p r) = cost c O r.
Proof. exact cost_rflip. Qed.

(* reordering the children of any set [f] of species-tree nodes: a cost-preserving bijection *)
Theorem C09_swap_species_children : forall f S c O r,
  optimal (sflip f [] S) c (omap (phi f) O) (rmap (phi f) r) <-> optimal S c O r.
Proof. exact opt_swap_species_children. Qed.
Theorem C09_swap_species_children_cost : forall f c O r,
  cost c (omap (phi f) O) (rmap (phi f) r) = cost c O r.
Proof. exact flip_cost. Qed.

(* adding an outgroup species that carries no object keeps the minimum (coherent region) *)
Theorem C09_outgroup_no_gain : forall S c O, 0 <= c_floss c -> c_spe c <= c_dup c + 2 * c_floss c ->
  forall r', valid_rec (S_out S) (omap og O) r' ->
  exists r, valid_rec S O r /\ ele (cost c O r) (cost c (omap og O) r').
Proof. exact outgroup_no_gain. Qed.
Theorem C09_opt_outgroup_cost : forall S c O r, 0 <= c_floss c -> c_spe c <= c_dup c + 2 * c_floss c ->
  optimal S c O r ->
  optimal (S_out S) c (omap og O) (rmap og r) /\ cost c (omap og O) (rmap og r) = cost c O r.
Proof. exact opt_outgroup_cost. Qed.

(* "running it again gives the same result" is NOT a theorem of this file: the model is a Gallina
   function, for which the statement is [x = x]; determinism of the implementation (hash seeds, set
   iteration order, history-dependent caches) is not a statement about a pure function.  It is exercised
   by the reruns of the correspondence batches and stays an OPEN_GOAL of harness/props/c09.py. *)

Print Assumptions C09_opt_scale.
Print Assumptions C09_opt_monotone.
Print Assumptions C09_swap_object_children.
Print Assumptions C09_swap_species_children.
Print Assumptions C09_opt_outgroup_cost.
Print Assumptions C09_outgroup_no_gain.
Print Assumptions C09_cost_scale.
Print Assumptions C09_cost_monotone.
Print Assumptions C09_swap_object_children_cost.
Print Assumptions C09_swap_species_children_cost.

(* F-OUTGROUP-TIES: with floss = 0 the optimal SET does grow (the new root hosts duplications for free) *)
Example C09_outgroup_ties_refuted :
  let S := SNode SLeaf (SNode SLeaf (SNode SLeaf SLeaf)) in
  let O := ONode (OLeaf [true; true; false] []) (OLeaf [true; true; false] []) in
  let c := {| c_spe := 0; c_dup := 2; c_hgt := Fin 0; c_floss := 0; c_sloss := 0 |} in
  length (tags (reconcile_thl S c RALL O)) = 4%nat /\
  length (tags (reconcile_thl (S_out S) c RALL (omap og O))) = 5%nat.
Proof. vm_compute. split; reflexivity. Qed.

(** * Labelled solvers, optimal sets under an outgroup, family renaming (Proofs/Meta2Proofs.v)

    Statements generated from the lemmas' types as Coq prints them; [optimal_sol] / [uoptimal] /
    [uall_optimal] are the specification optima of the ordered solver, of the unordered solver over
    canonical labellings and over all labellings; through the exactness theorems of C02/C03/C05 they
    are what the solvers return inside the coherent region (the [spfs_*] / [uspfs_*] / [thl_*]
    corollaries below state this on the solver models directly). *)
From SR Require Import Model.Spfs Model.Uspfs Proofs.SpfsProofs Proofs.SpfsFinal Proofs.UspfsProofs Proofs.UspfsFinal Proofs.Meta2Proofs.

(* adding an outgroup species keeps the optimal SET when full losses cost something (plain reconciliation, and reconcile_thl through C01); the hypothesis floss > 0 cannot be dropped *)
Theorem C09_opt_outgroup_set :
  forall (S : stree) (c : costs) (O : otree) (r' : rtree),
       nn (c_hgt c) ->
       0 < c_floss c ->
       coherent c ->
       optimal (S_out S) c (omap og O) r' -> exists r : rtree, r' = rmap og r /\ optimal S c O r.
Proof. exact @opt_outgroup_set. Qed.
Print Assumptions C09_opt_outgroup_set.

Theorem C09_opt_outgroup_iff :
  forall (S : stree) (c : costs) (O : otree) (r' : rtree),
       nn (c_hgt c) ->
       0 < c_floss c ->
       coherent c ->
       optimal (S_out S) c (omap og O) r' <-> (exists r : rtree, r' = rmap og r /\ optimal S c O r).
Proof. exact @opt_outgroup_iff. Qed.
Print Assumptions C09_opt_outgroup_iff.

Theorem C09_thl_outgroup_set :
  forall (S : stree) (c : costs) (O : otree) (r' : rtree),
       nn (c_hgt c) ->
       0 < c_floss c ->
       coherent c ->
       leaves_ok S O ->
       In r' (tags (reconcile_thl (S_out S) c RALL (omap og O))) <->
       (exists r : rtree, r' = rmap og r /\ In r (tags (reconcile_thl S c RALL O))).
Proof. exact @thl_outgroup_set. Qed.
Print Assumptions C09_thl_outgroup_set.

Theorem C09_outgroup_set_needs_floss :
  let S := SLeaf in
       let O := ONode (OLeaf [] []) (OLeaf [] []) in
       let c := {| c_spe := 0; c_dup := 1; c_hgt := Fin 1; c_floss := 0; c_sloss := 0 |} in
       let r' := RNode [] (RLeaf [false]) (RLeaf [false]) in
       coherent c /\
       0 <= c_floss c /\ optimal (S_out S) c (omap og O) r' /\ ~ (exists r : rtree, r' = rmap og r).
Proof. exact @outgroup_set_needs_floss. Qed.
Print Assumptions C09_outgroup_set_needs_floss.

(* scaling all unit costs, labelled evaluators and labelled optimal sets (ordered, unordered canonical, unordered over all labellings) *)
Theorem C09_total_cost_scale :
  forall (k : Z) (c : costs) (O : otree) (ordered : bool) (t : ltree),
       total_cost (scale_costs k c) O ordered t =
       option_map (ext_scale k) (total_cost c O ordered t).
Proof. exact @total_cost_scale. Qed.
Print Assumptions C09_total_cost_scale.

Theorem C09_cost_of_scale :
  forall (k : Z) (c : costs) (O : otree) (lt : ltree),
       cost_of (scale_costs k c) O lt = ext_scale k (cost_of c O lt).
Proof. exact @cost_of_scale. Qed.
Print Assumptions C09_cost_of_scale.

Theorem C09_ucost_scale :
  forall (k : Z) (c : costs) (O : otree) (t : ltree),
       ucost (scale_costs k c) O t = ext_scale k (ucost c O t).
Proof. exact @ucost_scale. Qed.
Print Assumptions C09_ucost_scale.

Theorem C09_optimal_sol_scale :
  forall (k : Z) (S : stree) (c : costs) (extended : bool) (orders : list (list fam))
         (O : otree) (lt : ltree),
       0 < k ->
       optimal_sol S (scale_costs k c) extended orders O lt <->
       optimal_sol S c extended orders O lt.
Proof. exact @optimal_sol_scale. Qed.
Print Assumptions C09_optimal_sol_scale.

Theorem C09_uoptimal_scale :
  forall (k : Z) (S : stree) (c : costs) (extended : bool) (O : otree) (t : ltree),
       0 < k -> uoptimal S (scale_costs k c) extended O t <-> uoptimal S c extended O t.
Proof. exact @uoptimal_scale. Qed.
Print Assumptions C09_uoptimal_scale.

Theorem C09_uall_optimal_scale :
  forall (k : Z) (S : stree) (c : costs) (extended : bool) (O : otree) (t : ltree),
       0 < k -> uall_optimal S (scale_costs k c) extended O t <-> uall_optimal S c extended O t.
Proof. exact @uall_optimal_scale. Qed.
Print Assumptions C09_uall_optimal_scale.

Theorem C09_spfs_scale :
  forall (k : Z) (S : stree) (c : costs) (extended : bool) (orders : list (list fam))
         (O : otree) (e e' : entry ltree) (lt : ltree),
       0 < k ->
       nn (c_hgt c) ->
       coherent_ord c ->
       orders_ok S O orders ->
       spfs S c RALL extended orders O = Some e ->
       spfs S (scale_costs k c) RALL extended orders O = Some e' ->
       In lt (tags e') <-> In lt (tags e).
Proof. exact @spfs_scale. Qed.
Print Assumptions C09_spfs_scale.

(* raising unit costs never lowers a labelled cost nor a labelled minimum *)
Theorem C09_ucost_mono :
  forall (c c' : costs) (O : otree) (t : ltree),
       0 <= c_floss c -> costs_le c c' -> ele (ucost c O t) (ucost c' O t).
Proof. exact @ucost_mono. Qed.
Print Assumptions C09_ucost_mono.

Theorem C09_uopt_monotone :
  forall (S : stree) (c c' : costs) (extended : bool) (O : otree) (t t' : ltree),
       0 <= c_floss c ->
       costs_le c c' ->
       uoptimal S c extended O t ->
       uoptimal S c' extended O t' -> ele (ucost c O t) (ucost c' O t').
Proof. exact @uopt_monotone. Qed.
Print Assumptions C09_uopt_monotone.

Theorem C09_uall_opt_monotone :
  forall (S : stree) (c c' : costs) (extended : bool) (O : otree) (t t' : ltree),
       0 <= c_floss c ->
       costs_le c c' ->
       uall_optimal S c extended O t ->
       uall_optimal S c' extended O t' -> ele (ucost c O t) (ucost c' O t').
Proof. exact @uall_opt_monotone. Qed.
Print Assumptions C09_uall_opt_monotone.

Theorem C09_cost_of_mono :
  forall (c c' : costs) (S : stree) (ord : list fam) (O : otree) (t : ltree),
       NoDup ord ->
       leaves_ord S ord O ->
       valid_ordered S ord O t ->
       0 <= c_floss c -> costs_le c c' -> ele (cost_of c O t) (cost_of c' O t).
Proof. exact @cost_of_mono. Qed.
Print Assumptions C09_cost_of_mono.

Theorem C09_sopt_monotone :
  forall (S : stree) (c c' : costs) (extended : bool) (orders : list (list fam)) 
         (O : otree) (lt lt' : ltree),
       orders_ok S O orders ->
       0 <= c_floss c ->
       costs_le c c' ->
       optimal_sol S c extended orders O lt ->
       optimal_sol S c' extended orders O lt' -> ele (cost_of c O lt) (cost_of c' O lt').
Proof. exact @sopt_monotone. Qed.
Print Assumptions C09_sopt_monotone.

(* reordering object-tree children, labelled solutions: cost-preserving bijection on optimal sets *)
Theorem C09_total_cost_lflip :
  forall (c : costs) (p : plan) (O : otree) (ordered : bool) (t : ltree),
       total_cost c (oflip p O) ordered (lflip p t) = total_cost c O ordered t.
Proof. exact @total_cost_lflip. Qed.
Print Assumptions C09_total_cost_lflip.

Theorem C09_optimal_sol_lflip :
  forall (S : stree) (c : costs) (extended : bool) (orders : list (list fam)) 
         (p : plan) (O : otree) (lt : ltree),
       optimal_sol S c extended orders (oflip p O) (lflip p lt) <->
       optimal_sol S c extended orders O lt.
Proof. exact @optimal_sol_lflip. Qed.
Print Assumptions C09_optimal_sol_lflip.

Theorem C09_uall_optimal_lflip :
  forall (S : stree) (c : costs) (extended : bool) (p : plan) (O : otree) (t : ltree),
       uall_optimal S c extended (oflip p O) (lflip p t) <-> uall_optimal S c extended O t.
Proof. exact @uall_optimal_lflip. Qed.
Print Assumptions C09_uall_optimal_lflip.

Theorem C09_uoptimal_lflip :
  forall (S : stree) (c : costs) (extended : bool) (p : plan) (O : otree) (t : ltree),
       uoptimal S c extended (oflip p O) (lflip p t) <-> uoptimal S c extended O t.
Proof. exact @uoptimal_lflip. Qed.
Print Assumptions C09_uoptimal_lflip.

Theorem C09_spfs_swap_object_children :
  forall (S : stree) (c : costs) (extended : bool) (orders : list (list fam)) 
         (p : plan) (O : otree) (e e' : entry ltree) (lt : ltree),
       nn (c_hgt c) ->
       coherent_ord c ->
       orders_ok S O orders ->
       spfs S c RALL extended orders O = Some e ->
       spfs S c RALL extended orders (oflip p O) = Some e' ->
       In (lflip p lt) (tags e') <-> In lt (tags e).
Proof. exact @spfs_swap_object_children. Qed.
Print Assumptions C09_spfs_swap_object_children.

Theorem C09_uspfs_swap_object_children :
  forall (S : stree) (c : costs) (extended : bool) (p : plan) (O : otree),
       nn (c_hgt c) ->
       ucoherent c ->
       leaves_ok S O ->
       exists E E' : entry ltree,
         uspfs S c RALL extended O = Some E /\
         uspfs S c RALL extended (oflip p O) = Some E' /\
         (forall t : ltree, In (lflip p t) (tags E') <-> In t (tags E)).
Proof. exact @uspfs_swap_object_children. Qed.
Print Assumptions C09_uspfs_swap_object_children.

(* exchanging species-tree children, labelled solutions *)
Theorem C09_total_cost_swap_species :
  forall (f : path -> bool) (c : costs) (O : otree) (ordered : bool) (t : ltree),
       total_cost c (omap (phi f) O) ordered (lmap (phi f) t) = total_cost c O ordered t.
Proof. exact @total_cost_swap_species. Qed.
Print Assumptions C09_total_cost_swap_species.

Theorem C09_optimal_sol_swap_species :
  forall (f : path -> bool) (S : stree) (c : costs) (extended : bool)
         (orders : list (list fam)) (O : otree) (lt : ltree),
       optimal_sol (sflip f [] S) c extended orders (omap (phi f) O) (lmap (phi f) lt) <->
       optimal_sol S c extended orders O lt.
Proof. exact @optimal_sol_swap_species. Qed.
Print Assumptions C09_optimal_sol_swap_species.

Theorem C09_uall_optimal_swap_species :
  forall (f : path -> bool) (S : stree) (c : costs) (extended : bool) (O : otree) (t : ltree),
       uall_optimal (sflip f [] S) c extended (omap (phi f) O) (lmap (phi f) t) <->
       uall_optimal S c extended O t.
Proof. exact @uall_optimal_swap_species. Qed.
Print Assumptions C09_uall_optimal_swap_species.

Theorem C09_uoptimal_swap_species :
  forall (f : path -> bool) (S : stree) (c : costs) (extended : bool) (O : otree) (t : ltree),
       uoptimal (sflip f [] S) c extended (omap (phi f) O) (lmap (phi f) t) <->
       uoptimal S c extended O t.
Proof. exact @uoptimal_swap_species. Qed.
Print Assumptions C09_uoptimal_swap_species.

(* renaming gene families by any bijection *)
Theorem C09_ucost_lren :
  forall g : fam -> fam,
       (forall x y : fam, g x = g y -> x = y) ->
       forall (c : costs) (O : otree) (t : ltree), ucost c (oren g O) (lren g t) = ucost c O t.
Proof. exact @ucost_lren. Qed.
Print Assumptions C09_ucost_lren.

Theorem C09_uall_optimal_lren :
  forall (g h : fam -> fam) (S : stree) (c : costs) (extended : bool) (O : otree) (t : ltree),
       (forall x : fam, h (g x) = x) ->
       (forall x : fam, g (h x) = x) ->
       uall_optimal S c extended O t -> uall_optimal S c extended (oren g O) (lren g t).
Proof. exact @uall_optimal_lren. Qed.
Print Assumptions C09_uall_optimal_lren.

Theorem C09_uall_optimal_lren_back :
  forall (g h : fam -> fam) (S : stree) (c : costs) (extended : bool) (O : otree) (t' : ltree),
       (forall x : fam, h (g x) = x) ->
       (forall x : fam, g (h x) = x) ->
       uall_optimal S c extended (oren g O) t' ->
       exists t : ltree, t' = lren g t /\ uall_optimal S c extended O t.
Proof. exact @uall_optimal_lren_back. Qed.
Print Assumptions C09_uall_optimal_lren_back.

Theorem C09_uoptimal_lren :
  forall (g h : fam -> fam) (S : stree) (c : costs) (extended : bool) (O : otree) (t : ltree),
       (forall x : fam, h (g x) = x) ->
       (forall x : fam, g (h x) = x) ->
       uoptimal S c extended O t -> uoptimal S c extended (oren g O) (lren g t).
Proof. exact @uoptimal_lren. Qed.
Print Assumptions C09_uoptimal_lren.

Theorem C09_uoptimal_lren_back :
  forall (g h : fam -> fam) (S : stree) (c : costs) (extended : bool) (O : otree) (t' : ltree),
       (forall x : fam, h (g x) = x) ->
       (forall x : fam, g (h x) = x) ->
       uoptimal S c extended (oren g O) t' ->
       exists t : ltree, t' = lren g t /\ uoptimal S c extended O t.
Proof. exact @uoptimal_lren_back. Qed.
Print Assumptions C09_uoptimal_lren_back.

Theorem C09_total_cost_lmapf :
  forall g : fam -> fam,
       (forall x y : fam, g x = g y -> x = y) ->
       forall (c : costs) (O : otree) (t : ltree),
       total_cost c (oren g O) true (lmapf g t) = total_cost c O true t.
Proof. exact @total_cost_lmapf. Qed.
Print Assumptions C09_total_cost_lmapf.

Theorem C09_optimal_sol_lmapf :
  forall (g h : fam -> fam) (S : stree) (c : costs) (extended : bool)
         (orders : list (list fam)) (O : otree) (lt : ltree),
       (forall x : fam, h (g x) = x) ->
       (forall x : fam, g (h x) = x) ->
       optimal_sol S c extended orders O lt ->
       optimal_sol S c extended (map (map g) orders) (oren g O) (lmapf g lt).
Proof. exact @optimal_sol_lmapf. Qed.
Print Assumptions C09_optimal_sol_lmapf.

Theorem C09_optimal_sol_lmapf_back :
  forall (g h : fam -> fam) (S : stree) (c : costs) (extended : bool)
         (orders : list (list fam)) (O : otree) (lt' : ltree),
       (forall x : fam, h (g x) = x) ->
       (forall x : fam, g (h x) = x) ->
       optimal_sol S c extended (map (map g) orders) (oren g O) lt' ->
       exists lt : ltree, lt' = lmapf g lt /\ optimal_sol S c extended orders O lt.
Proof. exact @optimal_sol_lmapf_back. Qed.
Print Assumptions C09_optimal_sol_lmapf_back.

(* outgroup, labelled solutions: the minimum is kept (coherent region), the optimal set too when floss > 0 and transfers are finite *)
Theorem C09_optimal_sol_outgroup :
  forall (S : stree) (c : costs) (extended : bool) (orders : list (list fam)) (O : otree),
       coherent_ord c ->
       orders_ok S O orders ->
       forall lt : ltree,
       optimal_sol S c extended orders O lt ->
       optimal_sol (S_out S) c extended orders (omap og O) (lmap og lt) /\
       cost_of c (omap og O) (lmap og lt) = cost_of c O lt.
Proof. exact @optimal_sol_outgroup. Qed.
Print Assumptions C09_optimal_sol_outgroup.

Theorem C09_optimal_sol_outgroup_back :
  forall (S : stree) (c : costs) (extended : bool) (orders : list (list fam)) 
         (O : otree) (lt : ltree),
       optimal_sol (S_out S) c extended orders (omap og O) (lmap og lt) ->
       sol S extended orders O lt -> optimal_sol S c extended orders O lt.
Proof. exact @optimal_sol_outgroup_back. Qed.
Print Assumptions C09_optimal_sol_outgroup_back.

Theorem C09_optimal_sol_outgroup_set :
  forall (S : stree) (c : costs) (extended : bool) (orders : list (list fam)) 
         (O : otree) (lt' : ltree),
       nn (c_hgt c) ->
       0 < c_floss c ->
       coherent_ord c ->
       orders_ok S O orders ->
       optimal_sol (S_out S) c extended orders (omap og O) lt' ->
       exists lt : ltree, lt' = lmap og lt /\ optimal_sol S c extended orders O lt.
Proof. exact @optimal_sol_outgroup_set. Qed.
Print Assumptions C09_optimal_sol_outgroup_set.

Theorem C09_optimal_sol_outgroup_iff :
  forall (S : stree) (c : costs) (extended : bool) (orders : list (list fam)) 
         (O : otree) (lt' : ltree),
       nn (c_hgt c) ->
       0 < c_floss c ->
       coherent_ord c ->
       orders_ok S O orders ->
       optimal_sol (S_out S) c extended orders (omap og O) lt' <->
       (exists lt : ltree, lt' = lmap og lt /\ optimal_sol S c extended orders O lt).
Proof. exact @optimal_sol_outgroup_iff. Qed.
Print Assumptions C09_optimal_sol_outgroup_iff.

Theorem C09_uall_optimal_outgroup :
  forall (S : stree) (c : costs) (extended : bool) (O : otree),
       ucoherent c ->
       forall t : ltree,
       uall_optimal S c extended O t ->
       uall_optimal (S_out S) c extended (omap og O) (lmap og t) /\
       ucost c (omap og O) (lmap og t) = ucost c O t.
Proof. exact @uall_optimal_outgroup. Qed.
Print Assumptions C09_uall_optimal_outgroup.

Theorem C09_uoptimal_outgroup :
  forall (S : stree) (c : costs) (extended : bool) (O : otree),
       ucoherent c ->
       forall t : ltree,
       uoptimal S c extended O t ->
       uoptimal (S_out S) c extended (omap og O) (lmap og t) /\
       ucost c (omap og O) (lmap og t) = ucost c O t.
Proof. exact @uoptimal_outgroup. Qed.
Print Assumptions C09_uoptimal_outgroup.

Theorem C09_uall_optimal_outgroup_set :
  forall (S : stree) (c : costs) (extended : bool) (O : otree),
       ucoherent c ->
       nn (c_hgt c) ->
       0 < c_floss c ->
       forall t' : ltree,
       uall_optimal (S_out S) c extended (omap og O) t' ->
       exists t : ltree, t' = lmap og t /\ uall_optimal S c extended O t.
Proof. exact @uall_optimal_outgroup_set. Qed.
Print Assumptions C09_uall_optimal_outgroup_set.

Theorem C09_uoptimal_outgroup_set :
  forall (S : stree) (c : costs) (extended : bool) (O : otree),
       ucoherent c ->
       nn (c_hgt c) ->
       0 < c_floss c ->
       forall t' : ltree,
       uoptimal (S_out S) c extended (omap og O) t' ->
       exists t : ltree, t' = lmap og t /\ uoptimal S c extended O t.
Proof. exact @uoptimal_outgroup_set. Qed.
Print Assumptions C09_uoptimal_outgroup_set.

Theorem C09_spfs_outgroup_set :
  forall (S : stree) (c : costs) (extended : bool) (orders : list (list fam)) 
         (O : otree) (e e' : entry ltree) (lt' : ltree),
       nn (c_hgt c) ->
       0 < c_floss c ->
       coherent_ord c ->
       orders_ok S O orders ->
       spfs S c RALL extended orders O = Some e ->
       spfs (S_out S) c RALL extended orders (omap og O) = Some e' ->
       In lt' (tags e') <-> (exists lt : ltree, lt' = lmap og lt /\ In lt (tags e)).
Proof. exact @spfs_outgroup_set. Qed.
Print Assumptions C09_spfs_outgroup_set.

Theorem C09_uspfs_outgroup_set :
  forall (S : stree) (c : costs) (extended : bool) (O : otree),
       nn (c_hgt c) ->
       0 < c_floss c ->
       ucoherent c ->
       leaves_ok S O ->
       exists E E' : entry ltree,
         uspfs S c RALL extended O = Some E /\
         uspfs (S_out S) c RALL extended (omap og O) = Some E' /\
         (forall t' : ltree,
          In t' (tags E') <-> (exists t : ltree, t' = lmap og t /\ In t (tags E))).
Proof. exact @uspfs_outgroup_set. Qed.
Print Assumptions C09_uspfs_outgroup_set.
