(** C04 — every returned solution is a valid, complete reconciliation of finite cost.
    No hypothesis on the unit costs anywhere in this file beyond "the transfer cost is not -inf"
    ([nn (c_hgt c)]: it is a finite integer or +inf): the finite unit costs are arbitrary integers,
    no coherence condition, the transfer cost may be +inf. *)
From Coq Require Import List Bool ZArith Lia.
From SR Require Import Base.PathB Base.Ext Model.Entry Model.Recon Model.LcaRec Model.Thl
  Proofs.ReconProofs Proofs.LcaProofs Proofs.ExhProofs Proofs.ThlProofs Proofs.ThlFinal.
Import ListNotations.

(* [valid_rec S O r]: r has the shape of O (every object node is mapped), every leaf sits on its
   given species, every species is a node of S, no node carries an invalid event *)
Theorem C04_valid_thl : forall S c rp O r, nn (c_hgt c) -> leaves_ok S O ->
  In r (tags (reconcile_thl S c rp O)) -> valid_rec S O r.
Proof. exact thl_valid. Qed.
Print Assumptions C04_valid_thl.

Theorem C04_valid_exhaustive : forall S c rp O r, leaves_ok S O ->
  In r (tags (reconcile_exhaustive c rp O)) -> valid_rec S O r.
Proof.
  intros S c rp O r L H. unfold reconcile_exhaustive in H.
  apply (upd_tags_sound rtree_eqb rtree_eqb_spec) in H.
  apply in_map_iff in H as [x [E I]]. inversion E; subst. now apply (gen_all_spec S O L).
Qed.
Print Assumptions C04_valid_exhaustive.

Theorem C04_valid_lca : forall S O, leaves_ok S O -> valid_rec S O (lca_rec O).
Proof. intros S O L. exact (proj1 (lca_valid S O L)). Qed.
Print Assumptions C04_valid_lca.

(* a valid reconciliation has a finite cost as soon as the transfer cost is finite (whether or not
   it contains a transfer); the case of an infinite transfer cost is [C04_finite_*] below *)
Theorem C04_finite_cost : forall c S O r, valid_rec S O r -> c_hgt c <> PInf -> nn (c_hgt c) ->
  exists z, cost c O r = Fin z.
Proof.
  intros c S O r V Hp Hn. induction V as [sp syn Hs|a b s ra rb Hs He Va [za Ea] Vb [zb Eb]].
  - exists 0%Z. simpl. destruct (path_eqb_spec sp sp); congruence.
  - cbn [cost]. rewrite Ea, Eb. unfold ecost.
    destruct (c_hgt c) as [|h|] eqn:Eh; [exfalso; now apply Hn| |congruence].
    destruct (event s (root ra) (root rb)); try congruence; simpl; eauto.
Qed.
Print Assumptions C04_finite_cost.

(** the four labelled solvers (no hypothesis on the unit costs either) *)
From SR Require Import Model.Subseq Model.Spfs Model.Uspfs Proofs.SubseqProofs Proofs.LabelCostProofs
  Proofs.SpfsProofs Proofs.SpfsFinal Proofs.UspfsProofs Proofs.UspfsFinal.

(* base/extended SPFS: every returned labelled tree has the shape of O, leaves on their species with
   exactly their input syntenies, species of S only, no invalid event, every child synteny a subsequence
   of its parent's, the root synteny is one of the root orders (every family once); the evaluator does
   not fail on it and its cost is the value of the result *)
Theorem C04_valid_ordered : forall S c rp extended orders O e lt, nn (c_hgt c) -> orders_ok S O orders ->
  spfs S c rp extended orders O = Some e -> In lt (tags e) ->
  exists ord, In ord orders /\ valid_ordered S ord O lt /\ mapping_ok extended O lt /\
              total_cost c O true lt = Some (val e).
Proof. exact spfs_valid. Qed.
Print Assumptions C04_valid_ordered.

(* base/extended USPFS: shape, leaves, species, events; a family occurs only inside the subtree of its gain
   node (the LCA of the leaves carrying it) and at every node of the branch from that node down to it *)
Theorem C04_valid_unordered : forall S c rp extended O, nn (c_hgt c) -> leaves_ok S O ->
  exists E, uspfs S c rp extended O = Some E /\
    forall t, In t (tags E) ->
      uvalid S O t /\ ushape O t /\ all_sorted t /\ valid_rec S O (forget t) /\ events_valid t /\
      total_cost c O false t = Some (ucost c O t) /\
      (forall p tp f, lsub t p = Some tp -> In f (lsyn tp) ->
         exists g, anc g p = true /\ is_lca_of_carriers O f g /\ holds_on t f g p).
Proof. exact uspfs_valid_full. Qed.
Print Assumptions C04_valid_unordered.

(** ** "has finite cost", for every cost vector including an infinite transfer cost
    (Proofs/FiniteCostProofs.v).  With [c_hgt c = PInf] a valid reconciliation that contains a
    transfer costs +inf, so these theorems also say that no returned solution contains a transfer then.
    The cost of every returned solution is the value of the result entry. *)
From SR Require Import Proofs.FiniteCostProofs.

Theorem C04_finite_lca : forall c S O, leaves_ok S O -> cost c O (lca_rec O) = Fin (costDL c (lca_rec O)).
Proof. exact lca_finite. Qed.
Print Assumptions C04_finite_lca.

Theorem C04_finite_thl : forall S c rp O r, nn (c_hgt c) -> leaves_ok S O ->
  In r (tags (reconcile_thl S c rp O)) ->
  exists z, cost c O r = Fin z /\ val (reconcile_thl S c rp O) = Fin z.
Proof. exact thl_finite. Qed.
Print Assumptions C04_finite_thl.

Theorem C04_finite_exhaustive : forall S c rp O r, nn (c_hgt c) -> leaves_ok S O ->
  In r (tags (reconcile_exhaustive c rp O)) ->
  exists z, cost c O r = Fin z /\ val (reconcile_exhaustive c rp O) = Fin z.
Proof. exact exh_finite. Qed.
Print Assumptions C04_finite_exhaustive.

(* base/extended SPFS: the evaluator does not fail on a returned solution ([Some]) and its total cost is finite *)
Theorem C04_finite_ordered : forall S c rp extended orders O e lt, nn (c_hgt c) -> orders_ok S O orders ->
  spfs S c rp extended orders O = Some e -> In lt (tags e) ->
  exists z, total_cost c O true lt = Some (Fin z) /\ val e = Fin z.
Proof. exact spfs_finite. Qed.
Print Assumptions C04_finite_ordered.

(* base/extended USPFS *)
Theorem C04_finite_unordered : forall S c rp extended O E t, nn (c_hgt c) -> leaves_ok S O ->
  uspfs S c rp extended O = Some E -> In t (tags E) ->
  exists z, total_cost c O false t = Some (Fin z) /\ ucost c O t = Fin z /\ val E = Fin z.
Proof. exact uspfs_finite. Qed.
Print Assumptions C04_finite_unordered.

(** ** inputs with polytomies (extended solvers; Model/Poly.v, Proofs/PolyBoundProofs.v): every returned
    tag (index of a refinement pair, labelled tree) is a valid solution of that pair of binary
    refinements of the two input trees, with the leaf data found by name; the evaluator does not fail
    on it and its cost is finite and is the value of the result.  Any policy, any unit costs.
    (What "refines" guarantees -- binary, same clades, names and colours kept -- is C08.) *)
From SR Require Import Model.Binarize Model.Poly Proofs.BinarizeProofs Proofs.PolyProofs Proofs.PolyBoundProofs.

Theorem C04_valid_poly_ordered : forall c ld o s, nn (c_hgt c) ->
  forall rp e i lt, poly_wf nonempty_syn ld o s ->
  spfs_poly c rp ld o s = Some e -> In (i, lt) (tags e) ->
  exists ob sb p ord, tag_pair o s (i, lt) = Some (ob, sb) /\ refines o ob /\ refines s sb /\
    pair_input ld (ob, sb) = Some p /\ Spfs.root_orders (snd p) <> None /\ In ord (orders_of (snd p)) /\
    valid_ordered (fst p) ord (snd p) lt /\
    exists z, total_cost c (snd p) true lt = Some (Fin z) /\ val e = Fin z.
Proof. exact poly_solutions_valid_ordered. Qed.
Print Assumptions C04_valid_poly_ordered.

Theorem C04_valid_poly_unordered : forall c ld o s, nn (c_hgt c) ->
  forall rp e i t, poly_wf any_syn ld o s ->
  uspfs_poly c rp ld o s = Some e -> In (i, t) (tags e) ->
  exists ob sb p, tag_pair o s (i, t) = Some (ob, sb) /\ refines o ob /\ refines s sb /\
    pair_input ld (ob, sb) = Some p /\ uvalid (fst p) (snd p) t /\
    exists z, total_cost c (snd p) false t = Some (Fin z) /\ val e = Fin z.
Proof. exact poly_solutions_valid_unordered. Qed.
Print Assumptions C04_valid_poly_unordered.

(** ** non-vacuity.  An INCOHERENT cost vector with an infinite transfer cost (spe = 5 > dup + 2 floss = 2):
    the hypotheses of every theorem of this file hold and the results are not empty, so the
    "for every returned solution" statements are about something. *)
Example C04_example_plain :
  let S := SNode SLeaf (SNode SLeaf (SNode SLeaf SLeaf)) in
  let O := ONode (OLeaf [false] []) (ONode (OLeaf [true; true; true] [])
                 (ONode (OLeaf [true; false] []) (OLeaf [true; true; false] []))) in
  let c := {| c_spe := 5; c_dup := 0; c_hgt := PInf; c_floss := 1; c_sloss := 0 |} in
  nn (c_hgt c) /\ leaves_ok S O /\ ~ (c_spe c <= c_dup c + 2 * c_floss c)%Z /\
  (length (tags (reconcile_thl S c RALL O)) = 1 /\ val (reconcile_thl S c RALL O) = Fin 13) /\
  (length (tags (reconcile_exhaustive c RALL O)) = 1 /\ val (reconcile_exhaustive c RALL O) = Fin 9) /\
  cost c O (lca_rec O) = Fin 13.
Proof.
  cbv zeta. split; [discriminate|]. split; [cbn; tauto|]. split; [cbn; lia|]. repeat split; vm_compute; reflexivity.
Qed.

Example C04_example_labelled :
  let S := SNode SLeaf (SNode SLeaf SLeaf) in
  let O := ONode (OLeaf [false] [1; 2]%N) (ONode (OLeaf [true; false] [2; 3]%N) (OLeaf [true; true] [1; 3]%N)) in
  let c := {| c_spe := 5; c_dup := 0; c_hgt := PInf; c_floss := 1; c_sloss := 2 |} in
  nn (c_hgt c) /\ orders_ok S O [[1; 2; 3]%N] /\ leaves_ok S O /\
  option_map (fun e => (val e, length (tags e))) (spfs S c RALL true [[1; 2; 3]%N] O) = Some (Fin 16, 1) /\
  option_map (fun e => (val e, length (tags e))) (spfs S c RALL false [[1; 2; 3]%N] O) = Some (Fin 16, 1) /\
  option_map (fun e => (val e, length (tags e))) (uspfs S c RALL true O) = Some (Fin 14, 1) /\
  option_map (fun e => (val e, length (tags e))) (uspfs S c RALL false O) = Some (Fin 14, 1).
Proof.
  cbv zeta. split; [discriminate|]. split; [|split; [cbn; tauto|repeat split; vm_compute; reflexivity]].
  refine (proj1 (root_orders_ok _ _ _ _ _)); [cbn; repeat split; discriminate|vm_compute; reflexivity].
Qed.

(* polytomies: the 4-leaf star over a 3-leaf star of C08 (45 refinement pairs) satisfies [poly_wf] *)
Example C04_example_poly := poly_example.
