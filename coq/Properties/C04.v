(** C04 — every returned solution is a valid, complete reconciliation.
    Proved here for the plain solvers, with no hypothesis on the unit costs. *)
From Coq Require Import List Bool ZArith.
From SR Require Import Base.PathB Base.Ext Model.Entry Model.Recon Model.LcaRec Model.Thl
  Proofs.ReconProofs Proofs.LcaProofs Proofs.ExhProofs Proofs.ThlProofs Proofs.ThlFinal.
Import ListNotations.

(* [valid_rec S O r]: r has the shape of O (every object node is mapped), every leaf sits on its
   given species, every species is a node of S, no node carries an invalid event *)
Theorem C04_valid_thl : forall S c rp O r, nn (c_hgt c) -> leaves_ok S O ->
  In r (tags (reconcile_thl S c rp O)) -> valid_rec S O r.
Proof. exact thl_valid. Qed.
Print Assumptions C04_valid_thl.

Theorem C04_valid_exhaustive : forall S c rp O r, leaves_ok S O ->
  In r (tags (reconcile_exhaustive c rp O)) -> valid_rec S O r.
Proof.
  intros S c rp O r L H. unfold reconcile_exhaustive in H.
  apply (upd_tags_sound rtree_eqb rtree_eqb_spec) in H.
  apply in_map_iff in H as [x [E I]]. inversion E; subst. now apply (gen_all_spec S O L).
Qed.
Print Assumptions C04_valid_exhaustive.

Theorem C04_valid_lca : forall S O, leaves_ok S O -> valid_rec S O (lca_rec O).
Proof. intros S O L. exact (proj1 (lca_valid S O L)). Qed.
Print Assumptions C04_valid_lca.

(* a valid reconciliation without transfer has a finite cost; with transfers the cost is finite
   as soon as the transfer cost is *)
Theorem C04_finite_cost : forall c S O r, valid_rec S O r -> c_hgt c <> PInf -> nn (c_hgt c) ->
  exists z, cost c O r = Fin z.
Proof.
  intros c S O r V Hp Hn. induction V as [sp syn Hs|a b s ra rb Hs He Va [za Ea] Vb [zb Eb]].
  - exists 0%Z. simpl. destruct (path_eqb_spec sp sp); congruence.
  - cbn [cost]. rewrite Ea, Eb. unfold ecost.
    destruct (c_hgt c) as [|h|] eqn:Eh; [exfalso; now apply Hn| |congruence].
    destruct (event s (root ra) (root rb)); try congruence; simpl; eauto.
Qed.
Print Assumptions C04_finite_cost.
