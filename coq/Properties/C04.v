(** C04 — every returned solution is a valid, complete reconciliation.
    Proved here for the plain solvers, with no hypothesis on the unit costs. *)
From Coq Require Import List Bool ZArith.
From SR Require Import Base.PathB Base.Ext Model.Entry Model.Recon Model.LcaRec Model.Thl
  Proofs.ReconProofs Proofs.LcaProofs Proofs.ExhProofs Proofs.ThlProofs Proofs.ThlFinal.
Import ListNotations.

(* [valid_rec S O r]: r has the shape of O (every object node is mapped), every leaf sits on its
   given species, every species is a node of S, no node carries an invalid event *)
Theorem C04_valid_thl : forall S c rp O r, nn (c_hgt c) -> leaves_ok S O ->
  In r (tags (reconcile_thl S c rp O)) -> valid_rec S O r.
Proof. exact thl_valid. Qed.
Print Assumptions C04_valid_thl.

Theorem C04_valid_exhaustive : forall S c rp O r, leaves_ok S O ->
  In r (tags (reconcile_exhaustive c rp O)) -> valid_rec S O r.
Proof.
  intros S c rp O r L H. unfold reconcile_exhaustive in H.
  apply (upd_tags_sound rtree_eqb rtree_eqb_spec) in H.
  apply in_map_iff in H as [x [E I]]. inversion E; subst. now apply (gen_all_spec S O L).
Qed.
Print Assumptions C04_valid_exhaustive.

Theorem C04_valid_lca : forall S O, leaves_ok S O -> valid_rec S O (lca_rec O).
Proof. intros S O L. exact (proj1 (lca_valid S O L)). Qed.
Print Assumptions C04_valid_lca.

(* a valid reconciliation without transfer has a finite cost; with transfers the cost is finite
   as soon as the transfer cost is *)
Theorem C04_finite_cost : forall c S O r, valid_rec S O r -> c_hgt c <> PInf -> nn (c_hgt c) ->
  exists z, cost c O r = Fin z.
Proof.
  intros c S O r V Hp Hn. induction V as [sp syn Hs|a b s ra rb Hs He Va [za Ea] Vb [zb Eb]].
  - exists 0%Z. simpl. destruct (path_eqb_spec sp sp); congruence.
  - cbn [cost]. rewrite Ea, Eb. unfold ecost.
    destruct (c_hgt c) as [|h|] eqn:Eh; [exfalso; now apply Hn| |congruence].
    destruct (event s (root ra) (root rb)); try congruence; simpl; eauto.
Qed.
Print Assumptions C04_finite_cost.

(** the four labelled solvers (no hypothesis on the unit costs either) *)
From SR Require Import Model.Subseq Model.Spfs Model.Uspfs Proofs.SubseqProofs Proofs.LabelCostProofs
  Proofs.SpfsProofs Proofs.SpfsFinal Proofs.UspfsProofs Proofs.UspfsFinal.

(* base/extended SPFS: every returned labelled tree has the shape of O, leaves on their species with
   exactly their input syntenies, species of S only, no invalid event, every child synteny a subsequence
   of its parent's, the root synteny is one of the root orders (every family once); the evaluator does
   not fail on it and its cost is the value of the result *)
Theorem C04_valid_ordered : forall S c rp extended orders O e lt, nn (c_hgt c) -> orders_ok S O orders ->
  spfs S c rp extended orders O = Some e -> In lt (tags e) ->
  exists ord, In ord orders /\ valid_ordered S ord O lt /\ mapping_ok extended O lt /\
              total_cost c O true lt = Some (val e).
Proof. exact spfs_valid. Qed.
Print Assumptions C04_valid_ordered.

(* base/extended USPFS: shape, leaves, species, events; a family occurs only inside the subtree of its gain
   node (the LCA of the leaves carrying it) and at every node of the branch from that node down to it *)
Theorem C04_valid_unordered : forall S c rp extended O, nn (c_hgt c) -> leaves_ok S O ->
  exists E, uspfs S c rp extended O = Some E /\
    forall t, In t (tags E) ->
      uvalid S O t /\ ushape O t /\ all_sorted t /\ valid_rec S O (forget t) /\ events_valid t /\
      total_cost c O false t = Some (ucost c O t) /\
      (forall p tp f, lsub t p = Some tp -> In f (lsyn tp) ->
         exists g, anc g p = true /\ is_lca_of_carriers O f g /\ holds_on t f g p).
Proof. exact uspfs_valid_full. Qed.
Print Assumptions C04_valid_unordered.
