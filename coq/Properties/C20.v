(** C20 placeholder *)
From Coq Require Import List Bool Arith ZArith.
From SR Require Import Model.DisjointSet Model.Triples Proofs.DisjointSetProofs Proofs.TriplesProofs.
Import ListNotations.
Theorem C20_make_len : forall n, len (make n) = Z.of_nat n.
Proof. exact make_len. Qed.
Print Assumptions C20_make_len.
