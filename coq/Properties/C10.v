(** C10 — the algorithms agree with each other where their models coincide (plain part). *)
From Coq Require Import List Bool ZArith.
From SR Require Import Base.PathB Base.Ext Model.Entry Model.Recon Model.LcaRec Model.Thl
  Proofs.PathFacts Proofs.ReconProofs Proofs.DpProofs Proofs.LcaProofs Proofs.ThlProofs Proofs.ThlFinal Proofs.MetaProofs.
Import ListNotations.
Local Open Scope Z_scope.

(* the general DTL optimum never exceeds the LCA reconciliation cost ... *)
Theorem C10_dtl_le_lca : forall S c O r,
  nn (c_hgt c) -> 0 <= c_floss c -> c_spe c <= c_dup c + 2 * c_floss c -> leaves_ok S O ->
  In r (tags (reconcile_thl S c RALL O)) -> ele (cost c O r) (cost c O (lca_rec O)).
Proof. exact thl_le_lca. Qed.
Print Assumptions C10_dtl_le_lca.

(* ... with equality when transfers are forbidden *)
Theorem C10_dtl_eq_lca_no_transfer : forall S c O r,
  0 <= c_dup c -> 0 <= c_floss c -> c_spe c <= c_dup c + 2 * c_floss c -> c_hgt c = PInf -> leaves_ok S O ->
  In r (tags (reconcile_thl S c RALL O)) -> cost c O r = cost c O (lca_rec O).
Proof. exact thl_eq_lca_no_transfer. Qed.
Print Assumptions C10_dtl_eq_lca_no_transfer.

(* specification level: any optimum is at most the LCA cost *)
Theorem C10_opt_le_lca : forall S c O r, leaves_ok S O -> optimal S c O r ->
  ele (cost c O r) (cost c O (lca_rec O)).
Proof. exact dtl_le_lca. Qed.
Print Assumptions C10_opt_le_lca.

(** extended never exceeds base (labelled solvers) *)
From SR Require Import Model.Subseq Model.Spfs Model.Uspfs Proofs.SubseqProofs Proofs.LabelCostProofs
  Proofs.SpfsProofs Proofs.SpfsFinal Proofs.UspfsProofs Proofs.UspfsFinal.

Theorem C10_ext_le_base_ordered : forall S c orders O e e' lt lt',
  nn (c_hgt c) -> coherent_ord c -> orders_ok S O orders ->
  spfs S c RALL true orders O = Some e -> spfs S c RALL false orders O = Some e' ->
  In lt (tags e) -> In lt' (tags e') -> ele (cost_of c O lt) (cost_of c O lt').
Proof.
  intros S c orders O e e' lt lt' Hh Hc HO E E' I I'.
  apply (ext_spfs_optimum S c orders O e Hh Hc HO E) in I as [_ Opt].
  apply (base_spfs_optimum S c orders O e' Hh Hc HO E') in I' as [[ord [Io [V _]]] _].
  eapply Opt; eauto.
Qed.
Print Assumptions C10_ext_le_base_ordered.

Theorem C10_ext_le_base_unordered : forall S c O E E' t t',
  nn (c_hgt c) -> ucoherent c -> leaves_ok S O ->
  uspfs S c RALL true O = Some E -> uspfs S c RALL false O = Some E' ->
  In t (tags E) -> In t' (tags E') -> ele (ucost c O t) (ucost c O t').
Proof.
  intros S c O E E' t t' Hh Hc L HE HE' I I'.
  assert (RALL <> RNONE) as N by discriminate.
  destruct (superdtl_solutions_optimal S c RALL true O E t Hh Hc L N HE I) as [_ Opt].
  destruct (superdtl_solutions_optimal S c RALL false O E' t' Hh Hc L N HE' I') as [[V _] _].
  apply Opt. split; [exact V|discriminate].
Qed.
Print Assumptions C10_ext_le_base_unordered.

(** unordered <= ordered, and the single-family collapse (Proofs/CrossProofs.v) *)
From SR Require Import Proofs.CrossProofs.

(* any valid ordered solution can be turned into a valid unordered one on the same species mapping
   that costs no more *)
Theorem C10_unordered_le_ordered : forall S c ord O t,
  0 <= c_sloss c -> NoDup ord -> leaves_ord S ord O -> valid_ordered S ord O t ->
  exists u, uvalid S O u /\ forget u = forget t /\ ele (ucost c O u) (tcost c ord O t).
Proof. exact unordered_le_ordered. Qed.
Print Assumptions C10_unordered_le_ordered.

(* hence what the unordered solver returns never costs more than what the ordered one returns
   (same variant, base or extended) *)
Theorem C10_uspfs_le_spfs : forall S c extended orders O E e u lt,
  nn (c_hgt c) -> coherent_ord c -> orders_ok S O orders -> leaves_ok S O ->
  uspfs S c RALL extended O = Some E -> spfs S c RALL extended orders O = Some e ->
  In u (tags E) -> In lt (tags e) -> ele (ucost c O u) (cost_of c O lt).
Proof. exact uspfs_le_spfs. Qed.
Print Assumptions C10_uspfs_le_spfs.

(* every leaf carries the same single family: the ordered, unordered and plain DTL optima coincide ... *)
Theorem C10_single_family_collapse : forall S c f orders O,
  nn (c_hgt c) -> coherent_ord c -> single_fam f O -> leaves_ok S O ->
  (forall ord, In ord orders <-> ord = [f]) ->
  forall e E lt u r,
  spfs S c RALL true orders O = Some e -> uspfs S c RALL true O = Some E ->
  In lt (tags e) -> In u (tags E) -> In r (tags (reconcile_thl S c RALL O)) ->
  cost_of c O lt = cost c O r /\ ucost c O u = cost c O r /\ cost_of c O lt = ucost c O u.
Proof. exact single_family_solvers_collapse. Qed.
Print Assumptions C10_single_family_collapse.

(* ... and the base variants equal the LCA reconciliation cost *)
Theorem C10_single_family_base : forall S c f orders O,
  nn (c_hgt c) -> coherent_ord c -> single_fam f O -> leaves_ok S O ->
  (forall ord, In ord orders <-> ord = [f]) ->
  forall e E lt u,
  spfs S c RALL false orders O = Some e -> uspfs S c RALL false O = Some E ->
  In lt (tags e) -> In u (tags E) ->
  cost_of c O lt = cost c O (lca_rec O) /\ ucost c O u = cost c O (lca_rec O).
Proof. exact single_family_solvers_base. Qed.
Print Assumptions C10_single_family_base.

(* the root orders the ordered solver computes on a single-family input are exactly [[f]] *)
Theorem C10_single_family_root_orders : forall f O orders, single_fam f O ->
  Spfs.root_orders O = Some orders -> forall ord, In ord orders <-> ord = [f].
Proof. exact single_fam_root_orders. Qed.
Print Assumptions C10_single_family_root_orders.

Example C10_single_family_example := single_family_example.
Example C10_unordered_le_ordered_example := unordered_le_ordered_example.
